# C16 — hash / math / string module functions: argument and range logic, streaming over regions, cache, digests.
import json, os
from .. import core
from ..core import gN, gZ, gbool, glist, gbytes, gpair
from ..runner import Prop

I64_MAX = (1 << 63) - 1
I64_MIN = -(1 << 63)

# fn name -> (Gallina constructor, probe kind)
FNS = {
    "hash.md5": ("HMd5", "b"), "hash.sha1": ("HSha1", "b"), "hash.sha256": ("HSha256", "b"),
    "hash.crc32": ("HCrc32", "i"), "hash.checksum32": ("HChecksum32", "i"),
    "math.entropy": ("MEntropy", "f"), "math.mean": ("MMean", "f"), "math.deviation": ("MDeviation", "f"),
    "math.serial_correlation": ("MSerial", "f"), "math.monte_carlo_pi": ("MMonte", "f"),
    "math.count": ("MCount", "i"), "math.percentage": ("MPercentage", "f"), "math.mode": ("MMode", "i"),
    "math.min": ("MMin", "i"), "math.max": ("MMax", "i"), "math.abs": ("MAbs", "i"),
    "math.to_number": ("MToNumber", "i"), "math.to_string": ("MToString", "b"),
    "string.to_int": ("SToInt", "i"), "string.length": ("SLength", "i"),
}
RANGE_FNS = ["hash.md5", "hash.sha1", "hash.sha256", "hash.crc32", "hash.checksum32", "math.entropy", "math.mean",
             "math.serial_correlation", "math.monte_carlo_pi"]


# ------------------------------------------------------------------ rendering a probe as YARA text (trusted glue)
def y_int(v):
    if v == I64_MIN:
        return "(-9223372036854775807 - 1)"
    return "%d" % v if v >= 0 else "(-%d)" % (-v)


def y_str(hx):
    return '"' + "".join("\\x%02x" % b for b in bytes.fromhex(hx)) + '"'


def y_flt(num, den):
    # den is a power of two <= 1024: the decimal expansion is finite and parsed exactly
    neg = num < 0
    num = abs(num)
    ip, rem = divmod(num, den)
    frac = ""
    while rem:
        rem *= 10
        d, rem = divmod(rem, den)
        frac += "%d" % d
    s = "%d.%s" % (ip, frac or "0")
    return "(-%s)" % s if neg else s


def y_arg(a):
    if "i" in a:
        return y_int(a["i"])
    if "s" in a:
        return y_str(a["s"])
    if "f" in a:
        return y_flt(a["f"][0], a["f"][1])
    return "true" if a["t"] else "false"


def render_rules(probes):
    out = ['import "hash"', 'import "math"', 'import "string"', 'import "probe"']
    for i, p in enumerate(probes):
        kind = FNS[p["fn"]][1]
        out.append("rule p%d { condition: probe.%s(%d, %s(%s)) }" % (
            i, kind, i, p["fn"], ", ".join(y_arg(a) for a in p["args"])))
    return "\n".join(out)


# ------------------------------------------------------------------ Gallina printing
def g_arg(a):
    if "i" in a:
        return "AInt %s" % gZ(a["i"])
    if "s" in a:
        return "AStr %s" % gbytes(bytes.fromhex(a["s"]))
    if "f" in a:
        return "AFlt (%d # %d)%%Q" % (a["f"][0], a["f"][1])
    return "ABool %s" % gbool(a["t"])


def g_mem(case):
    if case.get("layout") is None:
        return "Direct %s" % gbytes(bytes.fromhex(case["mem"]))
    regs = []
    for r in case["layout"]:
        data = bytes.fromhex(r["hex"])
        regs.append("{| rg_start := %d; rg_len := %d; rg_data := %s; rg_fail := %s |}" % (
            r["start"], r.get("described", len(data)) if r.get("described") is not None else len(data),
            gbytes(data), gbool(bool(r.get("fail")))))
    refetch = case.get("mode", "legacy") == "legacy"
    return "Frag %s %s" % (gbool(refetch), glist(regs))


def f64_parts(bits):
    sign = -1 if bits >> 63 else 1
    ex = (bits >> 52) & 0x7FF
    man = bits & ((1 << 52) - 1)
    if ex == 0x7FF:
        return None
    if ex == 0:
        return sign * man, -1074
    return sign * (man | (1 << 52)), ex - 1075


def g_oval(v):
    if v is None:
        return "OUndef"
    if "i" in v:
        return "OInt %s" % gZ(int(v["i"]))
    if "b" in v:
        return "OBytes %s" % gbytes(bytes.fromhex(v["b"]))
    if "f" in v:
        p = f64_parts(int(v["f"]))
        if p is None:
            return "OInf"
        return "OFloat %s %s" % (gZ(p[0]), gZ(p[1]))
    raise ValueError("unexpected value %r" % (v,))


# ------------------------------------------------------------------ generation
def hx(b):
    return bytes(b).hex()


class C16(Prop):
    ID = "C16"
    LEVEL = "proof"
    COQ_TARGETS = ["theories/Properties/C16.vo"]
    MODEL_TARGETS = ["theories/Model/ModFuncsCase.vo"]
    CASE_HEADER = ("From Coq Require Import QArith.\n"
                   "From Boreal Require Import Base.Prelude Spec.MathSpec Model.ModFuncs Model.ModFuncsCase.")
    HARNESS_BINS = ("c16",)
    KF = {}
    RULE = ("each case is one scan (byte slice, or a fragmented memory cut from the same bytes: adjacent regions, "
            "holes, failing fetches, fetches shorter/longer than described, zero-length regions, non-refetching scan "
            "modes) with 8-16 probe rules `probe.k(i, <module call>)`; a user module `probe` records the value each "
            "call evaluates to (undefined = never called).  Calls: all five hash functions, nine math functions over "
            "(offset, size) and over literals, count/percentage/mode with and without range, min/max/abs/to_number/"
            "to_string, string.to_int/length.  (offset, size) drawn from a boundary grid: negative, 0, 1, inside, "
            "size-1, size, size+1, 2^62, 2^63-1, i64::MIN, region boundaries +-1, multiples of 6; repeated and "
            "overlapping-key calls for the cache; to_int strings from a strtol grammar (spaces incl. \\v, sign, 0x/0 "
            "prefix, digits, junk, overflow boundaries) x bases {none,0,2,8,10,16,36,1,37,-1,2^32}.  Non-trivial: at "
            "least one range call with a defined value and one undefined or clipped; distinct by (input, probes).  "
            "Huge-input family (3 cases quick, 16 thorough): 17-40 MiB inputs described as pattern x repeat (expanded by "
            "the harness, one slice or adjacent regions), one slice summing beyond 2^32, probes over whole periods for "
            "mean, deviation, entropy, serial_correlation, monte_carlo_pi, count, percentage, mode, checksum32, expected "
            "values from the closed forms of Spec/PeriodicSpec.v; the harness is a debug build (overflow checks on).")
    TRUSTED = ["Coq 8.16.1 kernel + vm_compute", "harness/src/bin/c16.rs (user module `probe` on boreal's public "
               "module API; no hook)", "vlib/props/c16.py (renders probes as YARA text and as Gallina terms, decodes "
               "f64 bits to m*2^e)", "boreal's parser/compiler/evaluator for literals and calls (they deliver the "
               "arguments; C04/C08 cover them)"]
    ASSUMPTIONS = ["RustCrypto md-5/sha1/sha2 and crc32fast are streaming digests (update a; update b = update (a++b)); "
                   "their values are compared with Gallina reference implementations on every case",
                   "f64 accumulators holding integers are exact (inputs far below 2^17 bytes here); f64 results are "
                   "compared with the exact rational / enclosure within 1e-9 relative + 1e-12 absolute, in Coq",
                   "entropy: the log2 enclosure of Spec/Log2Enc.v is an executable reference, not proved against "
                   "Coq's real numbers"]

    # ---- inputs
    def gen_bytes(self, rng):
        k = rng.below(10)
        n = rng.choice([0, 1, 2, 5, 6, 7, 12, 13, 18, 24, 30, 36, 48, 55, 56, 60, rng.range(0, 64), rng.range(30, 60),
                        rng.range(30, 60)])
        if k == 0:
            return bytes(n)
        if k == 1:
            return rng.bytes(n, alphabet=b"ab")
        if k == 2:
            return rng.bytes(n, alphabet=b"abcdefgh")
        if k == 3:
            return rng.bytes(n, alphabet=[0, 255])
        if k == 4:
            # around the monte-carlo circle boundary: coordinates near 0xb504f3 (2^24/sqrt 2)
            out = bytearray()
            while len(out) < n:
                out += bytes([0xb5, 0x04, rng.choice([0xf2, 0xf3, 0xf4]), 0xb5, 0x04, rng.choice([0xf2, 0xf3, 0xf4])])
                out += bytes([rng.choice([0, 255, 0x80])] * 3 + [rng.choice([0, 255, 0x7f])] * 3)
            return bytes(out[:n])
        if k == 5:
            return bytes([rng.choice([7, 7, 7, 9])] * n)
        return rng.bytes(n)

    def gen_layout(self, rng, mem):
        """cut mem into regions; returns (layout, mode)"""
        base = rng.choice([0, 0, 1, 16, 4096, 1 << 32, (1 << 63) - 40, (1 << 64) - 1 - len(mem) - 40])
        ncut = rng.range(0, 4)
        cuts = sorted(set([0, len(mem)] + [rng.range(0, len(mem)) for _ in range(ncut)]))
        if rng.chance(1, 5) and len(mem) > 7:
            cuts = sorted(set(cuts + [rng.choice([5, 6, 7])]))
        regs, addr = [], base
        hole_budget = 1 if rng.chance(1, 4) else 0
        for a, b in zip(cuts, cuts[1:]):
            if hole_budget and a > 0 and rng.chance(1, 2):
                addr += rng.range(1, 3)
                hole_budget = 0
            data = mem[a:b]
            r = {"start": addr, "hex": hx(data), "fail": False, "described": None}
            k = rng.below(16)
            if k == 0:
                r["fail"] = True
            elif k == 1 and len(data) > 0:
                r["described"] = len(data) + rng.range(1, 4)      # fetch shorter than described (9.10)
            elif k == 2 and len(data) > 1:
                r["described"] = len(data) - rng.range(1, len(data) - 1)   # fetch longer than described
            regs.append(r)
            addr += r["described"] if r["described"] is not None else len(data)
            if rng.chance(1, 12):
                regs.append({"start": addr, "hex": "", "fail": rng.chance(1, 2), "described": None})  # empty region
        if not regs:
            regs = [{"start": base, "hex": "", "fail": False, "described": None}] if rng.chance(1, 2) else []
        mode = rng.choice(["legacy"] * 10 + ["fast", "single_pass"])
        return regs, mode

    # ---- (offset, size)
    def gen_range(self, rng, case):
        if case["layout"] is None:
            lo, ln = 0, len(case["mem"]) // 2
            marks = [0, ln]
        else:
            regs = case["layout"]
            marks = []
            for r in regs:
                dl = r["described"] if r["described"] is not None else len(r["hex"]) // 2
                marks += [r["start"], r["start"] + dl, r["start"] + len(r["hex"]) // 2]
            if not marks:
                marks = [0]
            lo, ln = min(marks), max(marks) - min(marks)
        k = rng.below(20)
        if k == 0:
            o = rng.choice([-1, -2, I64_MIN, -lo - 1])
        elif k == 1:
            o = rng.choice([I64_MAX, 1 << 62, lo + ln + 1, lo + ln + 100])
        elif k < 6:
            o = rng.choice(marks) + rng.choice([0, 0, 0, 1, -1])
        elif k < 9:
            o = lo
        else:
            o = lo + rng.range(0, max(0, ln))
        rest = lo + ln - o
        j = rng.below(20)
        if j == 0:
            n = rng.choice([-1, I64_MIN, -7])
        elif j == 1:
            n = rng.choice([I64_MAX, 1 << 62, I64_MAX - 1])
        elif j == 2:
            n = 0
        elif j < 6:
            n = rest + rng.choice([0, 0, 1, -1, 5])
        elif j < 9:
            n = rng.choice([1, 5, 6, 7, 11, 12, 13, 18, 24])
        elif j < 12:
            m2 = rng.choice(marks) - o
            n = m2 + rng.choice([0, 0, 1, -1])
        else:
            n = rng.range(0, max(1, rest + 2)) if rest > 0 else rng.range(0, 5)
        o = max(I64_MIN, min(I64_MAX, o))
        n = max(I64_MIN, min(I64_MAX, n))
        return o, n

    def gen_literal(self, rng, case):
        mem = bytes.fromhex(case["mem"])
        k = rng.below(5)
        if k == 0 and mem:
            a = rng.range(0, len(mem))
            b = rng.range(a, len(mem))
            return mem[a:b]
        if k == 1:
            return b""
        return self.gen_bytes(rng)[:40]

    def gen_toint(self, rng):
        s = b""
        for _ in range(rng.choice([0, 0, 0, 1, 1, 2])):
            s += bytes([rng.choice([32, 9, 10, 11, 12, 13, 32, 0x85, 0xa0, 0x1c])])
        s += rng.choice([b"", b"", b"", b"-", b"+", b"-", b"+-", b"- "])
        s += rng.choice([b"", b"", b"", b"0x", b"0X", b"0", b"0x0x", b"00", b"0b"])
        k = rng.below(10)
        if k <= 1:
            body = rng.choice([b"9223372036854775807", b"9223372036854775808", b"9223372036854775809",
                               b"7fffffffffffffff", b"8000000000000000", b"777777777777777777777",
                               b"1000000000000000000000", b"18446744073709551616", b"1y2p0ij32e8e7",
                               b"1y2p0ij32e8e8", b"92233720368547758070"])
        elif k == 2:
            body = b""
        else:
            body = rng.bytes(rng.range(1, 6), alphabet=b"0123456789abcdefABCDEFxzZ01701")
        s += body
        s += rng.choice([b"", b"", b"", b"", b"", b"", b" ", b"\x00", b"g", b"\n", b".5", b"x"])
        base = rng.choice([None, None, None, 0, 0, 2, 8, 10, 10, 16, 16, 16, 36, 1, 37, -1, 1 << 32, (1 << 32) + 10,
                           I64_MAX, 7, 11])
        args = [{"s": hx(s)}]
        if base is not None:
            args.append({"i": base})
        return args

    def gen_int(self, rng):
        return rng.choice([0, 1, -1, 2, -2, 255, 256, I64_MAX, I64_MIN, I64_MIN + 1, I64_MAX - 1, 1 << 32, -(1 << 32),
                           rng.range(-1000, 1000), rng.range(-(1 << 62), 1 << 62)])

    def gen_probe(self, rng, case, recent):
        k = rng.below(100)
        if k < 12 and recent:
            # repeat an earlier call, or the same key under another algorithm / with another size (cache)
            p = json.loads(json.dumps(rng.choice(recent)))
            j = rng.below(3)
            if j == 1 and p["fn"].startswith("hash."):
                p["fn"] = rng.choice(["hash.md5", "hash.sha1", "hash.sha256"])
            elif j == 2 and len(p["args"]) >= 2 and "i" in p["args"][1]:
                p["args"][1] = {"i": max(I64_MIN, min(I64_MAX, p["args"][1]["i"] + rng.choice([1, -1, 6])))}
            return p
        if k < 55:
            fn = rng.choice(RANGE_FNS)
            if rng.chance(1, 5):
                return {"fn": fn, "args": [{"s": hx(self.gen_literal(rng, case))}]}
            o, n = self.gen_range(rng, case)
            return {"fn": fn, "args": [{"i": o}, {"i": n}]}
        if k < 62:
            mean = [rng.choice([0, 510, 390, 388, 1020, rng.range(0, 1020), -6]), 4]
            if rng.chance(1, 4):
                return {"fn": "math.deviation", "args": [{"s": hx(self.gen_literal(rng, case))}, {"f": mean}]}
            o, n = self.gen_range(rng, case)
            return {"fn": "math.deviation", "args": [{"i": o}, {"i": n}, {"f": mean}]}
        if k < 74:
            fn = rng.choice(["math.count", "math.percentage"])
            mem = bytes.fromhex(case["mem"])
            b = rng.choice([0, 97, 255, 256, -1, 7, I64_MAX] + (list(mem[:8]) if mem else []))
            if rng.chance(1, 4):
                return {"fn": fn, "args": [{"i": b}]}
            o, n = self.gen_range(rng, case)
            return {"fn": fn, "args": [{"i": b}, {"i": o}, {"i": n}]}
        if k < 80:
            if rng.chance(1, 4):
                return {"fn": "math.mode", "args": []}
            o, n = self.gen_range(rng, case)
            return {"fn": "math.mode", "args": [{"i": o}, {"i": n}]}
        if k < 84:
            return {"fn": rng.choice(["math.min", "math.max"]), "args": [{"i": self.gen_int(rng)}, {"i": self.gen_int(rng)}]}
        if k < 86:
            return {"fn": "math.abs", "args": [{"i": self.gen_int(rng)}]}
        if k < 87:
            return {"fn": "math.to_number", "args": [{"t": rng.chance(1, 2)}]}
        if k < 91:
            args = [{"i": self.gen_int(rng)}]
            if rng.chance(3, 4):
                args.append({"i": rng.choice([10, 16, 8, 16, 8, 2, 0, -10, 36])})
            return {"fn": "math.to_string", "args": args}
        if k < 98:
            return {"fn": "string.to_int", "args": self.gen_toint(rng)}
        return {"fn": "string.length", "args": [{"s": hx(self.gen_literal(rng, case))}]}

    def gen_case(self, rng):
        mem = self.gen_bytes(rng)
        case = {"mem": hx(mem), "layout": None, "mode": "legacy"}
        if rng.chance(1, 2):
            case["layout"], case["mode"] = self.gen_layout(rng, mem)
        probes, recent = [], []
        for _ in range(rng.range(8, 16)):
            p = self.gen_probe(rng, case, recent)
            probes.append(p)
            if p["fn"] in RANGE_FNS and len(p["args"]) == 2:
                recent.append(p)
        case["probes"] = probes + self.gen_cache_block(rng.fork("cachefam"), case)
        return case

    # ---- cache-key confusion family: for every hash function, two calls in one scan whose keys collide when one of
    # them is keyed by another pair among (offset, size), (offset, end), (end, size), (size, offset), (end, offset);
    # both orders, offset != 0
    def gen_cache_block(self, rng, case):
        if not rng.chance(1, 3):
            return []
        if case["layout"] is None:
            lo, ln = 0, len(case["mem"]) // 2
        else:
            if case.get("mode") != "legacy" or not case["layout"] or case["layout"][0]["start"] > 16:
                return []
            lo, ln = case["layout"][0]["start"], len(case["mem"]) // 2
        if ln < 12:
            return []
        reps = {"A": lambda o, n: (o, n), "B": lambda o, n: (o, o + n), "C": lambda o, n: (o + n, n),
                "D": lambda o, n: (n, o), "E": lambda o, n: (o + n, o)}
        inv = {"A": lambda x, y: (x, y), "B": lambda x, y: (x, y - x), "C": lambda x, y: (x - y, y),
               "D": lambda x, y: (y, x), "E": lambda x, y: (y, x - y)}
        out = []
        fns = rng.shuffle(["hash.md5", "hash.sha1", "hash.sha256"]) + [rng.choice(["hash.crc32", "hash.checksum32"])]
        for fn in fns:
            for _ in range(6):
                o1 = lo + rng.range(1, min(8, ln // 3))
                n1 = rng.range(1, max(1, min(20, ln // 2)))
                a, b = rng.choice(["A", "B", "C", "D", "E"]), rng.choice(["A", "B", "C", "D", "E"])
                if a == b:
                    continue
                o2, n2 = inv[b](*reps[a](o1, n1))
                if o2 <= 0 or n2 < 0 or (o2, n2) == (o1, n1):
                    continue
                pair = [{"fn": fn, "args": [{"i": o1}, {"i": n1}]}, {"fn": fn, "args": [{"i": o2}, {"i": n2}]}]
                if rng.chance(1, 2):
                    pair.reverse()
                out += pair
                break
        return out

    # ---- huge periodic inputs (sums beyond 2^32): described by pattern x repeat, expanded by the harness
    HUGE_PATTERNS = ["ff", "ff00fffffeff", "ffffff000000b504f3b504f3", "ff80ff01ffffc0", "fe",
                     "".join("%02x" % b for b in range(256)), "00ff", "fffffffffffe"]

    def gen_huge(self, rng, idx):
        pat = bytes.fromhex(self.HUGE_PATTERNS[0] if idx == 0 else rng.choice(self.HUGE_PATTERNS))
        psum, plen = sum(pat), len(pat)
        # one contiguous slice must sum to more than u32::MAX (and the total stays below ~40 MiB)
        k = ((1 << 32) * rng.choice([104, 110, 125]) // 100) // psum + rng.range(1, 1000)
        splits = None
        if rng.chance(1, 3):
            a = rng.range(1, 5000)
            splits = rng.choice([[k - a, a], [a, k - a], [a, k - 2 * a, a]])
        L = k * plen
        spread = (min(pat) <= 0x40 and max(pat) >= 0xc0) or len(set(pat)) == 1
        probes = []

        def rng_range():
            j = rng.below(8)
            if j == 0:
                return 0, L
            if j == 1:
                return 0, I64_MAX
            if j == 2:
                return 0, L - plen * rng.range(1, 50)
            if j == 3:
                a = rng.range(1, 50)
                return plen * a, L
            if j == 4:
                a = rng.range(1, 50)
                return plen * a, L - plen * a - plen * rng.range(0, 50)
            if j == 5:
                return rng.choice([L, L + plen, -plen]), plen * 4       # undefined
            if j == 6:
                return 0, rng.choice([plen * 6, plen * rng.range(1, 20), 0])   # small
            return 0, L
        fns = ["math.mean", "math.mean", "math.deviation", "math.entropy", "math.monte_carlo_pi", "math.count",
               "math.percentage", "math.mode", "hash.checksum32"] + (["math.serial_correlation"] if spread else [])
        for fn in fns + [rng.choice(fns) for _ in range(rng.range(1, 4))]:
            o, n = rng_range() if probes else (0, L)
            if fn == "math.deviation":
                mu = [rng.choice([1020, 510, 4 * pat[0], 2 * psum * 2 // plen]), 4]
                probes.append({"fn": fn, "args": [{"i": o}, {"i": n}, {"f": mu}]})
            elif fn in ("math.count", "math.percentage"):
                b = rng.choice([pat[0], pat[-1], 255, 0, 256, 7])
                if splits is None and rng.chance(1, 4):
                    probes.append({"fn": fn, "args": [{"i": b}]})
                else:
                    probes.append({"fn": fn, "args": [{"i": b}, {"i": o}, {"i": n}]})
            elif fn == "math.mode" and rng.chance(1, 4):
                probes.append({"fn": fn, "args": []})
            else:
                probes.append({"fn": fn, "args": [{"i": o}, {"i": n}]})
        return {"huge": {"pattern": pat.hex(), "repeat": k, "splits": splits}, "mem": "", "layout": None,
                "mode": "legacy", "probes": probes}

    def n_huge(self, n):
        return 3 if n <= 2000 else 16

    def generate(self, ctx, rng, n):
        hr = rng.fork("huge")
        huge = [self.gen_huge(hr.fork("h%d" % i), i) for i in range(self.n_huge(n))] if n >= 100 else []
        return huge + [self.gen_case(rng.fork("c%d" % i)) for i in range(n)]

    def budget(self, tier):
        return 900 if tier == "quick" else 12000

    def corpus(self, ctx):
        out = []
        d = os.path.join(core.VERIF, "corpus", "C16")
        if os.path.isdir(d):
            for f in sorted(os.listdir(d)):
                if f.endswith(".json"):
                    out.append(core.load_case_file(os.path.join(d, f))["case"])
        return out

    # ---- execution
    def harness_case(self, case):
        hc = {"rules": render_rules(case["probes"]), "nprobes": len(case["probes"])}
        if case.get("huge"):
            h = case["huge"]
            hc["input"] = {"fill": {"pattern": h["pattern"], "repeat": h["repeat"]}}
            if h.get("splits"):
                hc["input"]["fill"]["splits"] = h["splits"]
                hc["params"] = {"mode": "legacy"}
        elif case.get("layout") is None:
            hc["input"] = {"mem": case["mem"]}
        else:
            hc["input"] = {"regions": [{"start": r["start"], "hex": r["hex"], "fail": bool(r.get("fail")),
                                        "described": r.get("described")} for r in case["layout"]]}
            hc["params"] = {"mode": case.get("mode", "legacy")}
        return hc

    def execute(self, ctx, cases):
        outs = core.harness_run(ctx.binp, "c16", [self.harness_case(c) for c in cases])
        for c, o in zip(cases, outs):
            ctx.count("input=" + ("huge/%s" % ("fragmented" if c["huge"].get("splits") else "direct") if c.get("huge") else
                                  "direct" if c.get("layout") is None else
                                  "fragmented/%s/%d regions" % (c.get("mode"), min(len(c["layout"]), 5))))
            vals = (o or {}).get("vals") or []
            for p, v in zip(c["probes"], vals):
                ctx.count("%s:%s" % (p["fn"], "undefined" if v is None else "value"))
            if isinstance(o, dict) and "panic" in o:
                ctx.count("outcome=panic")
        return outs

    # ---- Coq term
    def term(self, ctx, case, out):
        if not isinstance(out, dict):
            return (False, False, 0)
        if "panic" in out:
            o = "IPanic"
        elif "vals" in out and out.get("error") is None:
            try:
                o = "(IVals %s)" % glist([g_oval(v) for v in out["vals"]])
            except (ValueError, KeyError, TypeError):
                return (False, False, 0)
        else:
            return (False, False, 0)     # compile error, scan error, harness crash
        ps = glist(["(%s, %s)" % (FNS[p["fn"]][0], glist([g_arg(a) for a in p["args"]])) for p in case["probes"]])
        if case.get("huge"):
            h = case["huge"]
            return "C16_huge_case %s %d %s %s %s" % (gbytes(bytes.fromhex(h["pattern"])), h["repeat"],
                                                     gbool(bool(h.get("splits"))), ps, o)
        return "C16_case (%s) %s %s" % (g_mem(case), ps, o)

    def nontrivial(self, case, out):
        if not isinstance(out, dict) or "vals" not in out:
            return None
        defined = undefined = 0
        for p, v in zip(case["probes"], out["vals"]):
            if len(p["args"]) >= 2 and all("i" in a for a in p["args"][:2]) and p["fn"] not in ("math.min", "math.max",
                                                                                                 "math.to_string"):
                if v is None:
                    undefined += 1
                else:
                    defined += 1
        if case.get("huge") and defined:
            return json.dumps([case["huge"], case["probes"]], sort_keys=True)
        if defined and undefined:
            return json.dumps([case["mem"], case.get("layout"), case.get("mode"), case["probes"]], sort_keys=True)
        return None

    def sample(self, case, out):
        return {"input": {"mem": case["mem"], "layout": case.get("layout"), "mode": case.get("mode"),
                          "huge": case.get("huge")},
                "rules": render_rules(case["probes"][:4]), "impl_first_values": (out or {}).get("vals", out)[:4]
                if isinstance((out or {}).get("vals", None), list) else out}


PROP = C16()
