# Shared by c02.py / c03.py: HIR (JSON from the harness, see harness/src/bin/hirdesc/mod.rs) -> Gallina,
# string descriptions -> Gallina `sdesc`, hex token ASTs and regex ASTs -> YARA text / Gallina.
import json, os
from .. import core
from ..core import gN, gbool, glist, gbytes, gopt, gpair

AK = {"start": "StartLine", "end": "EndLine", "wb": "WordBoundary", "nwb": "NonWordBoundary"}
PK = {"w": "PWord", "s": "PSpace", "d": "PDigit"}


def g_perl(p):
    return "%s %s" % (PK[p[1]], gbool(p[2]))


def g_cls(c):
    if c[0] == "perl":
        return "(ClsPerl %s)" % g_perl(c)
    items = []
    for it in c[1]:
        if it[0] == "perl":
            items.append("CPerl %s" % g_perl(it))
        elif it[0] == "lit":
            items.append("CLit %d" % it[1])
        else:
            items.append("CRange %d %d" % (it[1], it[2]))
    return "(ClsBracket %s %s)" % (glist(items), gbool(c[2]))


def g_rkind(k):
    t = k[0]
    if t == "?":
        return "ZeroOrOne"
    if t == "*":
        return "ZeroOrMore"
    if t == "+":
        return "OneOrMore"
    if t == "n":
        return "(Exactly %d)" % k[1]
    if t == "n,":
        return "(AtLeast %d)" % k[1]
    return "(Bounded %d %d)" % (k[1], k[2])


def g_hir(h):
    t = h[0]
    if t == "alt":
        return "(HAlt %s)" % glist([g_hir(x) for x in h[1]])
    if t == "assert":
        return "(HAssert %s)" % AK[h[1]]
    if t == "class":
        return "(HClass %s)" % g_cls(h[1])
    if t == "mask":
        return "(HMask %d %d %s)" % (h[1], h[2], gbool(h[3]))
    if t == "cat":
        return "(HConcat %s)" % glist([g_hir(x) for x in h[1]])
    if t == "dot":
        return "HDot"
    if t == "empty":
        return "HEmpty"
    if t == "lit":
        return "(HLit %d)" % h[1]
    if t == "group":
        return "(HGroup %s)" % g_hir(h[1])
    if t == "rep":
        return "(HRep %s %s %s)" % (g_hir(h[1]), g_rkind(h[2]), gbool(h[3]))
    raise ValueError("hir tag %r" % (t,))


def hir_classes(h, acc):
    """collect (class definition, member bytes hex) pairs of a JSON HIR"""
    if h is None:
        return acc
    t = h[0]
    if t == "class":
        acc.append((h[1], h[2]))
    elif t in ("alt", "cat"):
        for x in h[1]:
            hir_classes(x, acc)
    elif t in ("group", "rep"):
        hir_classes(h[1], acc)
    return acc


def g_classes(h):
    """Gallina list of (class definition, member bytes) for every distinct class of a JSON HIR"""
    seen, out = set(), []
    for c, members in hir_classes(h, []):
        key = json.dumps(c) + members
        if key in seen:
            continue
        seen.add(key)
        out.append("(%s, %s)" % (g_cls(c), gbytes(bytes.fromhex(members))))
    return glist(out)


def kind_of(kind_text):
    if kind_text == "Literals":
        return "KLiterals"
    if kind_text == "Raw":
        return "KRaw"
    if kind_text.startswith("Atomized { NonGreedy"):
        return "KNonGreedy"
    if kind_text.startswith("Atomized { Greedy"):
        return "KGreedy"
    raise ValueError("matcher kind %r" % (kind_text,))


def half_codes(kind_text):
    """(reverse, forward) codes of the half validators in the hook's kind text: 0 none, 1 Simple, 2 Dfa"""
    import re
    m = re.search(r"NonGreedy \{ reverse: (\w+), forward: (\w+) \}", kind_text)
    if not m:
        return (0, 0)
    code = {"none": 0, "Simple": 1, "Dfa": 2}
    return (code[m.group(1)], code[m.group(2)])


def g_mods(m):
    return "{| m_fullword := %s; m_wide := %s; m_ascii := %s; m_nocase := %s; m_dot_all := %s |}" % tuple(
        gbool(x) for x in m)


def g_sdesc(d):
    """Gallina `sdesc` from one entry of the harness' "desc" list; hir must be present."""
    return ("{| s_lits := %s; s_atoms := %s; s_kind := %s; s_mods := %s; s_hir := %s; s_pre := %s; s_post := %s |}"
            % (glist([gbytes(bytes.fromhex(l)) for l in d["literals"]]),
               glist([gpair(gN(a), gN(b)) for a, b in d["atoms"]]),
               kind_of(d["kind"]), g_mods(d["mods"]), g_hir(d["hir"]),
               gopt(d["pre"], g_hir), gopt(d["post"], g_hir)))


def matches_of(scan, string_index=0):
    """(offset, length) list of string `string_index` of the first rule; [] if the rule is absent"""
    if not isinstance(scan, dict) or "rules" not in scan:
        return None
    if not scan["rules"]:
        return []
    st = scan["rules"][0]["strings"]
    if string_index >= len(st):
        return []
    return [(m["offset"], m["length"]) for m in st[string_index]["matches"]]


def profiles_agree(out):
    """match lists and matched rules of every scan are the same under the other compiler profile"""
    other = out.get("scans_other_profile")
    if other is None:
        return True
    if not isinstance(other, list) or len(other) != len(out["scans"]):
        return False

    def view(s):
        if not isinstance(s, dict) or "rules" not in s:
            return ("bad", json.dumps(s, sort_keys=True)[:200])
        return [(r["name"], [[(m["offset"], m["length"]) for m in st["matches"]] for st in r["strings"]]) for r in s["rules"]]
    return all(view(a) == view(b) for a, b in zip(out["scans"], other))


def g_matches(ms):
    return glist([gpair(gN(o), gN(l)) for o, l in ms])


# ------------------------------------------------------------------ hex token ASTs
# token: ["b", n] | ["nb", n] | ["m", nibble, "L"|"R"|"A"] | ["nm", nibble, "L"|"R"] | ["j", from, to|None] | ["alt", [[tok..]..]]
def hex_text(toks, rng=None):
    out = []
    for t in toks:
        k = t[0]
        if k == "b":
            out.append("%02X" % t[1])
        elif k == "nb":
            out.append("~%02X" % t[1])
        elif k in ("m", "nm"):
            neg = "~" if k == "nm" else ""
            if t[2] == "L":
                out.append("%s?%X" % (neg, t[1]))
            elif t[2] == "R":
                out.append("%s%X?" % (neg, t[1]))
            else:
                out.append("[1]" if (len(t) > 3 and t[3]) else "??")
        elif k == "j":
            f, to = t[1], t[2]
            if to is None:
                out.append("[%d-]" % f if f else "[-]")
            elif f == to:
                out.append("[%d]" % f)
            elif f == 0 and len(t) > 3 and t[3]:
                out.append("[-%d]" % to)
            else:
                out.append("[%d-%d]" % (f, to))
        else:
            out.append("( " + " | ".join(hex_text(a) for a in t[1]) + " )")
    return " ".join(out)


HM = {"L": "MLeft", "R": "MRight", "A": "MAll"}


def g_token(t):
    k = t[0]
    if k == "b":
        return "TByte %d" % t[1]
    if k == "nb":
        return "TNotByte %d" % t[1]
    if k == "m":
        return "TMasked %d %s" % (t[1], HM[t[2]])
    if k == "nm":
        return "TNotMasked %d %s" % (t[1], HM[t[2]])
    if k == "j":
        return "TJump %d %s" % (t[1], gopt(t[2], gN))
    return "TAlts %s" % glist([g_tokens(a) for a in t[1]])


def g_tokens(toks):
    return glist([g_token(t) for t in toks])


def hex_member(rng, toks, alphabet):
    """a random member of the language of the token list"""
    out = bytearray()
    for t in toks:
        k = t[0]
        if k == "b":
            out.append(t[1])
        elif k == "nb":
            b = rng.choice(alphabet)
            out.append(b if b != t[1] else (b ^ 1))
        elif k == "m":
            if t[2] == "L":
                out.append((rng.below(16) << 4) | t[1])
            elif t[2] == "R":
                out.append((t[1] << 4) | rng.below(16))
            else:
                out.append(rng.choice(alphabet))
        elif k == "nm":
            if t[2] == "L":
                lo = (t[1] + 1 + rng.below(15)) % 16
                out.append((rng.below(16) << 4) | lo)
            else:
                hi = (t[1] + 1 + rng.below(15)) % 16
                out.append((hi << 4) | rng.below(16))
        elif k == "j":
            f, to = t[1], t[2]
            hi = f + 3 if to is None else min(to, f + 3)
            out += rng.bytes(rng.range(f, hi), alphabet)
        else:
            out += hex_member(rng, rng.choice(t[1]), alphabet)
    return bytes(out)


def hex_bytes_used(toks, acc):
    for t in toks:
        if t[0] in ("b", "nb"):
            acc.add(t[1])
        elif t[0] == "m" and t[2] == "L":
            acc.add(0x40 | t[1])
        elif t[0] == "m" and t[2] == "R":
            acc.add((t[1] << 4) | 1)
        elif t[0] == "alt":
            for a in t[1]:
                hex_bytes_used(a, acc)
    return acc


def load_corpus(pid):
    out = []
    d = os.path.join(core.VERIF, "corpus", pid)
    if os.path.isdir(d):
        for f in sorted(os.listdir(d)):
            if f.endswith(".json"):
                out.append(core.load_case_file(os.path.join(d, f))["case"])
    return out
