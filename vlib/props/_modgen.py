# Shared by c17.py and c09.py: the executable corpus (files under /repo/boreal/tests/assets plus the byte-array
# constants of the integration tests, re-extracted from /repo on every run), structure-aware mutations (edit lists
# applied by the harness), region layouts.  Everything random comes from the Rng handed in.
import os, re, struct
from .. import core

ASSET_ROOT = os.path.join(core.REPO, "boreal", "tests", "assets")
UTIL_RS = os.path.join(core.REPO, "boreal", "tests", "it", "libyara_compat", "util.rs")
WORK_ASSETS = os.path.join(core.VERIF, ".work", "assets")

SKIP_EXT = (".yar", ".cs", ".asm", ".ps1", ".cil", ".notes")
SKIP_NAMES = ("README", "COPYING")
MAX_ASSET = 800 * 1024      # larger files only take time; the formats are covered by the smaller ones

BOUNDARY32 = [0, 1, 2, 0x7F, 0x80, 0xFF, 0x100, 0x7FFF, 0x8000, 0xFFFF, 0x10000, 0x7FFFFFFF, 0x80000000, 0xFFFFFFFE,
              0xFFFFFFFF]


def extract_consts():
    """`pub const NAME: &[u8] = &[ 0x.., … ];` of tests/it/libyara_compat/util.rs → .work/assets/NAME.bin"""
    os.makedirs(WORK_ASSETS, exist_ok=True)
    src = open(UTIL_RS).read()
    out = []
    for m in re.finditer(r"pub const (\w+): &\[u8\] = &\[(.*?)\];", src, flags=re.S):
        body = re.sub(r"//[^\n]*", "", m.group(2))
        toks = [t.strip() for t in body.replace("\n", " ").split(",") if t.strip()]
        try:
            data = bytes(int(t, 0) for t in toks)
        except ValueError:
            raise RuntimeError("util.rs: constant %s is not a plain byte list" % m.group(1))
        p = os.path.join(WORK_ASSETS, m.group(1) + ".bin")
        if not os.path.exists(p) or open(p, "rb").read() != data:
            open(p, "wb").write(data)
        out.append(p)
    if not any(p.endswith("DEX_FILE.bin") for p in out):
        raise RuntimeError("util.rs: DEX_FILE not found (the only dex sample)")
    return out


def list_assets():
    """[(path, bytes, kind)] sorted by path; kind in pe/elf/macho/fat/dex/other (dotnet is a pe with a CLI header)."""
    paths = []
    for root, _, files in os.walk(ASSET_ROOT):
        if "invalid_files" in root or "warning_files" in root:
            continue
        for f in files:
            if f.endswith(SKIP_EXT) or f in SKIP_NAMES:
                continue
            p = os.path.join(root, f)
            if os.path.getsize(p) <= MAX_ASSET:
                paths.append(p)
    paths += extract_consts()
    out = []
    for p in sorted(paths):
        b = open(p, "rb").read()
        out.append((p, b, kind_of(b)))
    return out


def kind_of(b):
    if b[:2] == b"MZ":
        return "pe"
    if b[:4] == b"\x7fELF":
        return "elf"
    if b[:4] in (b"\xfe\xed\xfa\xce", b"\xce\xfa\xed\xfe", b"\xfe\xed\xfa\xcf", b"\xcf\xfa\xed\xfe"):
        return "macho"
    if b[:4] in (b"\xca\xfe\xba\xbe", b"\xbe\xba\xfe\xca", b"\xca\xfe\xba\xbf", b"\xbf\xba\xfe\xca"):
        return "fat"
    if b[:4] == b"dex\n":
        return "dex"
    return "other"


# ------------------------------------------------------------------------------------------------ field maps
def u16(b, o):
    return struct.unpack_from("<H", b, o)[0] if o + 2 <= len(b) else 0


def u32(b, o):
    return struct.unpack_from("<I", b, o)[0] if o + 4 <= len(b) else 0


def u64(b, o):
    return struct.unpack_from("<Q", b, o)[0] if o + 8 <= len(b) else 0


def pe_layout(b):
    """fields: [(offset, size, name)], boundaries: [offsets], sections: [(va, vsize, raw, rawsize)]"""
    F, B, S = [], [], []
    F.append((0x3c, 4, "e_lfanew"))
    nt = u32(b, 0x3c)
    if nt + 24 > len(b) or b[nt:nt + 4] != b"PE\0\0":
        return F, B, S, None
    names = ["machine", "number_of_sections", "timestamp", "ptr_symtab", "nb_symbols", "size_opt", "characteristics"]
    sizes = [2, 2, 4, 4, 4, 2, 2]
    o = nt + 4
    for n, s in zip(names, sizes):
        F.append((o, s, "coff." + n))
        o += s
    nsec = u16(b, nt + 6)
    szopt = u16(b, nt + 20)
    opt = nt + 24
    magic = u16(b, opt)
    is64 = magic == 0x20b
    # optional header: every 2/4-byte slot up to the data directories
    dd_off = opt + (112 if is64 else 96)
    o = opt
    while o < dd_off and o + 4 <= len(b):
        F.append((o, 4, "opt+%d" % (o - opt)))
        o += 4
    F.append((dd_off - 4, 4, "number_of_rva_and_sizes"))
    for i in range(16):
        F.append((dd_off + 8 * i, 4, "dd%d.va" % i))
        F.append((dd_off + 8 * i + 4, 4, "dd%d.size" % i))
    sec = opt + szopt
    B += [nt, opt, dd_off, sec]
    for i in range(min(nsec, 96)):
        so = sec + 40 * i
        if so + 40 > len(b):
            break
        for off, sz, n in [(8, 4, "vsize"), (12, 4, "va"), (16, 4, "rawsize"), (20, 4, "raw"), (24, 4, "reloc"),
                           (28, 4, "lines"), (32, 2, "nreloc"), (34, 2, "nlines"), (36, 4, "chars")]:
            F.append((so + off, sz, "sec%d.%s" % (i, n)))
        S.append((u32(b, so + 12), u32(b, so + 8), u32(b, so + 20), u32(b, so + 16)))
        B += [so, u32(b, so + 20), u32(b, so + 20) + u32(b, so + 16)]
    B.append(sec + 40 * nsec)

    def rva(va):
        for sva, vs, raw, rs in S:
            if sva <= va < sva + max(vs, rs):
                return raw + (va - sva)
        return va if S and va < min(s[0] for s in S) else None

    # directory contents: import/export/resource/debug/security/delay/clr headers get their own fields
    dirs = {}
    for i in range(16):
        va, sz = u32(b, dd_off + 8 * i), u32(b, dd_off + 8 * i + 4)
        if va and sz:
            off = va if i == 4 else rva(va)
            if off is not None and off < len(b):
                dirs[i] = (off, sz)
                B += [off, off + sz]
    if 0 in dirs:       # export directory
        o = dirs[0][0]
        for k in range(0, 40, 4):
            F.append((o + k, 4, "export+%d" % k))
    if 1 in dirs:       # import descriptors
        o = dirs[1][0]
        for d in range(6):
            for k in range(0, 20, 4):
                F.append((o + 20 * d + k, 4, "import%d+%d" % (d, k)))
            thunks = rva(u32(b, o + 20 * d)) or rva(u32(b, o + 20 * d + 16))
            if thunks:
                for k in range(0, 16, 4):
                    F.append((thunks + k, 4, "thunk%d+%d" % (d, k)))
    if 13 in dirs:      # delay imports
        o = dirs[13][0]
        for d in range(3):
            for k in range(0, 32, 4):
                F.append((o + 32 * d + k, 4, "delay%d+%d" % (d, k)))
    if 2 in dirs:       # resource directory root + first entries
        o = dirs[2][0]
        for k in range(0, 16, 2):
            F.append((o + k, 2, "rsrc+%d" % k))
        for e in range(6):
            F.append((o + 16 + 8 * e, 4, "rsrc.e%d.name" % e))
            F.append((o + 16 + 8 * e + 4, 4, "rsrc.e%d.off" % e))
        for k in range(0, min(dirs[2][1], 512), 4):
            F.append((o + k, 4, "rsrc.raw+%d" % k))
    if 6 in dirs:
        o = dirs[6][0]
        for k in range(0, 28, 4):
            F.append((o + k, 4, "debug+%d" % k))
    if 4 in dirs:       # WIN_CERTIFICATE
        o = dirs[4][0]
        F += [(o, 4, "cert.len"), (o + 4, 2, "cert.rev"), (o + 6, 2, "cert.type")]
        for k in range(8, min(dirs[4][1], 400), 1):
            F.append((o + k, 1, "cert.der+%d" % k))
    clr = None
    if 14 in dirs:      # CLI header + metadata root + streams + #~ header
        o = dirs[14][0]
        for k in range(0, 72, 4):
            F.append((o + k, 4, "cli+%d" % k))
        md = rva(u32(b, o + 8))
        if md is not None and b[md:md + 4] == b"BSJB":
            clr = md
            vlen = u32(b, md + 12)
            F += [(md + 4, 2, "md.major"), (md + 6, 2, "md.minor"), (md + 12, 4, "md.vlen")]
            so = md + 16 + vlen
            F += [(so, 2, "md.flags"), (so + 2, 2, "md.nstreams")]
            ns = u16(b, so + 2)
            so += 4
            for i in range(min(ns, 8)):
                F += [(so, 4, "stream%d.off" % i), (so + 4, 4, "stream%d.size" % i)]
                name_end = b.find(b"\0", so + 8)
                if name_end < 0:
                    break
                nm = b[so + 8:name_end]
                soff = md + u32(b, so)
                B += [soff, soff + u32(b, so + 4)]
                if nm in (b"#~", b"#-"):
                    F += [(soff + 4, 1, "tbl.major"), (soff + 6, 1, "tbl.heapsizes"), (soff + 8, 4, "tbl.valid_lo"),
                          (soff + 12, 4, "tbl.valid_hi"), (soff + 16, 4, "tbl.sorted_lo")]
                    nrows = bin(u64(b, soff + 8)).count("1")
                    for r in range(min(nrows, 45)):
                        F.append((soff + 24 + 4 * r, 4, "tbl.rows%d" % r))
                    base = soff + 24 + 4 * nrows
                    for k in range(0, min(u32(b, so + 4), 1200), 2):
                        F.append((base + k, 2, "tbl.data+%d" % k))
                so = (name_end + 4) & ~3
    return [f for f in F if f[0] + f[1] <= len(b)], sorted(set(x for x in B if 0 < x < len(b))), S, clr


def elf_layout(b):
    F, B = [], []
    if len(b) < 0x34:
        return [(o, 4, "hdr+%d" % o) for o in range(16, max(16, len(b) - 3), 4)], []
    is64 = b[4] == 2
    be = b[5] == 2
    rd16 = (lambda o: struct.unpack_from(">H", b, o)[0]) if be else (lambda o: struct.unpack_from("<H", b, o)[0])
    rd = (lambda o, s: int.from_bytes(b[o:o + s], "big" if be else "little"))
    F += [(4, 1, "class"), (5, 1, "data"), (16, 2, "type"), (18, 2, "machine"), (20, 4, "version")]
    if is64:
        hdr = [(24, 8, "entry"), (32, 8, "phoff"), (40, 8, "shoff"), (48, 4, "flags"), (52, 2, "ehsize"),
               (54, 2, "phentsize"), (56, 2, "phnum"), (58, 2, "shentsize"), (60, 2, "shnum"), (62, 2, "shstrndx")]
    else:
        hdr = [(24, 4, "entry"), (28, 4, "phoff"), (32, 4, "shoff"), (36, 4, "flags"), (40, 2, "ehsize"),
               (42, 2, "phentsize"), (44, 2, "phnum"), (46, 2, "shentsize"), (48, 2, "shnum"), (50, 2, "shstrndx")]
    F += hdr
    d = {n: rd(o, s) for o, s, n in hdr if o + s <= len(b)}
    ws = 8 if is64 else 4
    ph, pn, pes = d.get("phoff", 0), d.get("phnum", 0), d.get("phentsize", 0) or (56 if is64 else 32)
    for i in range(min(pn, 12)):
        o = ph + i * pes
        B.append(o)
        k = 0
        while k < pes:
            F.append((o + k, 4, "ph%d+%d" % (i, k)))
            k += 4
    sh, sn, ses = d.get("shoff", 0), d.get("shnum", 0), d.get("shentsize", 0) or (64 if is64 else 40)
    for i in range(min(sn, 40)):
        o = sh + i * ses
        B.append(o)
        k = 0
        while k < ses:
            F.append((o + k, 4, "sh%d+%d" % (i, k)))
            k += 4
        if o + ses <= len(b):
            soff = rd(o + (24 if is64 else 16), ws)
            ssz = rd(o + (32 if is64 else 20), ws)
            sty = rd(o + 4, 4)
            B += [soff, soff + ssz]
            if sty in (2, 11, 6) and soff < len(b):       # symtab, dynsym, dynamic: entries
                for k in range(0, min(ssz, 24 * 8), 4):
                    F.append((soff + k, 4, "sec%d.data+%d" % (i, k)))
    F = [(o, s, n, be) for o, s, n in F if o + s <= len(b)]
    return F, sorted(set(x for x in B if 0 < x < len(b)))


def macho_layout(b, base=0):
    F, B = [], []
    magic = b[base:base + 4]
    if magic in (b"\xca\xfe\xba\xbe", b"\xca\xfe\xba\xbf"):
        n = struct.unpack_from(">I", b, base + 4)[0] if base + 8 <= len(b) else 0
        F.append((base + 4, 4, "nfat_arch", True))
        es = 32 if magic == b"\xca\xfe\xba\xbf" else 20
        for i in range(min(n, 6)):
            o = base + 8 + i * es
            for k in range(0, es, 4):
                F.append((o + k, 4, "fat%d+%d" % (i, k), True))
            if o + es <= len(b):
                off = struct.unpack_from(">Q" if es == 32 else ">I", b, o + 8)[0]
                B.append(off)
                if off and off < len(b):
                    f2, b2 = macho_layout(b, off)
                    F += f2
                    B += b2
        return [f for f in F if f[0] + f[1] <= len(b)], B
    be = magic in (b"\xfe\xed\xfa\xce", b"\xfe\xed\xfa\xcf")
    is64 = magic in (b"\xfe\xed\xfa\xcf", b"\xcf\xfa\xed\xfe")
    if magic not in (b"\xfe\xed\xfa\xce", b"\xfe\xed\xfa\xcf", b"\xce\xfa\xed\xfe", b"\xcf\xfa\xed\xfe"):
        return [], []
    rd = lambda o: struct.unpack_from(">I" if be else "<I", b, o)[0] if o + 4 <= len(b) else 0
    for k, n in enumerate(["magic", "cputype", "cpusubtype", "filetype", "ncmds", "sizeofcmds", "flags"]):
        F.append((base + 4 * k, 4, n, be))
    o = base + (32 if is64 else 28)
    ncmds = rd(base + 16)
    for i in range(min(ncmds, 40)):
        if o + 8 > len(b):
            break
        cmd, sz = rd(o), rd(o + 4)
        B.append(o)
        for k in range(0, min(max(sz, 8), 160), 4):
            F.append((o + k, 4, "lc%d(%x)+%d" % (i, cmd, k), be))
        if sz < 8:
            break
        o += sz
    return [f for f in F if f[0] + f[1] <= len(b)], sorted(set(x for x in B if 0 < x < len(b)))


def dex_layout(b):
    F, B = [], []
    for k in range(8, 0x70, 4):
        F.append((k, 4, "hdr+%d" % k))
    for k, n in [(0x38, "string_ids"), (0x40, "type_ids"), (0x48, "proto_ids"), (0x50, "field_ids"),
                 (0x58, "method_ids"), (0x60, "class_defs"), (0x68, "data")]:
        sz, off = u32(b, k), u32(b, k + 4)
        B += [off]
        for j in range(0, min(sz * 4, 96), 4):
            F.append((off + j, 4, "%s+%d" % (n, j)))
    mo = u32(b, 0x34)
    B.append(mo)
    for j in range(0, 160, 2):
        F.append((mo + j, 2, "map+%d" % j))
    # class data / code items live in the data section: byte-level fields (uleb128)
    do = u32(b, 0x6c)
    for j in range(0, min(u32(b, 0x68), 400)):
        F.append((do + j, 1, "data+%d" % j))
    return [f for f in F if f[0] + f[1] <= len(b)], sorted(set(x for x in B if 0 < x < len(b)))


def layout_of(b, kind):
    """(fields [(off,size,name,big_endian)], boundaries)"""
    if kind == "pe":
        F, B, _, _ = pe_layout(b)
        return [(o, s, n, False) for o, s, n in F], B
    if kind == "elf":
        return elf_layout(b)
    if kind in ("macho", "fat"):
        return macho_layout(b)
    if kind == "dex":
        F, B = dex_layout(b)
        return [(o, s, n, False) for o, s, n in F], B
    return [], []


# ------------------------------------------------------------------------------------------------ mutations
def enc(v, size, be):
    return (v & ((1 << (8 * size)) - 1)).to_bytes(size, "big" if be else "little").hex()


def mutate(rng, asset, assets, cache):
    """One mutation = (kind, edit list) for `asset` = (path, bytes, kind)."""
    path, b, kind = asset
    if path not in cache:
        cache[path] = layout_of(b, kind)
    F, B = cache[path]
    if kind == "pe" and rng.chance(1, 3):
        # .NET assemblies: token-graph mutations (self / mutually referential metadata tokens)
        key = ("net", path)
        if key not in cache:
            cache[key] = net_parse(b) is not None
        if cache[key]:
            m = mutate_dotnet(rng, b)
            if m:
                return "dotnet-tokens", m[1], m[0]
    if kind in ("pe", "elf", "macho", "fat") and rng.chance(1, 10):
        m = entry_extremes(rng, b, kind, F)
        if m:
            return "entry-extreme", m[1], m[0]
    r = rng.below(100)
    if F and r < 52:
        # 1–3 header fields overwritten with boundary values / ±1
        n = 1 if rng.chance(3, 5) else rng.range(2, 3)
        edits, names = [], []
        for _ in range(n):
            off, size, name, be = rng.choice(F)
            cur = int.from_bytes(b[off:off + size], "big" if be else "little")
            c = rng.below(10)
            if c < 6:
                v = rng.choice(BOUNDARY32)
                if size == 8 and rng.chance(1, 2):
                    v = rng.choice([0xFFFFFFFFFFFFFFFF, 0x7FFFFFFFFFFFFFFF, 0x8000000000000000, 1 << 32, len(b), len(b) - 1])
            elif c < 8:
                v = cur + rng.choice([1, -1, 2, -2, 8, -8])
            elif c == 8:
                v = rng.choice([len(b), len(b) - 1, len(b) + 1, len(b) // 2, len(b) - 4])
            else:
                v = rng.next()
            edits.append({"op": "set", "off": off, "hex": enc(v, size, be)})
            names.append(name)
        return "field", edits, names
    if r < 66:
        # truncation: at a structural boundary (±1) or at a random point
        if B and rng.chance(2, 3):
            cut = rng.choice(B) + rng.choice([0, 0, 1, -1, 2, -2, 4])
        else:
            cut = rng.below(len(b) + 1) if not rng.chance(1, 4) else rng.below(min(len(b), 1024) + 1)
        cut = max(0, min(len(b), cut))
        return "trunc", [{"op": "trunc", "len": cut}], [str(cut)]
    if r < 76:
        # splice a slice of another file over this one
        other = rng.choice(assets)
        ob = other[1]
        ln = rng.choice([4, 16, 64, 256, 1024, len(ob)])
        so = rng.below(max(1, len(ob)))
        if rng.chance(1, 2) and B:
            do = rng.choice(B)
        else:
            do = rng.below(len(b) + 1)
        return "splice", [{"op": "splice", "file": other[0], "src_off": so, "len": ln, "dst_off": do}], [os.path.basename(other[0])]
    if r < 90:
        # bit flips, biased to the first KiB and to the structured regions
        n = rng.choice([1, 1, 2, 4, 16])
        edits = []
        for _ in range(n):
            if F and rng.chance(1, 2):
                off, size, _, _ = rng.choice(F)
                off += rng.below(size)
            elif rng.chance(1, 2):
                off = rng.below(min(len(b), 1024) or 1)
            else:
                off = rng.below(len(b) or 1)
            edits.append({"op": "flip", "off": off, "bit": rng.below(8)})
        return "flip", edits, []
    if r < 95:
        # zero or 0xFF-fill a block
        off = rng.choice(B) if B and rng.chance(1, 2) else rng.below(len(b) or 1)
        ln = rng.choice([4, 16, 64, 512])
        if rng.chance(1, 2):
            return "zero", [{"op": "zero", "off": off, "len": ln}], []
        return "ff", [{"op": "set", "off": off, "hex": "ff" * ln}], []
    # insert / append bytes (shifts everything behind)
    if rng.chance(1, 2):
        return "insert", [{"op": "insert", "off": rng.below(len(b) + 1), "hex": rng.bytes(rng.choice([1, 3, 16])).hex()}], []
    return "append", [{"op": "append", "hex": rng.bytes(rng.choice([1, 7, 64, 4096])).hex()}], []


def apply_edits(b, edits, read=lambda p: open(p, "rb").read()):
    """Python mirror of harness build_input (used to size layouts and to parse the mutated headers)."""
    buf = bytearray(b)
    for e in edits:
        op = e["op"]
        if op == "set":
            for i, x in enumerate(bytes.fromhex(e["hex"])):
                if e["off"] + i < len(buf):
                    buf[e["off"] + i] = x
        elif op == "flip":
            if e["off"] < len(buf):
                buf[e["off"]] ^= 1 << (e["bit"] & 7)
        elif op == "trunc":
            del buf[e["len"]:]
        elif op == "append":
            buf += bytes.fromhex(e["hex"])
        elif op == "insert":
            off = min(e["off"], len(buf))
            buf[off:off] = bytes.fromhex(e["hex"])
        elif op == "zero":
            for i in range(e["len"]):
                if e["off"] + i < len(buf):
                    buf[e["off"] + i] = 0
        elif op == "splice":
            other = read(e["file"])
            a = min(e["src_off"], len(other))
            l = min(e["len"], len(other) - a)
            d = min(e["dst_off"], len(buf))
            if len(buf) < d + l:
                buf += bytes(d + l - len(buf))
            buf[d:d + l] = other[a:a + l]
    return bytes(buf)


def gen_layout(rng, size, adversarial=False):
    """Region layout over an input of `size` bytes.  Plain: the file in one region at a non-zero base, or split in
    2–4 consecutive regions, with empty / tiny regions and failing fetches sprinkled in.  Adversarial (C09 only):
    described length != fetched length is *not* generated here (that is finding 9.10, owned elsewhere)."""
    base = rng.choice([0, 0x1000, 0x400000, 0x7f0000000000])
    regs = []
    k = rng.below(5)
    if k == 0 or size == 0:
        regs.append({"start": base, "off": 0, "len": size, "fail": False})
    else:
        cuts = sorted(set(rng.below(size + 1) for _ in range(rng.range(1, 3))))
        if rng.chance(1, 3):
            cuts = sorted(set(cuts + [rng.choice([1, 2, 63, 64, 512, 4096])]))
        prev = 0
        addr = base
        for c in cuts + [size]:
            c = min(c, size)
            regs.append({"start": addr, "off": prev, "len": c - prev, "fail": False})
            addr += (c - prev) + rng.choice([0, 0, 0x1000, 16])
            prev = c
    # sprinkle: an empty region, a tiny junk-free region in front, a failing fetch
    if rng.chance(1, 4):
        regs.insert(rng.below(len(regs) + 1), {"start": regs[-1]["start"] + regs[-1]["len"] + 0x2000, "off": 0, "len": 0, "fail": False})
    if rng.chance(1, 5):
        i = rng.below(len(regs))
        regs[i] = dict(regs[i], fail=True)
    if rng.chance(1, 6):
        # the same bytes mapped a second time later (a second candidate header)
        regs.append({"start": regs[-1]["start"] + regs[-1]["len"] + 0x10000, "off": 0, "len": size, "fail": False})
    # addresses ascending
    regs.sort(key=lambda r: r["start"])
    return regs


def group_assets(assets):
    """{group: [asset..]} with groups pe / dotnet / elf / macho / dex — drawn uniformly so that the rarer formats get
    as many mutations as pe"""
    g = {"pe": [], "dotnet": [], "elf": [], "macho": [], "dex": []}
    for a in assets:
        path, b, kind = a
        if kind == "pe":
            clr = pe_layout(b)[3]
            g["dotnet" if (clr is not None or "/dotnet/" in path) else "pe"].append(a)
        elif kind in ("macho", "fat"):
            g["macho"].append(a)
        elif kind in g:
            g[kind].append(a)
    return {k: v for k, v in g.items() if v}


def pick_asset(rng, groups):
    k = rng.choice(sorted(groups))
    return rng.choice(groups[k])


# ------------------------------------------------------------------------------------------------ cap amplification
# Synthetic files that make each collection with a documented maximum (a MAX_* constant in the module source) reach
# cap - 1, cap, cap + 1 and well beyond.  Deterministic builders; the files live in .work/synth (rebuilt when missing).
WORK_SYNTH = os.path.join(core.VERIF, ".work", "synth")


def _pe32(section_bytes, dirs, nsec_headers=None, extra_tail=b""):
    """PE32 with one real section (RVA 0x1000, file offset = headers size) holding `section_bytes`; dirs: {index:
    (rva, size)}; nsec_headers: total number of section headers to declare (copies of the real one)."""
    n = nsec_headers or 1
    hdr_len = (0x58 + 224 + 40 * n + 0x1ff) & ~0x1ff
    raw_len = (len(section_bytes) + 0x1ff) & ~0x1ff
    pe = bytearray(hdr_len)
    pe[0:2] = b"MZ"
    struct.pack_into("<I", pe, 0x3c, 0x40)
    pe[0x40:0x44] = b"PE\0\0"
    fh = 0x44
    struct.pack_into("<HH", pe, fh, 0x14c, n)
    struct.pack_into("<HH", pe, fh + 16, 224, 0x0102)
    oh = 0x58
    struct.pack_into("<H", pe, oh, 0x10b)
    struct.pack_into("<II", pe, oh + 16, 0x1000, 0x1000)
    struct.pack_into("<III", pe, oh + 28, 0x400000, 0x1000, 0x200)
    struct.pack_into("<H", pe, oh + 40, 4)
    struct.pack_into("<H", pe, oh + 48, 4)
    struct.pack_into("<II", pe, oh + 56, 0x1000 + ((raw_len + 0xfff) & ~0xfff), hdr_len)
    struct.pack_into("<H", pe, oh + 68, 3)
    struct.pack_into("<I", pe, oh + 92, 16)
    for i, (rva, size) in dirs.items():
        struct.pack_into("<II", pe, oh + 96 + 8 * i, rva, size)
    sh = oh + 224
    for k in range(n):
        o = sh + 40 * k
        pe[o:o + 6] = b".idata" if k == 0 else b".s%04d" % (k % 10000)
        struct.pack_into("<IIII", pe, o + 8, raw_len, 0x1000, raw_len, hdr_len)
        struct.pack_into("<I", pe, o + 36, 0xC0000040)
    return bytes(pe) + section_bytes + bytes(raw_len - len(section_bytes)) + extra_tail


def pe_with_imports(libs, delayed=False):
    """one descriptor per entry of `libs`, importing libs[i] functions by ordinal"""
    dsz = 32 if delayed else 20
    nb_desc = len(libs) + 1
    names_off = nb_desc * dsz
    thunks_off = (names_off + len(libs) * 16 + 15) & ~15
    total = sum(n + 1 for n in libs)
    sec = bytearray(thunks_off + total * 4)
    for i, nb in enumerate(libs):
        name = b"lib%04d.dll" % (i % 10000)
        no = names_off + i * 16
        sec[no:no + len(name)] = name
        d = i * dsz
        trva = 0x1000 + thunks_off
        if delayed:
            struct.pack_into("<IIIII", sec, d, 1, 0x1000 + no, 0, trva, trva)
        else:
            struct.pack_into("<I", sec, d, trva)
            struct.pack_into("<II", sec, d + 12, 0x1000 + no, trva)
        for j in range(nb):
            struct.pack_into("<I", sec, thunks_off + 4 * j, 0x80000000 | (j % 1000 + 1))
        thunks_off += (nb + 1) * 4
    return _pe32(bytes(sec), {(13 if delayed else 1): (0x1000, nb_desc * dsz)})


def pe_with_sections(n):
    return _pe32(bytes(64), {}, nsec_headers=n)


def pe_with_exports(n):
    # export directory (40 bytes) + address table; no names
    sec = bytearray(40 + 16 + 4 * n)
    name_off = 40
    sec[name_off:name_off + 8] = b"exp.dll\0"
    struct.pack_into("<I", sec, 12, 0x1000 + name_off)
    struct.pack_into("<III", sec, 16, 1, n, 0)                 # ordinal base, nb functions, nb names
    struct.pack_into("<III", sec, 28, 0x1000 + 56, 0, 0)       # address table rva
    for j in range(n):
        struct.pack_into("<I", sec, 56 + 4 * j, 0x2000 + j)
    return _pe32(bytes(sec), {0: (0x1000, len(sec))})


def pe_with_resources(n):
    # root -> 1 type (id 10) -> 1 name (id 1) -> n languages -> n data entries
    root = 0
    tdir = 16 + 8
    ndir = tdir + 16 + 8
    ldir_end = ndir + 16 + 8 * n
    sec = bytearray(ldir_end + 16 * n + 16)
    struct.pack_into("<HH", sec, root + 12, 0, 1)
    struct.pack_into("<II", sec, root + 16, 10, 0x80000000 | tdir)
    struct.pack_into("<HH", sec, tdir + 12, 0, 1)
    struct.pack_into("<II", sec, tdir + 16, 1, 0x80000000 | ndir)
    struct.pack_into("<HH", sec, ndir + 12, 0, n & 0xFFFF)
    if n > 0xFFFF:
        # number_of_id_entries is a u16: split between named and id entries
        struct.pack_into("<HH", sec, ndir + 12, n - 0xFFFF, 0xFFFF)
    for j in range(n):
        struct.pack_into("<II", sec, ndir + 16 + 8 * j, j & 0x7FFFFFFF, ldir_end + 16 * j)
        struct.pack_into("<IIII", sec, ldir_end + 16 * j, 0x1000 + ldir_end, 4, 0, 0)
    return _pe32(bytes(sec), {2: (0x1000, len(sec))})


def pe_with_certs(signed_asset_bytes, k):
    """amplify a signed asset: its WIN_CERTIFICATE entry repeated k times at the end of the file"""
    b = bytearray(signed_asset_bytes)
    nt = u32(b, 0x3c)
    opt = nt + 24
    dd = opt + (112 if u16(b, opt) == 0x20b else 96)
    off, size = u32(b, dd + 8 * 4), u32(b, dd + 8 * 4 + 4)
    ln = u32(b, off)
    entry = bytes(b[off:off + ln])
    entry += bytes((-len(entry)) % 8)
    while len(b) % 8:
        b.append(0)
    new_off = len(b)
    b += entry * k
    struct.pack_into("<II", b, dd + 8 * 4, new_off, len(entry) * k)
    return bytes(b)


def elf32(nsections=0, nsegments=0, ndynamic=0, nsymbols=0, dynsym=False, bad_names=False):
    """ELF32 LE, ET_EXEC; tables laid out one after the other"""
    ehsize = 52
    out = bytearray(ehsize)
    out[0:7] = b"\x7fELF\x01\x01\x01"
    struct.pack_into("<HHI", out, 16, 2, 3, 1)
    struct.pack_into("<I", out, 24, 0x8048000)
    phoff = len(out) if nsegments else 0
    for i in range(nsegments):
        out += struct.pack("<IIIIIIII", 1, 0, 0x8048000 + 0x1000 * (i % 1000), 0, 16, 16, 5, 0x1000)
    data_secs = []          # (type, offset, size, entsize, link)
    if ndynamic:
        o = len(out)
        for i in range(ndynamic):
            out += struct.pack("<II", 1 + (i % 3), i)          # never DT_NULL
        data_secs.append((6, o, ndynamic * 8, 8, 0))
    if nsymbols:
        o = len(out)
        for i in range(nsymbols):
            out += struct.pack("<IIIBBH", 0x7FFFFF00 if bad_names else 1, i, 4, 0x12, 0, 1)   # st_name outside the table
        so = len(out)
        out += b"\0sym\0"
        data_secs.append((11 if dynsym else 2, o, nsymbols * 16, 16, len(data_secs) + 2))
        data_secs.append((3, so, 5, 0, 0))
    shstrndx = 0
    if nsections or data_secs:
        # object refuses e_shstrndx = 0: a section-name string table is mandatory
        so = len(out)
        out += b"\0.s\0"
        data_secs.append((3, so, 4, 0, 0))
        shstrndx = len(data_secs)
    nsh = max(nsections, len(data_secs) + 1 if data_secs else 0)
    shoff = len(out) if nsh else 0
    for i in range(nsh):
        if 1 <= i <= len(data_secs):
            ty, o, sz, es, link = data_secs[i - 1]
            out += struct.pack("<IIIIIIIIII", 1, ty, 2, 0x8050000 + o, o, sz, link, 0, 4, es)
        elif i == 0:
            out += bytes(40)
        else:
            out += struct.pack("<IIIIIIIIII", 0x7FFFFF00 if bad_names else 1, 1, 2, 0x8060000 + i, ehsize, 0, 0, 0, 1, 0)
    if ndynamic and nsegments:
        # PT_DYNAMIC pointing at the dynamic entries
        ty, o, sz, _, _ = data_secs[0]
        struct.pack_into("<IIIIIIII", out, phoff, 2, o, 0x8050000 + o, 0, sz, sz, 6, 4)
    struct.pack_into("<II", out, 28, phoff, shoff)
    struct.pack_into("<HHHHHH", out, 40, ehsize, 32, nsegments & 0xFFFF, 40, nsh & 0xFFFF, shstrndx)
    return bytes(out)


def macho32(nsegments=1, nsections=0):
    """Mach-O 32 LE with `nsegments` LC_SEGMENT commands; the first one has `nsections` sections"""
    cmds = bytearray()
    for i in range(nsegments):
        ns = nsections if i == 0 else 0
        seg = bytearray(56 + 68 * ns)
        struct.pack_into("<II", seg, 0, 1, len(seg))
        seg[8:8 + 6] = b"__TEXT"
        struct.pack_into("<IIIIIIII", seg, 24, 0x1000 * i, 0x1000, 0, 0, 7, 5, ns, 0)
        for j in range(ns):
            o = 56 + 68 * j
            seg[o:o + 6] = b"__text"
            seg[o + 16:o + 22] = b"__TEXT"
            struct.pack_into("<II", seg, o + 32, 0x1000 + j, 1)
        cmds += seg
    hdr = struct.pack("<IIIIIII", 0xfeedface, 7, 3, 2, nsegments, len(cmds), 0)
    return hdr + bytes(cmds)


def macho_fat(narchs):
    thin = macho32(1, 1)
    table = 8 + 20 * narchs
    off = (table + 15) & ~15
    out = bytearray(off) + thin
    struct.pack_into(">II", out, 0, 0xcafebabe, narchs)
    for i in range(narchs):
        struct.pack_into(">IIIII", out, 8 + 20 * i, 7, 3 + (i << 8), off, len(thin), 0)
    return bytes(out)


def synth_specs(assets, caps):
    """[(name, builder thunk, module, collection path string, requested count)] around every reachable cap.
    `caps`: {const name: value} translated from the source."""
    S = []
    c = caps

    def around(cap, big):
        return [cap - 1, cap, cap + 1, big]
    for n in around(c["MAX_PE_SECTIONS"], 200):
        S.append(("pe_sections_%d" % n, (lambda n=n: pe_with_sections(n)), "pe", "sections", n))
    I = c["MAX_PE_IMPORTS"]
    for libs in ([I - 1], [I], [I + 1], [I + 3616], [I - 384, 1000], [5000, 5000, 5000, 5000], [1] * (I + 1)):
        tag = "x".join(str(x) for x in libs[:4]) + ("_%dlibs" % len(libs) if len(libs) > 4 else "")
        S.append(("pe_imports_" + tag, (lambda libs=libs: pe_with_imports(libs)), "pe", "import_details[].functions", sum(libs)))
        S.append(("pe_delayed_" + tag, (lambda libs=libs: pe_with_imports(libs, True)), "pe", "delayed_import_details[].functions", sum(libs)))
    for n in around(c["MAX_PE_EXPORTS"], c["MAX_PE_EXPORTS"] + 3616):
        S.append(("pe_exports_%d" % n, (lambda n=n: pe_with_exports(n)), "pe", "export_details", n))
    for n in around(c["MAX_RESOURCES"], c["MAX_RESOURCES"] + 900):
        S.append(("pe_resources_%d" % n, (lambda n=n: pe_with_resources(n)), "pe", "resources", n))
    if "MAX_NB_VERSION_INFOS" in c:
        for n in around(c["MAX_NB_VERSION_INFOS"], c["MAX_NB_VERSION_INFOS"] + 7232):
            S.append(("pe_version_infos_%d" % n, (lambda n=n: pe_with_version_infos(n)), "pe", "version_info_list", n))
    for k in ((64, 32, 32), (64, 32, 33), (41, 41, 41), (40, 40, 41), (40, 40, 40), (255, 257, 1), (1, 257, 255), (300, 300, 1)):
        S.append(("pe_shared_resources_%dx%dx%d" % k, (lambda k=k: pe_with_shared_resources(*k)), "pe", "resources", k[0] * k[1] * k[2]))
    signed = sorted(a for a in assets if "/pe/signed/" in a[0])
    if signed:
        sb = signed[0][1]
        for n in around(c["MAX_PE_CERTS"], 40):
            S.append(("pe_certs_%d" % n, (lambda n=n: pe_with_certs(sb, n)), "pe", "signatures", n))
        S += cert_sequence_specs(assets, c["MAX_PE_CERTS"])
    E = c["MAX_NB_SECTIONS_elf"]
    for n in around(E, E + 1000):
        S.append(("elf_sections_%d" % n, (lambda n=n: elf32(nsections=n)), "elf", "sections", n))
        S.append(("elf_segments_%d" % n, (lambda n=n: elf32(nsegments=n)), "elf", "segments", n))
        S.append(("elf_dynamic_%d" % n, (lambda n=n: elf32(nsegments=1, ndynamic=n)), "elf", "dynamic", n))
        S.append(("elf_symtab_%d" % n, (lambda n=n: elf32(nsymbols=n)), "elf", "symtab", n))
        S.append(("elf_dynsym_%d" % n, (lambda n=n: elf32(nsymbols=n, dynsym=True)), "elf", "dynsym", n))
        # the degenerate branch of the loops: symbols / sections whose name index points outside the string table
        S.append(("elf_symtab_badnames_%d" % n, (lambda n=n: elf32(nsymbols=n, bad_names=True)), "elf", "symtab", n))
        S.append(("elf_dynsym_badnames_%d" % n, (lambda n=n: elf32(nsymbols=n, dynsym=True, bad_names=True)), "elf", "dynsym", n))
        S.append(("elf_sections_badnames_%d" % n, (lambda n=n: elf32(nsections=n, bad_names=True)), "elf", "sections", n))
    M = c["MAX_NB_SEGMENTS_macho"]
    for n in around(M, M + 500):
        S.append(("macho_segments_%d" % n, (lambda n=n: macho32(nsegments=n)), "macho", "segments", n))
        S.append(("macho_sections_%d" % n, (lambda n=n: macho32(1, n)), "macho", "segments[].sections", n))
    for nm, io, th in (("thin", 64, True), ("self", 0, False), ("self_thin", 0, True), ("beyond", 4096, True)):
        S.append(("macho_fat_nested_" + nm, (lambda io=io, th=th: macho_fat_nested(io, th)), "macho", "file", 1))
    for n in around(c["MAX_NB_ARCHS"], 300):
        S.append(("macho_fat_%d" % n, (lambda n=n: macho_fat(n)), "macho", "fat_arch", n))
    return S


def build_synth(specs):
    """materialise the files; returns {name: path}"""
    os.makedirs(WORK_SYNTH, exist_ok=True)
    out = {}
    for name, thunk, _, _, _ in specs:
        p = os.path.join(WORK_SYNTH, name + ".bin")
        if not os.path.exists(p):
            data = thunk()
            tmp = p + ".tmp%d" % os.getpid()
            open(tmp, "wb").write(data)
            os.replace(tmp, p)
        out[name] = p
    return out


def gen_layout_adjacent(rng, size):
    """Adjacent regions (each starts where the previous one ends) with many tiny ones (1–8 bytes) next to larger ones:
    what a range function (hash.*, math.*) streams over when the range crosses region boundaries."""
    base = rng.choice([0, 0, 0x1000, 0x400000])
    regs, off, addr = [], 0, base
    n = rng.range(3, 9)
    for i in range(n):
        if off >= size:
            break
        ln = rng.choice([1, 1, 2, 2, 3, 4, 5, 5, 6, 7, 8, 8, 13, 30, 64])
        if i == n - 1:
            ln = size - off
        ln = min(ln, size - off)
        regs.append({"start": addr, "off": off, "len": ln, "fail": False})
        off += ln
        addr += ln
    if off < size:
        regs.append({"start": addr, "off": off, "len": size - off, "fail": False})
    return regs


def stream_rules(rng, layout, first_tag):
    """conditions calling the streaming math / hash functions over ranges that cross several regions of `layout`"""
    fns = ["math.monte_carlo_pi(%d, %d) >= 0.0", "math.monte_carlo_pi(%d, %d) < 100.0", "math.serial_correlation(%d, %d) <= 1.0",
           "math.mean(%d, %d) >= 0.0", "math.entropy(%d, %d) >= 0.0", "math.deviation(%d, %d, 127.5) >= 0.0",
           'hash.md5(%d, %d) != ""', 'hash.sha1(%d, %d) != ""', 'hash.sha256(%d, %d) != ""', "hash.crc32(%d, %d) >= 0",
           "hash.checksum32(%d, %d) >= 0", "math.mode(%d, %d) >= 0", "math.count(0, %d, %d) >= 0",
           "math.percentage(0, %d, %d) >= 0.0"]
    rules = []
    for k in range(rng.range(4, 7)):
        i = rng.below(len(layout))
        j = min(len(layout) - 1, i + rng.range(1, 5))
        start = layout[i]["start"] + rng.below(max(1, min(layout[i]["len"], 8)))
        end = layout[j]["start"] + layout[j]["len"] - (rng.below(3) if layout[j]["len"] > 3 else 0)
        ln = max(1, end - start) if not rng.chance(1, 8) else rng.choice([1, 5, 6, 7, 12, 1 << 40])
        f = fns[0] if k == 0 else rng.choice(fns)
        rules.append({"tag": "%s%d" % (first_tag, k), "imports": [f.split(".")[0]], "cond": f % (start, ln)})
    return rules


# ------------------------------------------------------------------------------------------------ .NET metadata
# ECMA-335 II.22 table schemas: enough to locate every row and column of the `#~` stream, so that mutations can make
# metadata tokens self- or mutually-referential (TypeSpec -> TypeSpec, Extends cycles, nested-class cycles, …) instead
# of only perturbing bytes.  Column kinds: 2 / 4 fixed, "S" #Strings, "G" #GUID, "B" #Blob, ("T", table), ("C", coded).
NET_CODED = {
    "TypeDefOrRef": (2, [0x02, 0x01, 0x1B]),
    "HasConstant": (2, [0x04, 0x08, 0x17]),
    "HasCustomAttribute": (5, [0x06, 0x04, 0x01, 0x02, 0x08, 0x09, 0x0A, 0x00, 0x0E, 0x17, 0x14, 0x11, 0x1A, 0x1B, 0x20,
                               0x23, 0x26, 0x27, 0x28, 0x2A, 0x2C, 0x2B]),
    "HasFieldMarshal": (1, [0x04, 0x08]),
    "HasDeclSecurity": (2, [0x02, 0x06, 0x20]),
    "MemberRefParent": (3, [0x02, 0x01, 0x1A, 0x06, 0x1B]),
    "HasSemantics": (1, [0x14, 0x17]),
    "MethodDefOrRef": (1, [0x06, 0x0A]),
    "MemberForwarded": (1, [0x04, 0x06]),
    "Implementation": (2, [0x26, 0x23, 0x27]),
    "CustomAttributeType": (3, [None, None, 0x06, 0x0A, None]),
    "ResolutionScope": (2, [0x00, 0x1A, 0x23, 0x01]),
    "TypeOrMethodDef": (1, [0x02, 0x06]),
}
T, C = (lambda t: ("T", t)), (lambda c: ("C", c))
NET_TABLES = {
    0x00: ("Module", [2, "S", "G", "G", "G"]),
    0x01: ("TypeRef", [C("ResolutionScope"), "S", "S"]),
    0x02: ("TypeDef", [4, "S", "S", C("TypeDefOrRef"), T(0x04), T(0x06)]),
    0x03: ("FieldPtr", [T(0x04)]),
    0x04: ("Field", [2, "S", "B"]),
    0x05: ("MethodPtr", [T(0x06)]),
    0x06: ("MethodDef", [4, 2, 2, "S", "B", T(0x08)]),
    0x07: ("ParamPtr", [T(0x08)]),
    0x08: ("Param", [2, 2, "S"]),
    0x09: ("InterfaceImpl", [T(0x02), C("TypeDefOrRef")]),
    0x0A: ("MemberRef", [C("MemberRefParent"), "S", "B"]),
    0x0B: ("Constant", [2, C("HasConstant"), "B"]),
    0x0C: ("CustomAttribute", [C("HasCustomAttribute"), C("CustomAttributeType"), "B"]),
    0x0D: ("FieldMarshal", [C("HasFieldMarshal"), "B"]),
    0x0E: ("DeclSecurity", [2, C("HasDeclSecurity"), "B"]),
    0x0F: ("ClassLayout", [2, 4, T(0x02)]),
    0x10: ("FieldLayout", [4, T(0x04)]),
    0x11: ("StandAloneSig", ["B"]),
    0x12: ("EventMap", [T(0x02), T(0x14)]),
    0x13: ("EventPtr", [T(0x14)]),
    0x14: ("Event", [2, "S", C("TypeDefOrRef")]),
    0x15: ("PropertyMap", [T(0x02), T(0x17)]),
    0x16: ("PropertyPtr", [T(0x17)]),
    0x17: ("Property", [2, "S", "B"]),
    0x18: ("MethodSemantics", [2, T(0x06), C("HasSemantics")]),
    0x19: ("MethodImpl", [T(0x02), C("MethodDefOrRef"), C("MethodDefOrRef")]),
    0x1A: ("ModuleRef", ["S"]),
    0x1B: ("TypeSpec", ["B"]),
    0x1C: ("ImplMap", [2, C("MemberForwarded"), "S", T(0x1A)]),
    0x1D: ("FieldRVA", [4, T(0x04)]),
    0x1E: ("EncLog", [4, 4]),
    0x1F: ("EncMap", [4]),
    0x20: ("Assembly", [4, 2, 2, 2, 2, 4, "B", "S", "S"]),
    0x21: ("AssemblyProcessor", [4]),
    0x22: ("AssemblyOS", [4, 4, 4]),
    0x23: ("AssemblyRef", [2, 2, 2, 2, 4, "B", "S", "S", "B"]),
    0x24: ("AssemblyRefProcessor", [4, T(0x23)]),
    0x25: ("AssemblyRefOS", [4, 4, 4, T(0x23)]),
    0x26: ("File", [4, "S", "B"]),
    0x27: ("ExportedType", [4, 4, "S", "S", C("Implementation")]),
    0x28: ("ManifestResource", [4, 4, "S", C("Implementation")]),
    0x29: ("NestedClass", [T(0x02), T(0x02)]),
    0x2A: ("GenericParam", [2, 2, C("TypeOrMethodDef"), "S"]),
    0x2B: ("MethodSpec", [C("MethodDefOrRef"), "B"]),
    0x2C: ("GenericParamConstraint", [T(0x2A), C("TypeDefOrRef")]),
}


def net_parse(b):
    """Locate the metadata tables of a .NET PE.  Returns None or a dict:
       rows {table: n}, col(table, row(1-based), colidx) -> (file offset, size), blob_off / blob_size (file offset of the
       #Blob heap), colkind(table, colidx)."""
    lay = pe_layout(b)
    md = lay[3]
    if md is None:
        return None
    vlen = u32(b, md + 12)
    so = md + 16 + vlen
    ns = u16(b, so + 2)
    so += 4
    streams = {}
    for _ in range(min(ns, 16)):
        end = b.find(b"\0", so + 8)
        if end < 0:
            return None
        streams[bytes(b[so + 8:end])] = (md + u32(b, so), u32(b, so + 4))
        so = (end + 4) & ~3
    tb = streams.get(b"#~") or streams.get(b"#-")
    if not tb or b"#Blob" not in streams:
        return None
    toff, tsize = tb
    heapsizes = b[toff + 6]
    valid = u64(b, toff + 8)
    rows, o = {}, toff + 24
    for t in range(64):
        if valid >> t & 1:
            if t not in NET_TABLES:
                return None
            rows[t] = u32(b, o)
            o += 4
    hs = {"S": 4 if heapsizes & 1 else 2, "G": 4 if heapsizes & 2 else 2, "B": 4 if heapsizes & 4 else 2}

    def colsize(k):
        if k in (2, 4):
            return k
        if k in hs:
            return hs[k]
        if k[0] == "T":
            return 4 if rows.get(k[1], 0) >= 1 << 16 else 2
        bits, tabs = NET_CODED[k[1]]
        mx = max([rows.get(t, 0) for t in tabs if t is not None] or [0])
        return 4 if mx >= 1 << (16 - bits) else 2
    base, start = {}, o
    for t in sorted(rows):
        sizes = [colsize(k) for k in NET_TABLES[t][1]]
        base[t] = (o, sizes)
        o += sum(sizes) * rows[t]
    if o > toff + tsize + 4 or o > len(b):
        return None

    def col(t, r, c):
        bo, sizes = base[t]
        return bo + (r - 1) * sum(sizes) + sum(sizes[:c]), sizes[c]
    return {"rows": rows, "col": col, "blob_off": streams[b"#Blob"][0], "blob_size": streams[b"#Blob"][1],
            "kind": lambda t, c: NET_TABLES[t][1][c], "end": o}


def net_coded(name, table, row):
    bits, tabs = NET_CODED[name]
    return (row << bits) | tabs.index(table)


def net_compressed(v):
    if v < 0x80:
        return bytes([v])
    if v < 0x4000:
        return bytes([0x80 | (v >> 8), v & 0xFF])
    return bytes([0xC0 | (v >> 24), (v >> 16) & 0xFF, (v >> 8) & 0xFF, v & 0xFF])


def net_blob(b, p, idx):
    """(file offset of the blob content, length) of the blob at heap index idx"""
    o = p["blob_off"] + idx
    if o >= len(b):
        return None
    x = b[o]
    if x < 0x80:
        return o + 1, x
    if x < 0xC0:
        return o + 2, ((x & 0x3F) << 8) | b[o + 1] if o + 1 < len(b) else None
    return None


def mutate_dotnet(rng, b):
    """Token-graph mutations on a .NET assembly: returns (what, edits) or None."""
    p = net_parse(b)
    if p is None:
        return None
    rows = p["rows"]
    n_spec, n_def, n_ref = rows.get(0x1B, 0), rows.get(0x02, 0), rows.get(0x01, 0)

    def rd(t, r, c):
        o, s = p["col"](t, r, c)
        return int.from_bytes(b[o:o + s], "little")

    def wr(t, r, c, v):
        o, s = p["col"](t, r, c)
        return {"op": "set", "off": o, "hex": enc(v, s, False)}

    def type_tok(kind=None):
        """a TypeDefOrRef coded token, biased to TypeSpec rows"""
        k = kind or rng.choice(["spec", "spec", "spec", "def", "ref"])
        if k == "spec" and n_spec:
            return net_coded("TypeDefOrRef", 0x1B, rng.range(1, n_spec))
        if k == "ref" and n_ref:
            return net_coded("TypeDefOrRef", 0x01, rng.range(1, n_ref))
        if n_def:
            return net_coded("TypeDefOrRef", 0x02, rng.range(1, n_def))
        return 0

    def type_sig(tok, depth=0):
        c = rng.below(12)
        t = net_compressed(tok)
        if c < 4:
            return bytes([rng.choice([0x12, 0x11])]) + t
        if c < 6:
            return bytes([0x1d]) + bytes([0x12]) + t
        if c == 6:
            return bytes([0x0f, 0x12]) + t
        if c == 7:
            return bytes([0x15, 0x12]) + t + bytes([1, 0x12]) + t
        if c == 8:
            return bytes([rng.choice([0x1f, 0x20])]) + t + bytes([0x12]) + t
        if c == 9:
            return bytes([0x10, 0x12]) + t
        if c == 10:
            return bytes([0x14, 0x12]) + t + bytes([1, 0, 0])
        return bytes([0x1d] * rng.choice([2, 8, 30])) + bytes([0x12]) + t
    edits, what = [], []
    for _ in range(rng.choice([1, 1, 2, 3])):
        c = rng.below(10)
        if c < 4 and n_spec:
            # rewrite the signature blob of a TypeSpec so that it names a TypeSpec (itself or another one)
            j = rng.range(1, n_spec)
            bl = net_blob(b, p, rd(0x1B, j, 0))
            if not bl or bl[1] < 2:
                continue
            tok = net_coded("TypeDefOrRef", 0x1B, j if rng.chance(2, 3) else rng.range(1, n_spec))
            sig = type_sig(tok)[:bl[1]]
            edits.append({"op": "set", "off": bl[0], "hex": sig.hex()})
            what.append("TypeSpec[%d].sig=%s" % (j, sig.hex()))
            # make sure some class reaches it
            if n_def and rng.chance(1, 2):
                i = rng.range(1, n_def)
                edits.append(wr(0x02, i, 3, net_coded("TypeDefOrRef", 0x1B, j)))
                what.append("TypeDef[%d].Extends=TypeSpec[%d]" % (i, j))
        elif c < 6 and n_def:
            # Extends cycles: a class extending itself / a later class / a TypeSpec / a TypeRef
            i = rng.range(1, n_def)
            k = rng.choice(["self", "other", "spec", "ref"])
            tok = net_coded("TypeDefOrRef", 0x02, i) if k == "self" else type_tok({"other": "def"}.get(k, k))
            edits.append(wr(0x02, i, 3, tok))
            what.append("TypeDef[%d].Extends=%#x" % (i, tok))
        elif c == 6 and rows.get(0x29):
            # nested-class cycles
            r = rng.range(1, rows[0x29])
            i = rng.range(1, max(1, n_def))
            k = i if rng.chance(1, 2) else rng.range(1, max(1, n_def))
            edits += [wr(0x29, r, 0, i), wr(0x29, r, 1, k)]
            what.append("NestedClass[%d]=(%d,%d)" % (r, i, k))
            if rows[0x29] > 1 and rng.chance(1, 2):
                r2 = rng.range(1, rows[0x29])
                edits += [wr(0x29, r2, 0, k), wr(0x29, r2, 1, i)]
        elif c == 7 and n_ref:
            # TypeRef whose resolution scope is a TypeRef (itself or another): nested type references
            i = rng.range(1, n_ref)
            k = i if rng.chance(1, 2) else rng.range(1, n_ref)
            edits.append(wr(0x01, i, 0, net_coded("ResolutionScope", 0x01, k)))
            what.append("TypeRef[%d].scope=TypeRef[%d]" % (i, k))
        elif c == 8:
            # interface / generic-constraint / member-ref parents pointing at TypeSpecs
            cands = [(0x09, 1, "TypeDefOrRef"), (0x2C, 1, "TypeDefOrRef"), (0x0A, 0, "MemberRefParent"), (0x2A, 2, "TypeOrMethodDef")]
            cands = [x for x in cands if rows.get(x[0])]
            if not cands:
                continue
            t, col, coded = rng.choice(cands)
            r = rng.range(1, rows[t])
            if coded == "TypeOrMethodDef":
                v = net_coded(coded, rng.choice([0x02, 0x06]), rng.choice([0, 1, rng.range(1, 1 + max(n_def, rows.get(0x06, 0))), 0x7FFF]))
            elif coded == "MemberRefParent":
                v = net_coded(coded, 0x1B, rng.range(1, max(1, n_spec)))
            else:
                v = type_tok()
            edits.append(wr(t, r, col, v))
            what.append("%s[%d].col%d=%#x" % (NET_TABLES[t][0], r, col, v))
        else:
            # a field / method / member-ref / property signature naming TypeSpecs
            cands = [(0x04, 2), (0x06, 4), (0x0A, 2), (0x17, 2), (0x11, 0), (0x2B, 1)]
            cands = [x for x in cands if rows.get(x[0])]
            if not cands:
                continue
            t, col = rng.choice(cands)
            r = rng.range(1, rows[t])
            bl = net_blob(b, p, rd(t, r, col))
            if not bl or bl[1] < 3:
                continue
            ty = type_sig(type_tok("spec"))
            sig = (bytes([0x06]) + ty) if t == 0x04 else (bytes([rng.choice([0x00, 0x20]), 1]) + ty + ty)
            sig = sig[:bl[1]]
            edits.append({"op": "set", "off": bl[0], "hex": sig.hex()})
            what.append("%s[%d].sig=%s" % (NET_TABLES[t][0], r, sig.hex()))
    return (what, edits) if edits else None


EXTREME32 = [0, 1, 0x7FFFFFFF, 0x80000000, 0xFFFFFFFF, 0xFFFFFFFE, 0xFFFFFF00, 0xFFFFF000]


def pe_entry_section(b):
    """(index, header offset) of the section the entrypoint code of evaluator/entrypoint.rs picks for the entry point:
    among the first 60, the last one with the largest virtual address <= AddressOfEntryPoint"""
    nt = u32(b, 0x3c)
    if nt + 24 > len(b) or b[nt:nt + 4] != b"PE\0\0":
        return None
    opt = nt + 24
    ep = u32(b, opt + 16)
    sec = opt + u16(b, nt + 20)
    best, bva = None, 0
    for i in range(min(u16(b, nt + 6), 60)):
        so = sec + 40 * i
        if so + 40 > len(b):
            break
        va = u32(b, so + 12)
        if ep >= va and bva <= va:
            best, bva = (i, so), va
    return best


def entry_extremes(rng, b, kind, F):
    """Directed mutation: the fields the entry-point computation reads (section / segment table entries around the
    entry point, the entry point itself) := 0, 0x7FFFFFFF, 0xFFFFFFFF, …, values near the file size."""
    vals = EXTREME32 + [len(b), len(b) - 1, len(b) + 1]
    edits, what = [], []
    if kind == "pe":
        es = pe_entry_section(b)
        nt = u32(b, 0x3c)
        if es is None:
            return None
        i, so = es
        for _ in range(rng.choice([1, 1, 2])):
            name, off = rng.choice([("raw", so + 20), ("raw", so + 20), ("raw", so + 20), ("va", so + 12), ("vsize", so + 8),
                                    ("rawsize", so + 16), ("entry", nt + 24 + 16)])
            v = rng.choice(vals)
            if name == "va":
                v = rng.choice([0, 1, u32(b, nt + 24 + 16), u32(b, nt + 24 + 16) - 1])   # keep it the entry section
            edits.append({"op": "set", "off": off, "hex": enc(v, 4, False)})
            what.append("sec%d.%s=%#x" % (i, name, v & 0xFFFFFFFF) if name != "entry" else "entry=%#x" % (v & 0xFFFFFFFF))
        return what, edits
    # elf / macho: the table fields by name
    if kind == "elf":
        pool = [f for f in F if re.match(r"(ph|sh)\d+\+", f[2]) or f[2] in ("entry", "type")]
    else:
        pool = [f for f in F if re.match(r"lc\d+\((1|19|80000028|5)\)\+(8|12|16|20|24|28|32|36|40|44|48|52|56|60|64|68|72)$", f[2])
                or re.match(r"fat\d+\+(8|12|16)$", f[2])]
    if not pool:
        return None
    for _ in range(rng.choice([1, 2, 3])):
        off, size, name, be = rng.choice(pool)
        v = rng.choice(vals + ([0xFFFFFFFFFFFFFFFF, 0x7FFFFFFFFFFFFFFF] if size == 8 else []))
        edits.append({"op": "set", "off": off, "hex": enc(v, size, be)})
        what.append("%s=%#x" % (name, v))
    return what, edits


def net_long_signature(b0, content):
    """A .NET assembly (one with a TypeSpec table) whose TypeSpec[1] signature is `content`, a new blob appended to the
    #Blob heap (the last stream): stream size, CLI metadata size and the section bounds are enlarged, the bytes behind
    the heap are overwritten / the file extended.  Used for signatures far longer than any compiler emits."""
    p = net_parse(b0)
    lay = pe_layout(b0)
    md = lay[3]
    b = bytearray(b0)
    L = len(content)
    pref = bytes([0xC0 | (L >> 24), (L >> 16) & 0xff, (L >> 8) & 0xff, L & 0xff]) if L >= 0x4000 else net_compressed(L)
    blob = pref + content
    start = p["blob_off"] + p["blob_size"]
    if len(b) < start + len(blob):
        b += bytes(start + len(blob) - len(b))
    b[start:start + len(blob)] = blob
    vlen = u32(b, md + 12)
    so = md + 16 + vlen
    ns = u16(b, so + 2)
    so += 4
    for _ in range(ns):
        end = b.find(b"\0", so + 8)
        if bytes(b[so + 8:end]) == b"#Blob":
            struct.pack_into("<I", b, so + 4, p["blob_size"] + len(blob))
        so = (end + 4) & ~3
    nt = u32(b, 0x3c)
    opt = nt + 24
    dd = opt + (112 if u16(b, opt) == 0x20b else 96)
    cli_rva = u32(b, dd + 8 * 14)
    cli = None
    for sva, vs, raw, rs in lay[2]:
        if sva <= cli_rva < sva + max(vs, rs):
            cli = raw + cli_rva - sva
    struct.pack_into("<I", b, cli + 12, start + len(blob) - md)
    sec = opt + u16(b, nt + 20)
    raw = u32(b, sec + 20)
    struct.pack_into("<I", b, sec + 8, len(b) - raw)
    struct.pack_into("<I", b, sec + 16, len(b) - raw)
    o, s = p["col"](0x1B, 1, 0)
    b[o:o + s] = p["blob_size"].to_bytes(s, "little")
    return bytes(b)


def extra_synth_specs(assets):
    """synthetic files that are not about a cap: very long / deeply nested .NET signatures"""
    S = []
    for a in assets:
        if a[0].endswith("/pe/signed/rsa_sha256.exe") or a[0].endswith("/pe/signed/ec_p256_sha256.exe"):
            nm = os.path.basename(a[0]).split(".")[0]
            S.append(("pe_issuer_cycle_" + nm, (lambda b=a[1]: pe_with_issuer_cycle(b)), "pe", "", 2))
    base = [a for a in assets if a[0].endswith("/dotnet/types.exe")]
    if base:
        b0 = base[0][1]
        for n in (17, 5000, 60000):
            S.append(("dotnet_szarray_%d" % n, (lambda n=n: net_long_signature(b0, b"\x1d" * n + b"\x08")), "dotnet", "", n))
            S.append(("dotnet_cmod_%d" % n, (lambda n=n: net_long_signature(b0, b"\x1f\x05" * n + b"\x08")), "dotnet", "", n))
            S.append(("dotnet_genericinst_%d" % n, (lambda n=n: net_long_signature(b0, b"\x15" * n + b"\x12\x05" + b"\x01\x08" * n)), "dotnet", "", n))
            S.append(("dotnet_ptr_%d" % n, (lambda n=n: net_long_signature(b0, b"\x0f" * n + b"\x08")), "dotnet", "", n))
    return S


# ------------------------------------------------------------------------------------------------ systematic sweeps
def net_index_sweep(b, all_rows=False):
    """Every metadata column that is an index into a table or a heap x boundary values, systematically:
    table index T(t): 0, 1, rows-1, rows, rows+1, rows+2, max;  coded index: for every tag whose table exists the rows
    rows-1 .. rows+2 (and row 0 / 1 for the first tag), plus max;  heap index: 0, 1, size-1, size, size+1, max.
    Rows: all of them for small tables (<= 6 rows) or when all_rows, else the first two and the last two.
    Yields (what, edit)."""
    p = net_parse(b)
    if p is None:
        return
    rows = p["rows"]
    lay = pe_layout(b)
    md = lay[3]
    # heap sizes from the stream headers
    vlen = u32(b, md + 12)
    so = md + 16 + vlen
    ns = u16(b, so + 2)
    so += 4
    heaps = {}
    for _ in range(min(ns, 16)):
        end = b.find(b"\0", so + 8)
        heaps[bytes(b[so + 8:end])] = u32(b, so + 4)
        so = (end + 4) & ~3
    hsize = {"S": heaps.get(b"#Strings", 0), "G": heaps.get(b"#GUID", 0) // 16, "B": heaps.get(b"#Blob", 0)}
    for t in sorted(rows):
        n = rows[t]
        name, cols = NET_TABLES[t]
        rr = list(range(1, n + 1)) if (n <= 6 or all_rows) else [1, 2, n - 1, n]
        for c, k in enumerate(cols):
            if k in (2, 4):
                continue
            for r in rr:
                off, size = p["col"](t, r, c)
                mx = (1 << (8 * size)) - 1
                if k in ("S", "G", "B"):
                    vals = [0, 1, hsize[k] - 1, hsize[k], hsize[k] + 1, mx]
                elif k[0] == "T":
                    m = rows.get(k[1], 0)
                    vals = [0, 1, m - 1, m, m + 1, m + 2, mx]
                else:
                    bits, tabs = NET_CODED[k[1]]
                    vals = [0, mx]
                    for tag, tt in enumerate(tabs):
                        if tt is None:
                            continue
                        m = rows.get(tt, 0)
                        for row in ([0, 1] if tag == 0 else []) + [m - 1, m, m + 1, m + 2]:
                            if row >= 0:
                                vals.append((row << bits) | tag)
                cur = int.from_bytes(b[off:off + size], "little")
                for v in sorted(set(x & mx for x in vals if x >= 0)):
                    if v != cur:
                        yield ("%s[%d].col%d=%#x" % (name, r, c, v), {"op": "set", "off": off, "hex": enc(v, size, False)})


def macho_entry_fields(b, base=0, arch_offset=0, out=None):
    """[(file offset, size, name, big_endian, arch_offset)] of the entry-point carrying fields: LC_MAIN entryoff /
    stacksize (8 bytes each) and the LC_UNIXTHREAD register words, in a thin file or in every member of a fat file"""
    out = [] if out is None else out
    magic = b[base:base + 4]
    if magic in (b"\xca\xfe\xba\xbe", b"\xca\xfe\xba\xbf") and base == 0:
        n = struct.unpack_from(">I", b, 4)[0] if len(b) >= 8 else 0
        es = 32 if magic == b"\xca\xfe\xba\xbf" else 20
        for i in range(min(n, 8)):
            o = 8 + i * es
            if o + es > len(b):
                break
            off = struct.unpack_from(">Q" if es == 32 else ">I", b, o + 8)[0]
            out.append((o + 8, 8 if es == 32 else 4, "fat%d.offset" % i, True, 0))
            out.append((o + (16 if es == 32 else 12), 8 if es == 32 else 4, "fat%d.size" % i, True, 0))
            if 0 < off < len(b):
                macho_entry_fields(b, off, off, out)
        return out
    if magic not in (b"\xfe\xed\xfa\xce", b"\xfe\xed\xfa\xcf", b"\xce\xfa\xed\xfe", b"\xcf\xfa\xed\xfe"):
        return out
    be = magic in (b"\xfe\xed\xfa\xce", b"\xfe\xed\xfa\xcf")
    is64 = magic in (b"\xfe\xed\xfa\xcf", b"\xcf\xfa\xed\xfe")
    rd = lambda o: struct.unpack_from(">I" if be else "<I", b, o)[0] if o + 4 <= len(b) else 0
    o = base + (32 if is64 else 28)
    for i in range(min(rd(base + 16), 64)):
        if o + 8 > len(b):
            break
        cmd, sz = rd(o), rd(o + 4)
        if cmd == 0x80000028:
            out.append((o + 8, 8, "LC_MAIN.entryoff", be, arch_offset))
            out.append((o + 16, 8, "LC_MAIN.stacksize", be, arch_offset))
        elif cmd in (4, 5):
            for k in range(16, min(sz, 184), 8):
                out.append((o + k, 8, "LC_UNIXTHREAD+%d" % k, be, arch_offset))
        elif cmd in (1, 0x19):
            w = 8 if cmd == 0x19 else 4
            for j, nm in enumerate(["vmaddr", "vmsize", "fileoff", "filesize"]):
                out.append((o + 24 + j * w, w, "seg%d.%s" % (i, nm), be, arch_offset))
        if sz < 8:
            break
        o += sz
    return [f for f in out if f[0] + f[1] <= len(b)]


def macho_extremes(rng, b):
    F = macho_entry_fields(b)
    if not F:
        return None
    edits, what = [], []
    for _ in range(rng.choice([1, 1, 2, 3])):
        off, size, name, be, ao = rng.choice(F)
        M = 1 << (8 * size)
        v = rng.choice([M - 1, M - ao, M - ao - 1, M - ao + 1, M >> 1, (M >> 1) - 1, 1 << 32, (1 << 32) - 1, 0, 1, len(b), len(b) - ao])
        edits.append({"op": "set", "off": off, "hex": enc(v, size, be)})
        what.append("%s=%#x" % (name, v % M))
    return what, edits


# rules calling the module functions with arguments taken from the file through the module's own values
CALL_RULES = {
    "macho": ["macho.entry_point_for_arch(macho.cputype) >= 0", "macho.entry_point_for_arch(macho.cputype, macho.cpusubtype) >= 0",
              "macho.entry_point_for_arch(macho.fat_arch[%d].cputype) >= 0",
              "macho.entry_point_for_arch(macho.fat_arch[%d].cputype, macho.fat_arch[%d].cpusubtype) >= 0",
              "macho.entry_point_for_arch(macho.file[%d].cputype, macho.file[%d].cpusubtype) >= 0",
              "macho.file_index_for_arch(macho.fat_arch[%d].cputype) >= 0",
              "macho.file_index_for_arch(macho.file[%d].cputype, macho.file[%d].cpusubtype) >= 0",
              "for any a in macho.fat_arch : (macho.entry_point_for_arch(a.cputype, a.cpusubtype) >= 0 and macho.file_index_for_arch(a.cputype) >= 0)",
              "for any f in macho.file : (macho.entry_point_for_arch(f.cputype) >= 0)"],
    "pe": ["pe.rva_to_offset(pe.entry_point) >= 0", "pe.rva_to_offset(pe.sections[%d].virtual_address + pe.sections[%d].raw_data_size - 1) >= 0",
           "for any s in pe.sections : (pe.rva_to_offset(s.virtual_address) >= 0 and pe.section_index(s.name) >= 0 and pe.section_index(s.virtual_address) >= 0)",
           "for any d in pe.data_directories : (pe.rva_to_offset(d.virtual_address + d.size) >= 0)",
           "for any i in pe.import_details : (pe.imports(i.library_name) >= 0 and pe.imports(i.library_name, i.functions[0].name) >= 0 and pe.import_rva(i.library_name, i.functions[0].name) >= 0 and pe.imports(pe.IMPORT_ANY, i.library_name, i.functions[%d].ordinal) >= 0)",
           "for any i in pe.delayed_import_details : (pe.imports(pe.IMPORT_DELAYED, i.library_name, i.functions[0].name) >= 0 and pe.delayed_import_rva(i.library_name, i.functions[0].name) >= 0)",
           "for any e in pe.export_details : (pe.exports(e.name) and pe.exports_index(e.name) >= 0 and pe.exports(e.ordinal) and pe.exports_index(e.ordinal) >= 0)",
           "for any r in pe.resources : (pe.language(r.language) or pe.locale(r.language) or pe.rva_to_offset(r.rva) >= 0)",
           "pe.rich_signature.version(pe.rich_signature.key & 0xFFFF) >= 0 or pe.rich_signature.toolid(%d, %d) >= 0",
           "for any s in pe.signatures : (s.valid_on(s.not_before) >= 0 and s.valid_on(s.not_after + %d) >= 0)",
           "pe.calculate_checksum() == pe.checksum or pe.imphash() == \"\" or pe.is_dll() or pe.is_32bit() or pe.is_64bit()"],
    "elf": ["elf.import_md5() != \"\" or elf.telfhash() != \"\"", "for any s in elf.sections : (hash.crc32(s.offset, s.size) >= 0)",
            "for any s in elf.segments : (math.entropy(s.offset, s.file_size) >= 0.0)"],
    "dex": ["for any m in dex.method : (dex.has_method(m.class_name, m.name) and dex.has_method(m.name) and dex.has_class(m.class_name))",
            "for any f in dex.field : (dex.has_class(f.class_name))",
            "for any s in dex.string_ids : (hash.checksum32(s.offset, s.size) >= 0)"],
    "dotnet": ["for any r in dotnet.resources : (hash.md5(r.offset, r.length) != \"\")",
               "for any s in dotnet.streams : (math.mean(s.offset, s.size) >= 0.0)"],
}


def call_rules(rng, kind, first_tag, n=3):
    mods = {"pe": ["pe", "dotnet"], "elf": ["elf"], "macho": ["macho"], "fat": ["macho"], "dex": ["dex"]}.get(kind, [])
    pool = [(m, t) for m in mods for t in CALL_RULES[m]]
    out = []
    for k in range(min(n, len(pool))):
        m, t = rng.choice(pool)
        cnt = t.count("%d")
        cond = t % tuple(rng.choice([0, 0, 1, 2, 5]) for _ in range(cnt)) if cnt else t
        imports = sorted({m} | {x for x in ("hash", "math", "pe") if (x + ".") in cond})
        out.append({"tag": "%s%d" % (first_tag, k), "imports": imports, "cond": cond})
    return out


def macho_entry_sweep(b):
    """every entry-point carrying field of a Mach-O (LC_MAIN, LC_UNIXTHREAD registers, segment address/offset/size
    fields, fat arch offset/size) x 64-bit / 32-bit extremes, systematically.  Yields (what, edit)."""
    for off, size, name, be, ao in macho_entry_fields(b):
        M = 1 << (8 * size)
        cur = int.from_bytes(b[off:off + size], "big" if be else "little")
        for v in sorted(set(x % M for x in [M - 1, M - ao, M - ao - 1, M - ao + 1, M >> 1, (M >> 1) - 1, 1 << 32,
                                             (1 << 32) - 1, 0, 1, len(b), len(b) - ao])):
            if v != cur:
                yield ("%s@%d=%#x" % (name, ao, v), {"op": "set", "off": off, "hex": enc(v, size, be)})


def all_call_rules(kind):
    mods = {"pe": ["pe", "dotnet"], "elf": ["elf"], "macho": ["macho"], "fat": ["macho"], "dex": ["dex"]}.get(kind, [])
    out = []
    for m in mods:
        for t in CALL_RULES[m]:
            cond = t % tuple(0 for _ in range(t.count("%d"))) if t.count("%d") else t
            out.append({"tag": "c%d" % len(out), "imports": sorted({m} | {x for x in ("hash", "math", "pe") if (x + ".") in cond}),
                        "cond": cond})
    return out


def _version_blob(first, n):
    """VS_VERSION_INFO with one StringFileInfo / one StringTable of n String entries (keys "%04s" base 36 starting at
    `first`, value "v"): 20 bytes per entry; every length field is a u16, so n <= 3200"""
    def w(s):
        return s.encode("utf-16-le")
    strings = bytearray()
    for i in range(first, first + n):
        k, x = "", i
        for _ in range(4):
            k = "0123456789abcdefghijklmnopqrstuvwxyz"[x % 36] + k
            x //= 36
        e = struct.pack("<HHH", 20, 1, 1) + w(k) + b"\0\0" + w("v") + b"\0\0"
        strings += e
    table = struct.pack("<HHH", 24 + len(strings), 0, 1) + w("040904b0") + b"\0\0" + bytes(strings)
    sfi = struct.pack("<HHH", 36 + len(table), 0, 1) + w("StringFileInfo") + b"\0\0" + table
    head = struct.pack("<HHH", 0, 52, 0) + w("VS_VERSION_INFO") + b"\0\0"
    head += bytes(92 - len(head))
    blob = bytearray(head + sfi)
    struct.pack_into("<H", blob, 0, len(blob))
    assert len(blob) <= 0xFFFF
    return bytes(blob)


def pe_with_version_infos(total):
    """PE32 whose resource tree has one RT_VERSION type with one name and several language leaves, each pointing at its
    own VS_VERSION_INFO block; the String entries of all leaves sum to `total` (distinct keys)"""
    per = 3200
    counts = [per] * (total // per) + ([total % per] if total % per else [])
    k = len(counts)
    tdir = 16 + 8
    ndir = tdir + 16 + 8
    data_entries = ndir + 16 + 8 * k
    blobs_off = (data_entries + 16 * k + 15) & ~15
    sec = bytearray(blobs_off)
    struct.pack_into("<HH", sec, 12, 0, 1)
    struct.pack_into("<II", sec, 16, 16, 0x80000000 | tdir)            # RT_VERSION
    struct.pack_into("<HH", sec, tdir + 12, 0, 1)
    struct.pack_into("<II", sec, tdir + 16, 1, 0x80000000 | ndir)
    struct.pack_into("<HH", sec, ndir + 12, 0, k)
    first = 0
    for j, n in enumerate(counts):
        blob = _version_blob(first, n)
        first += n
        off = len(sec)
        sec += blob + bytes((-len(blob)) % 4)
        struct.pack_into("<II", sec, ndir + 16 + 8 * j, 0x409 + j, data_entries + 16 * j)
        struct.pack_into("<IIII", sec, data_entries + 16 * j, 0x1000 + off, len(blob), 0, 0)
    return _pe32(bytes(sec), {2: (0x1000, len(sec))})


COUNT_FIELD_RE = {
    "pe": r"coff\.number_of_sections$|number_of_rva_and_sizes$|export\+(20|24)$|rsrc\+(12|14)$|md\.nstreams$|tbl\.rows\d+$|cert\.len$|coff\.size_opt$",
    "elf": r"(phnum|shnum|phentsize|shentsize|shstrndx)$",
    "macho": r"(ncmds|sizeofcmds|nfat_arch)$|lc\d+\(1\)\+48$|lc\d+\(19\)\+64$",
    "fat": r"(ncmds|sizeofcmds|nfat_arch)$|lc\d+\(1\)\+48$|lc\d+\(19\)\+64$",
    "dex": r"hdr\+(56|64|72|80|88|96|104)$|map\+0$",
}


def count_field_sweep(b, kind, cache_key=None, cache=None):
    """every header field that announces *how many* entries a table has (sections, data directories, exported
    functions / names, resource entries, metadata streams, metadata table rows, program / section headers, load
    commands, sections of a segment, fat arches, dex id tables, map items) x values larger than what the file holds
    (cur+1, cur+2, 2*cur+1, 2000, max) and 0.  Yields (what, edit)."""
    F, _ = layout_of(b, kind)
    rx = re.compile(COUNT_FIELD_RE.get(kind, r"$^"))
    seen = set()
    for off, size, name, be in F:
        if not rx.search(name) or (off, size) in seen:
            continue
        seen.add((off, size))
        cur = int.from_bytes(b[off:off + size], "big" if be else "little")
        M = (1 << (8 * size)) - 1
        for v in sorted(set(x for x in [0, cur + 1, cur + 2, 2 * cur + 1, 2000, M] if 0 <= x <= M and x != cur)):
            yield ("%s=%d" % (name, v), {"op": "set", "off": off, "hex": enc(v, size, be)})


def _wide_nul(b, o, end):
    i = o
    while i + 1 < end:
        if b[i] == 0 and b[i + 1] == 0:
            return i - o
        i += 2
    return end - o


def version_entries(b):
    """Locate the RT_VERSION structures of a PE the way module/pe/version_info.rs walks them.  Returns
    [(kind, offset, key_len)] for every StringFileInfo ("sfi"), StringTable ("table") and String ("string") header."""
    out = []
    pat = "VS_VERSION_INFO".encode("utf-16-le") + b"\0\0"
    pos = b.find(pat)
    while pos >= 6:
        start = pos - 6
        end = start + u16(b, start)
        off = start + 92
        vfi = "VarFileInfo".encode("utf-16-le") + b"\0\0"
        guard = 0
        while b[off + 6:off + 6 + len(vfi)] == vfi and guard < 8:
            out.append(("varfileinfo", off, len(vfi) - 2))
            off += (u16(b, off) + 3) & ~3
            guard += 1
            if u16(b, off) == 0:
                break
        sfi = "StringFileInfo".encode("utf-16-le") + b"\0\0"
        n = 0
        while off < min(end, len(b)) and b[off + 6:off + 6 + len(sfi)] == sfi and n < 4:
            out.append(("sfi", off, len(sfi) - 2))
            sfi_len = (u16(b, off) + 3) & ~3
            t = off + 36
            tn = 0
            while t < min(off + sfi_len, len(b)) and tn < 4:
                tlen = (u16(b, t) + 3) & ~3
                kl = _wide_nul(b, t + 6, len(b))
                out.append(("table", t, kl))
                s = t + ((6 + kl + 2 + 3) & ~3)
                sn = 0
                while s < min(t + tlen, len(b)) and sn < 64:
                    sl = (u16(b, s) + 3) & ~3
                    if sl == 0:
                        break
                    out.append(("string", s, _wide_nul(b, s + 6, min(s + sl, len(b)))))
                    s += sl
                    sn += 1
                if tlen == 0:
                    break
                t += tlen
                tn += 1
            if sfi_len == 0:
                break
            off += sfi_len
            n += 1
        pos = b.find(pat, pos + 2)
    return out


def version_string_sweep(b):
    """Directed family for the RT_VERSION walk: for the first three and the last String entry of every table, and for
    every StringTable / StringFileInfo / VarFileInfo header: wLength := every value from 0 to a few bytes past the
    aligned start of the value (so the declared entry ends before, inside, right after the wide key and around the
    value start), 0xFFFE, 0xFFFF; the key's NUL terminator removed (alone and with each of those lengths around the key
    end); wValueLength := 0 / 0xFFFF.  Yields (what, edits)."""
    ents = version_entries(b)
    strings = [e for e in ents if e[0] == "string"]
    pick = [e for e in ents if e[0] != "string"] + strings[:3] + strings[-1:]
    seen = set()
    for kind, off, kl in pick:
        if off in seen:
            continue
        seen.add(off)
        vstart = (6 + kl + 2 + 3) & ~3
        cur = u16(b, off)
        for v in list(range(0, vstart + 8)) + [0xFFFE, 0xFFFF, cur - 1, cur + 1, cur + 2]:
            if 0 <= v <= 0xFFFF and v != cur:
                yield ("%s@%#x.wLength=%d" % (kind, off, v), [{"op": "set", "off": off, "hex": enc(v, 2, False)}])
        for v in (0, 0xFFFF):
            yield ("%s@%#x.wValueLength=%d" % (kind, off, v), [{"op": "set", "off": off + 2, "hex": enc(v, 2, False)}])
        # no NUL terminator after the key
        nul = off + 6 + kl
        for v in [cur] + list(range(6 + kl - 2, vstart + 6)):
            if 0 <= v <= 0xFFFF:
                yield ("%s@%#x.key-without-NUL,wLength=%d" % (kind, off, v),
                       [{"op": "set", "off": nul, "hex": "4100"}, {"op": "set", "off": off, "hex": enc(v, 2, False)}])


# ------------------------------------------------------------------------------------------------ DER surgery
def der_tlv(b, o):
    tag, l, h = b[o], b[o + 1], 2
    if l & 0x80:
        n = l & 0x7f
        l = int.from_bytes(b[o + 2:o + 2 + n], "big")
        h = 2 + n
    return tag, h, l


def der_len(n):
    if n < 0x80:
        return bytes([n])
    x = n.to_bytes((n.bit_length() + 7) // 8, "big")
    return bytes([0x80 | len(x)]) + x


def der_replace(b, off, repl):
    """Re-encode the TLV at `off` with the spans of `repl` ({(offset, length): new bytes}, each an entire TLV) replaced,
    fixing the lengths of every enclosing constructed TLV."""
    tag, h, l = der_tlv(b, off)
    if (off, h + l) in repl:
        return repl[(off, h + l)]
    if not any(off <= o and o + n <= off + h + l for (o, n) in repl):
        return bytes(b[off:off + h + l])
    out, p = bytearray(), off + h
    while p < off + h + l:
        _, h2, l2 = der_tlv(b, p)
        out += der_replace(b, p, repl)
        p += h2 + l2
    return bytes([tag]) + der_len(len(out)) + bytes(out)


def x509_names(b, version_off):
    """(issuer span, subject span) of the TBSCertificate whose `[0] version` element starts at version_off"""
    p = version_off
    spans = []
    for i in range(6):
        _, h, l = der_tlv(b, p)
        spans.append((p, h + l))
        p += h + l
    return spans[3], spans[5]


def pe_with_issuer_cycle(signed):
    """From a signed asset whose PKCS#7 holds a self-signed CA and a leaf issued by it: the two certificates are made to
    name each other as issuer (leaf.subject := N2, CA.issuer := N2, where N2 is the CA name with its last byte changed),
    none is self-signed any more.  DER lengths, WIN_CERTIFICATE length and the security directory are re-encoded."""
    b = bytearray(signed)
    nt = u32(b, 0x3c)
    opt = nt + 24
    dd = opt + (112 if u16(b, opt) == 0x20b else 96)
    coff = u32(b, dd + 32)
    clen = u32(b, coff)
    pat = bytes.fromhex("a003020102")
    offs, i = [], b.find(pat, coff)
    while 0 <= i < coff + clen:
        offs.append(i)
        i = b.find(pat, i + 1)
    certs = [x509_names(b, o) for o in offs]
    ca = [c for c in certs if b[c[0][0]:c[0][0] + c[0][1]] == b[c[1][0]:c[1][0] + c[1][1]]][0]
    leaf = [c for c in certs if c is not ca][0]
    n1 = bytes(b[ca[1][0]:ca[1][0] + ca[1][1]])
    n2 = n1[:-1] + bytes([n1[-1] ^ 1])
    root = coff + 8
    new = der_replace(b, root, {ca[0]: n2, leaf[1]: n2})
    entry = struct.pack("<IHH", 8 + len(new), u16(b, coff + 4), u16(b, coff + 6)) + new
    entry += bytes((-len(entry)) % 8)
    out = bytes(b[:coff]) + entry
    out = bytearray(out)
    struct.pack_into("<II", out, dd + 32, coff, len(entry))
    return bytes(out)


# ------------------------------------------------------------------------------------------------ dex class data
def uleb128(v):
    out = bytearray()
    while True:
        byte = v & 0x7f
        v >>= 7
        if v:
            out.append(byte | 0x80)
        else:
            out.append(byte)
            return bytes(out)


def read_uleb128(b, o):
    v, s = 0, 0
    while o < len(b):
        x = b[o]
        o += 1
        v |= (x & 0x7f) << s
        s += 7
        if not x & 0x80:
            break
    return v, o


def dex_class_data(lists):
    """class_data_item from lists = [static fields, instance fields, direct methods, virtual methods]; a field is
    (idx_diff, access_flags), a method (idx_diff, access_flags, code_off)"""
    out = bytearray()
    for l in lists:
        out += uleb128(len(l))
    for l in lists:
        for e in l:
            for v in e:
                out += uleb128(v)
    return bytes(out)


def dex_minimal(class_data_items):
    """a dex file with a header, one class_def per item and the items (no ids): the smallest file the dex module
    parses down to the class data"""
    n = len(class_data_items)
    hs = 0x70
    defs = hs
    data = defs + 32 * n
    body = bytearray()
    offs = []
    for it in class_data_items:
        offs.append(data + len(body))
        body += it + bytes(4)
    mem = bytearray(data) + body + bytes(8)
    mem[0:8] = b"dex\n035\0"
    struct.pack_into("<III", mem, 32, len(mem), hs, 0x12345678)
    struct.pack_into("<II", mem, 96, n, defs)
    struct.pack_into("<II", mem, 104, len(mem) - hs, hs)
    for i, o in enumerate(offs):
        struct.pack_into("<I", mem, defs + 32 * i + 24, o)
    return bytes(mem)


DEX_EXTREMES = [0, 1, 0x7f, 0x80, (1 << 32) - 1, 1 << 32, (1 << 63) - 1, 1 << 63, (1 << 64) - 2, (1 << 64) - 1]


def dex_class_data_family(real_dex=None):
    """Directed family for class_data_item lists: in each of the four lists, two or three CONSECUTIVE entries whose
    uleb128 index differences are every pair of extremes (their sums cross 2^32, 2^63 and 2^64), extreme access flags
    and code offsets, counts larger than the entries present, over-long uleb128s; on a synthetic minimal dex and —
    re-encoded at the end of the file, class_data_off re-pointed — on every class of the real dex sample.
    Yields (what, bytes)."""
    E = DEX_EXTREMES
    for li, lname in enumerate(["static_fields", "instance_fields", "direct_methods", "virtual_methods"]):
        meth = li >= 2
        for a in E:
            for c in E:
                ents = [(a, 1), (c, 2), (1, 4)] if not meth else [(a, 1, 0), (c, 2, 0), (1, 4, 0)]
                lists = [[], [], [], []]
                lists[li] = ents
                yield ("dex %s diffs %#x,%#x,1" % (lname, a, c), dex_minimal([dex_class_data(lists)]))
        for v in E:
            lists = [[], [], [], []]
            lists[li] = [(1, v), (1, v)] if not meth else [(1, v, v), (1, 1, v), (2, v, 0x70)]
            yield ("dex %s flags/code_off %#x" % (lname, v), dex_minimal([dex_class_data(lists)]))
    # every list populated at once, index continuing / resetting between lists
    for a in E:
        lists = [[(a, 1), (1, 1)], [(a, 1), (1, 1)], [(a, 1, 0), (1, 1, 0)], [(a, 1, 0), (1, 1, 0)]]
        yield ("dex all lists diffs %#x,1" % a, dex_minimal([dex_class_data(lists), dex_class_data(lists)]))
    # counts larger than the data, over-long uleb128
    for cnt in (3, 0x7f, 0xffff, (1 << 32) - 1, (1 << 64) - 1):
        item = uleb128(cnt) * 4 + uleb128(1) * 6
        yield ("dex counts %#x" % cnt, dex_minimal([item]))
    yield ("dex over-long uleb128", dex_minimal([bytes([2, 0, 0, 0]) + b"\xff" * 11 + b"\x01" + bytes([1, 1, 2])]))
    if real_dex is not None and real_dex[:4] == b"dex\n":
        b = real_dex
        n, off = u32(b, 0x60), u32(b, 0x64)
        for i in range(min(n, 8)):
            cdo = u32(b, off + 32 * i + 24)
            if not cdo or cdo >= len(b):
                continue
            p = cdo
            counts = []
            for _ in range(4):
                v, p = read_uleb128(b, p)
                counts.append(min(v, 64))
            lists = []
            for li, cnt in enumerate(counts):
                l = []
                for _ in range(cnt):
                    e = []
                    for _ in range(3 if li >= 2 else 2):
                        v, p = read_uleb128(b, p)
                        e.append(v)
                    l.append(tuple(e))
                lists.append(l)
            for li in range(4):
                if len(lists[li]) < 2:
                    continue
                for a, c in [((1 << 64) - 1, 1), ((1 << 63), (1 << 63)), ((1 << 32) - 1, 1), ((1 << 64) - 1, (1 << 64) - 1), (0, 0)]:
                    new = [list(l) for l in lists]
                    new[li][0] = (a,) + tuple(new[li][0][1:])
                    new[li][1] = (c,) + tuple(new[li][1][1:])
                    nb = bytearray(b) + dex_class_data(new) + bytes(8)
                    struct.pack_into("<I", nb, off + 32 * i + 24, len(b))
                    struct.pack_into("<I", nb, 32, len(nb))
                    yield ("dex sample class %d list %d diffs %#x,%#x" % (i, li, a, c), bytes(nb))


def win_certificate_entry(b):
    """the first WIN_CERTIFICATE entry of a signed PE, padded to 8 bytes"""
    nt = u32(b, 0x3c)
    opt = nt + 24
    dd = opt + (112 if u16(b, opt) == 0x20b else 96)
    off = u32(b, dd + 32)
    ln = u32(b, off)
    e = bytes(b[off:off + ln])
    return e + bytes((-len(e)) % 8)


def pe_with_cert_sequence(base, entries):
    """`base` (a signed PE) with its security directory replaced by the given sequence of WIN_CERTIFICATE entries"""
    b = bytearray(base)
    nt = u32(b, 0x3c)
    opt = nt + 24
    dd = opt + (112 if u16(b, opt) == 0x20b else 96)
    while len(b) % 8:
        b.append(0)
    off = len(b)
    blob = b"".join(entries)
    b += blob
    struct.pack_into("<II", b, dd + 32, off, len(blob))
    return bytes(b)


def cert_sequence_specs(assets, cap):
    """Mixed sequences of single-signed ("s": 1 signature) and dual-signed ("d": a nested signature, 2 signatures)
    WIN_CERTIFICATE entries in every order, with counts such that the running total crosses the documented maximum in
    the middle of an entry (cap-1 then a dual one), lands exactly on it, or stays one below."""
    single = [a for a in assets if a[0].endswith("/pe/signed/rsa_sha256.exe")]
    dual = [a for a in assets if os.path.basename(a[0]).startswith("3b8b90159fa9b6048cc5")]
    if not single or not dual:
        return []
    es, ed = win_certificate_entry(single[0][1]), win_certificate_entry(dual[0][1])
    base = single[0][1]
    seqs = set()
    for ns in range(0, cap + 2):
        # ns singles, then duals until the total passes the cap
        nd = (cap - ns) // 2 + 1
        seqs.add("s" * ns + "d" * nd)
        seqs.add("d" * nd + "s" * ns)
        if ns <= 4:
            seqs.add("d" * ((cap - ns) // 2) + "s" * ns + "d")
    for nd in range(0, cap // 2 + 2):
        seqs.add("d" * nd + "s" * max(0, cap + 1 - 2 * nd))
    seqs.add("sd" * (cap // 3 + 2))
    seqs.add("ds" * (cap // 3 + 2))
    seqs.add("s" + "d" * (cap // 2))           # 1 + 2*8 = 17 with cap 16
    seqs.add("d" * (cap // 2))                 # exactly the cap
    S = []
    for q in sorted(seqs):
        if not q:
            continue
        total = sum(1 if c == "s" else 2 for c in q)
        S.append(("pe_certseq_" + "".join("%s%d" % (c, len(list(g))) for c, g in __import__("itertools").groupby(q)),
                  (lambda q=q: pe_with_cert_sequence(base, [es if c == "s" else ed for c in q])), "pe", "signatures", total))
    return S


def truncation_sweep(b, kind, light=False):
    """Systematic truncations: at every structural boundary of the layout (and 1, 2, 4 bytes around it), every 4 bytes
    inside the last 256 bytes of the file, and for dex every 2 bytes inside the map list (the last structure: a file
    cut short there declares more items than are present).  Yields (what, edit)."""
    _, B = layout_of(b, kind)
    cuts = set()
    for x in B:
        for d in ((0, 1) if light else (-4, -2, -1, 0, 1, 2, 4)):
            cuts.add(x + d)
    if not light:
        for x in range(max(0, len(b) - 256), len(b), 4):
            cuts.add(x)
    if kind == "dex":
        mo = u32(b, 0x34)
        n = u32(b, mo) if mo + 4 <= len(b) else 0
        for x in range(mo, min(len(b), mo + 4 + 12 * min(n, 64)) + 1, 2):
            cuts.add(x)
    for c in sorted(x for x in cuts if 0 < x < len(b)):
        yield ("truncated at %d of %d" % (c, len(b)), {"op": "trunc", "len": c})


def pe_with_shared_resources(k1, k2, k3):
    """resource tree whose sub-directories are SHARED: k1 types all pointing at one name directory of k2 entries, all
    pointing at one language directory of k3 entries, all pointing at one data entry: k1*k2*k3 leaves in ~1 KB"""
    d1 = 0
    d2 = 16 + 8 * k1
    d3 = d2 + 16 + 8 * k2
    de = d3 + 16 + 8 * k3
    sec = bytearray(de + 16 + 16)
    for base, k, nxt, sub in ((d1, k1, d2, True), (d2, k2, d3, True), (d3, k3, de, False)):
        struct.pack_into("<HH", sec, base + 12, 0, k)
        for j in range(k):
            struct.pack_into("<II", sec, base + 16 + 8 * j, j + 1, (0x80000000 | nxt) if sub else nxt)
    struct.pack_into("<IIII", sec, de, 0x1000 + de, 4, 0, 0)
    return _pe32(bytes(sec), {2: (0x1000, len(sec))})


I64_EXTREMES = [-(1 << 63), -(1 << 63) + 1, -(1 << 32), -2, -1, 0, 1, 2, (1 << 31) - 1, 1 << 31, (1 << 32) - 1, 1 << 32,
                (1 << 63) - 2, (1 << 63) - 1]


def _lit(z):
    if z == -(1 << 63):
        return "(-9223372036854775807 - 1)"
    return str(z) if z >= 0 else "(%d)" % z


def function_extreme_rules(info, module):
    """For every static function of `module` and every accepted argument list with an integer parameter: one rule per
    extreme value (all integer parameters := v; and the first := v, the others := 0), other parameters get a sample.
    pe additionally: every integer-taking function at the values just below / at / just above each section's virtual
    and raw start and end, taken from the module's own values."""
    sample = {"bytes": '"a"', "regex": "/a/", "float": "0.5", "boolean": "true"}
    rules = []
    for name, args, ret in info["static_functions"].get(module, []):
        for alt in args:
            ints = [i for i, a in enumerate(alt) if a["t"] == "integer"]
            if not ints:
                continue
            for v in I64_EXTREMES:
                for mode in ("all", "first"):
                    if mode == "first" and len(ints) < 2:
                        continue
                    vals = []
                    for i, a in enumerate(alt):
                        if a["t"] == "integer":
                            vals.append(_lit(v if (mode == "all" or i == ints[0]) else 0))
                        else:
                            vals.append(sample[a["t"]])
                    rules.append("defined %s.%s(%s)" % (module, name, ", ".join(vals)))
            if module == "pe":
                for fld in ("virtual_address", "raw_data_offset"):
                    szf = "virtual_size" if fld == "virtual_address" else "raw_data_size"
                    for d in ("- 1", "+ 0", "+ 1", "+ s.%s - 1" % szf, "+ s.%s" % szf, "+ s.%s + 1" % szf):
                        vals = [("s.%s %s" % (fld, d)) if a["t"] == "integer" else sample[a["t"]] for a in alt]
                        rules.append("for any s in pe.sections : (defined %s.%s(%s))" % (module, name, ", ".join(vals)))
    return rules


# ------------------------------------------------------------------------------------------------ Rich header
def pe_with_rich(entries, key=0x11223344):
    """minimal PE32 with a masked Rich header; entries = [(toolid, version, times)]"""
    f = bytearray(b"MZ") + bytes(0x3a)
    hdr = struct.pack("<IIII", 0x536e6144 ^ key, key, key, key)
    for t, v, n in entries:
        hdr += struct.pack("<II", ((t << 16) | v) ^ key, (n & 0xFFFFFFFF) ^ key)
    hdr += b"Rich" + struct.pack("<I", key)
    lfanew = (0x40 + len(hdr) + 7) & ~7
    f += struct.pack("<I", lfanew)
    f += hdr
    f += bytes(lfanew - len(f))
    f += b"PE\0\0" + struct.pack("<HHIIIHH", 0x14c, 0, 0, 0, 0, 96, 0x0102)
    f += struct.pack("<H", 0x10b) + bytes(94) + bytes(64)
    return bytes(f)


def rich_entries(b):
    """[(file offset of the entry, toolid, version, times)] and the key of the Rich header of a PE, or None"""
    lim = min(len(b), u32(b, 0x3c) if len(b) > 0x40 else 0)
    r = b.find(b"Rich", 0x40, max(lim, 0x40))
    if r < 0 or r + 8 > len(b):
        return None
    key = u32(b, r + 4)
    dans = struct.pack("<I", 0x536e6144 ^ key)
    d = b.find(dans, 0x40, r)
    if d < 0:
        return None
    out = []
    for o in range(d + 16, r - 7, 8):
        c, n = u32(b, o) ^ key, u32(b, o + 4) ^ key
        out.append((o, c >> 16, c & 0xFFFF, n))
    return out, key


def rich_rules(pairs, first_tag="a"):
    """rules calling the aggregating functions with arguments that SELECT the data: (toolid, version) pairs present"""
    rules = []
    for t, v in pairs[:6]:
        for cond in ("pe.rich_signature.version(%d) >= 0" % v, "pe.rich_signature.version(%d, %d) >= 0" % (v, t),
                     "pe.rich_signature.toolid(%d) >= 0" % t, "pe.rich_signature.toolid(%d, %d) >= 0" % (t, v)):
            if not any(r["cond"] == cond for r in rules):
                rules.append({"tag": "%s%d" % (first_tag, len(rules)), "imports": ["pe"], "cond": cond})
    return rules


def rich_family(assets):
    """Extreme DATA behind the aggregating functions pe.rich_signature.version / toolid: counts at the numeric limits in
    entries that one query selects together.  Synthetic headers and the Rich headers of the assets (times := extremes,
    entries made duplicates of each other).  Yields (what, asset path or None, base_hex or None, edits, rules)."""
    M = 0xFFFFFFFF
    for name, ents in (("max+1", [(1, 2, M), (1, 2, 1)]), ("max,max,1", [(1, 2, M), (1, 2, M), (1, 2, 1)]),
                       ("2^31 twice", [(1, 2, 1 << 31), (1, 2, 1 << 31)]), ("same version other tool", [(1, 2, M), (3, 2, M)]),
                       ("same tool other version", [(1, 2, M), (1, 5, M)]), ("30 x max", [(1, 2, M)] * 30),
                       ("small", [(1, 2, 3), (1, 2, 4)]), ("max alone", [(7, 9, M)]),
                       ("u16 limits", [(0xFFFF, 0xFFFF, M), (0xFFFF, 0xFFFF, M), (0, 0, M), (0, 0, 2)])):
        pairs = sorted(set((t, v) for t, v, _ in ents))
        yield ("rich synthetic " + name, None, pe_with_rich(ents).hex(), [], rich_rules(pairs))
    for a in assets:
        if a[2] != "pe" or len(a[1]) > 100000:
            continue
        re_ = rich_entries(a[1])
        if not re_ or len(re_[0]) < 2:
            continue
        ents, key = re_
        pairs = [(t, v) for _, t, v, _ in ents]
        for val in (M, M - 1, 1 << 31, (1 << 31) - 1):
            edits = [{"op": "set", "off": o + 4, "hex": enc(val ^ key, 4, False)} for o, _, _, _ in ents]
            yield ("rich times=%#x" % val, a[0], None, edits, rich_rules(pairs))
        # every entry a duplicate of the first one, counts at the limit
        c0 = ((ents[0][1] << 16) | ents[0][2]) ^ key
        edits = []
        for o, _, _, _ in ents:
            edits += [{"op": "set", "off": o, "hex": enc(c0, 4, False)}, {"op": "set", "off": o + 4, "hex": enc(M ^ key, 4, False)}]
        yield ("rich duplicates of entry 0, times=max", a[0], None, edits, rich_rules(pairs[:1]))


def version_table_cuts(b, limit=260):
    """Cuts at EVERY byte inside the version-info string tables (header, wide key, String entries) of a PE that has
    one; each cut alone and with the byte before the cut set to 0.  Yields (what, edits)."""
    ents = version_entries(b)
    tables = [e for e in ents if e[0] == "table"]
    # the resource directory must still lie inside the cut file (SectionTable::get_dir_data slices offset..offset+size):
    # its declared size is shrunk to end at the cut
    nt = u32(b, 0x3c)
    opt = nt + 24
    dd = opt + (112 if u16(b, opt) == 0x20b else 96)
    S = pe_layout(b)[2]
    rva = u32(b, dd + 16)
    roff = None
    for sva, vs, raw, rs in S:
        if sva <= rva < sva + max(vs, rs):
            roff = raw + rva - sva
    n = 0
    for _, off, kl in tables:
        end = min(len(b), off + ((u16(b, off) + 3) & ~3))
        for c in range(off + 1, min(end, off + limit) + 1):
            fit = [{"op": "set", "off": dd + 20, "hex": enc(c - roff, 4, False)}] if roff is not None and c > roff else []
            yield ("cut at %d (table@%#x+%d)" % (c, off, c - off), fit + [{"op": "trunc", "len": c}])
            yield ("cut at %d, last byte 0" % c, fit + [{"op": "set", "off": c - 1, "hex": "00"}, {"op": "trunc", "len": c}])
            n += 2
        if n > 4 * limit:
            break


def macho_fat_nested(inner_offset, thin=True):
    """fat32 whose single arch slot holds another fat header; the inner header's arch points at `inner_offset`
    (relative to the inner slice: 0 = the inner fat header itself) — optionally followed by a thin Mach-O"""
    t = macho32(1, 1) if thin else b""
    inner = bytearray(64) + t
    struct.pack_into(">II", inner, 0, 0xcafebabe, 1)
    struct.pack_into(">IIIII", inner, 8, 7, 3, inner_offset, max(0, len(inner) - inner_offset) if inner_offset else len(inner), 0)
    outer = bytearray(64)
    struct.pack_into(">II", outer, 0, 0xcafebabe, 1)
    struct.pack_into(">IIIII", outer, 8, 7, 3, 64, len(inner), 0)
    return bytes(outer) + bytes(inner)
