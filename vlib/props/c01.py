# C01 — text strings: exact match set under every modifier combination.
import json, os
from .. import core
from ..core import gN, gbool, glist, gbytes, gopt, gpair
from ..runner import Prop

B64_STD = b"ABCDEFGHIJKLMNOPQRSTUVWXYZabcdefghijklmnopqrstuvwxyz0123456789+/"
ALNUM = b"abcdefghijklmnopqrstuvwxyzABCDEFGHIJKLMNOPQRSTUVWXYZ0123456789"


# ---------------------------------------------------------------- shared helpers (also used by C12/C14/C11)
def yara_quote(b):
    """bytes -> YARA quoted text string content"""
    out = []
    for c in b:
        if c in b"abcdefghijklmnopqrstuvwxyzABCDEFGHIJKLMNOPQRSTUVWXYZ0123456789 _-.:;,<>=+*/()[]{}!?@#$%&":
            out.append(chr(c))
        else:
            out.append("\\x%02x" % c)
    return '"' + "".join(out) + '"'


def decl_modifiers(d):
    mods = []
    if d["ascii"]:
        mods.append("ascii")
    if d["wide"]:
        mods.append("wide")
    if d["nocase"]:
        mods.append("nocase")
    if d["fullword"]:
        mods.append("fullword")
    if d.get("private"):
        mods.append("private")
    if d["xor"] is not None:
        lo, hi = d["xor"]
        style = d.get("xor_style", 0)
        if lo == 0 and hi == 255 and style == 0:
            mods.append("xor")
        elif lo == hi and style != 2:
            mods.append("xor(%d)" % lo)
        else:
            mods.append("xor(%d-%d)" % (lo, hi))
    if d["b64"] is not None:
        b = d["b64"]
        alpha = "" if b["alpha"] is None else "(%s)" % yara_quote(bytes.fromhex(b["alpha"]))
        if b["ascii"]:
            mods.append("base64" + alpha)
        if b["wide"]:
            mods.append("base64wide" + alpha)
    return " ".join(mods)


def decl_yara(name, d):
    return "$%s = %s %s" % (name, yara_quote(bytes.fromhex(d["text"])), decl_modifiers(d))


def g_decl(d):
    b = d["b64"]
    gb = "None" if b is None else "(Some {| b_ascii := %s; b_wide := %s; b_alpha := %s |})" % (
        gbool(b["ascii"]), gbool(b["wide"]), gopt(b["alpha"], lambda h: gbytes(bytes.fromhex(h))))
    gx = "None" if d["xor"] is None else "(Some (%d, %d))" % tuple(d["xor"])
    return ("{| t_text := %s; t_ascii := %s; t_wide := %s; t_nocase := %s; t_fullword := %s; t_xor := %s; "
            "t_b64 := %s |}") % (gbytes(bytes.fromhex(d["text"])), gbool(d["ascii"]), gbool(d["wide"]),
                                 gbool(d["nocase"]), gbool(d["fullword"]), gx, gb)


def g_prm(p):
    return "{| p_match_max_length := %d; p_max_nb_matches := %d |}" % (
        p.get("match_max_length", 512), p.get("string_max_nb_matches", 1000))


def g_smatch(m):
    return "{| sm_base := %d; sm_off := %d; sm_len := %d; sm_data := %s; sm_key := %d |}" % (
        m["base"], m["offset"], m["length"], gbytes(bytes.fromhex(m["data"])), m["key"])


def string_matches(out, rule, name):
    """matches of string `name` of rule `rule` in a harness `scan` result (list API); [] when absent"""
    for r in out.get("rules", []):
        if r["name"] == rule:
            for s in r["strings"]:
                if s["name"] == name:
                    return s["matches"]
    return []


# ---------------------------------------------------------------- encodings (generator side only)
def widen(b):
    out = bytearray()
    for c in b:
        out += bytes([c, 0])
    return bytes(out)


def b64_trim(s, off, alphabet):
    """characters of the base64 form of (off padding bytes ++ s) whose 6 bits lie inside s"""
    stream = b"\0" * off + s + b"\0\0"
    bits = "".join("{:08b}".format(c) for c in stream)
    lo, hi = 8 * off, 8 * (off + len(s))
    out = bytearray()
    i = 0
    while 6 * i + 6 <= hi:
        if lo <= 6 * i:
            out.append(alphabet[int(bits[6 * i:6 * i + 6], 2)])
        i += 1
    return bytes(out)


def encodings(d):
    """list of (bytes, wide?) — what the generator splices into inputs"""
    text = bytes.fromhex(d["text"])
    forms = []
    if d["ascii"] or not d["wide"]:
        forms.append((text, False))
    if d["wide"]:
        forms.append((widen(text), True))
    if d["xor"] is not None:
        lo, hi = d["xor"]
        return [(bytes(c ^ k for c in f), w) for f, w in forms for k in range(lo, hi + 1)]
    if d["b64"] is not None:
        b = d["b64"]
        alpha = B64_STD if b["alpha"] is None else bytes.fromhex(b["alpha"])
        out = []
        for f, w in forms:
            for off in range(3):
                e = b64_trim(f, off, alpha)
                if e:
                    if b["ascii"]:
                        out.append((e, False))
                    if b["wide"]:
                        out.append((widen(e), True))
        return out
    return forms


# ---------------------------------------------------------------- generation
UTF8_SEQS = [b"\xc3\xa9", b"\xe2\x82\xac", b"\xd0\xb6", b"\xc3\x9f", b"\xe4\xb8\xad"]


def gen_text(rng):
    if rng.chance(1, 12):
        # valid UTF-8 as a whole, with 2- and 3-byte characters (wide = every BYTE followed by NUL, not UTF-16)
        parts = []
        for _ in range(rng.range(1, 4)):
            parts.append(rng.bytes(rng.range(0, 3), b"cafeCAFE xyz"))
            parts.append(rng.choice(UTF8_SEQS))
        parts.append(rng.bytes(rng.range(0, 2), b"abc"))
        return b"".join(parts)[:40]
    kind = rng.below(12)
    n = rng.choice([1, 2, 3, 4, 4, 5, 5, 6, 7, 8, 10, 13, 17, 24, 40, rng.range(1, 40)])
    if kind == 0:       # repeated byte (overlapping occurrences, uniform atoms)
        return bytes([rng.choice([0x61, 0x41, 0x00, 0x20, 0xcc, 0xff, 0x30, rng.below(256)])]) * n
    if kind == 1:       # period 2 / 3
        p = rng.bytes(rng.range(2, 3), ALNUM)
        return (p * n)[:n]
    if kind == 2:       # all lower
        return rng.bytes(n, b"abcdefghijklmnopqrstuvwxyz")
    if kind == 3:       # all upper
        return rng.bytes(n, b"ABCDEFGHIJKLMNOPQRSTUVWXYZ")
    if kind == 4:       # with NULs
        return rng.bytes(n, b"\x00\x00ab\x00Z9")
    if kind == 5:       # looks wide already
        return widen(rng.bytes(max(1, n // 2), ALNUM))
    if kind == 6:       # arbitrary bytes
        return rng.bytes(n)
    if kind == 7:       # common bytes mixed with letters (atom ranks differ inside the literal)
        return rng.bytes(n, b"\x00\xff\xcc aA1\x00\xff")
    if kind == 8:       # non-alnum borders
        return b"." + rng.bytes(max(0, n - 2), ALNUM) + b"-"
    if kind == 9:       # self-overlapping (border = prefix = suffix)
        p = rng.bytes(rng.range(1, 3), b"abAB")
        return p + rng.bytes(rng.range(0, 3), b"abAB") + p
    return rng.bytes(n, ALNUM + b" ")


def gen_decl(rng):
    text = gen_text(rng)
    shape = rng.below(16)
    d = {"text": text.hex(), "ascii": False, "wide": False, "nocase": False, "fullword": False, "xor": None,
         "b64": None}
    aw = rng.below(5)
    d["ascii"], d["wide"] = [(False, False), (True, False), (False, True), (True, True), (True, True)][aw]
    kind = rng.below(10)
    if kind < 3:        # plain
        d["nocase"] = rng.chance(1, 2)
        d["fullword"] = rng.chance(1, 2)
    elif kind < 7:      # xor
        r = rng.below(9)
        if r == 8:      # 129 .. 255 keys (the literal index of an `ascii wide` string exceeds one byte)
            n_keys = rng.choice([129, 130, 200, 225, 254, 255, rng.range(129, 255)])
            lo = rng.range(0, 256 - n_keys)
            hi = lo + n_keys - 1
            d["text"] = d["text"][:20]          # keep the 2 x 129..255 literals short (evaluation time)
        elif r == 0:
            lo, hi = 0, 255
        elif r == 1:
            lo = hi = rng.below(256)
        elif r == 2:
            lo = rng.range(128, 250)
            hi = rng.range(lo, 255)
        elif r == 3:
            lo, hi = 0, rng.range(0, 40)
        elif r == 4:
            lo, hi = 0x20, 0x20 + rng.range(0, 1)      # flips ASCII case
        elif r == 5:
            lo, hi = rng.range(200, 255), 255
        else:
            lo = rng.below(256)
            hi = rng.range(lo, min(255, lo + rng.range(0, 64)))
        d["xor"] = [lo, hi]
        d["xor_style"] = rng.below(3)
        d["fullword"] = rng.chance(1, 3)
    else:               # base64
        a = rng.below(6)
        if a == 0:
            alpha = None
        elif a == 1:    # permutation
            alpha = bytes(rng.shuffle(list(B64_STD))).hex()
        elif a == 2:    # non-injective
            alpha = (bytes(rng.bytes(1, ALNUM)) * 64).hex()
        elif a == 3:    # two symbols only
            alpha = rng.bytes(64, b"xy").hex()
        elif a == 4:    # contains NUL / high bytes
            alpha = rng.bytes(64).hex()
        else:
            alpha = None
        bk = rng.below(3)
        d["b64"] = {"ascii": bk != 1, "wide": bk != 0, "alpha": alpha}
    return d


def near_miss(rng, e):
    e = bytearray(e)
    k = rng.below(4)
    i = rng.below(len(e))
    if k == 0:
        e[i] ^= 1 << rng.below(8)
    elif k == 1:
        e[i] ^= 0x20
    elif k == 2 and len(e) > 1:
        del e[i]
    else:
        e[i] = rng.below(256)
    return bytes(e)


def delim(rng, wide):
    k = rng.below(7)
    if k == 0:
        return b""
    c = rng.choice([rng.choice(ALNUM), 0, rng.choice(b" .-\xff\x80_")])
    if wide and rng.chance(2, 3):
        return bytes([c, rng.choice([0, 0, 0, 1, 0x61])])
    if k == 1:
        return bytes([rng.choice(ALNUM), c])     # distance-2 context
    return bytes([c])


def gen_input(rng, d, encs, budget=220):
    m = bytearray()
    n_piece = rng.range(1, 9)
    has_occ = has_miss = False
    for _ in range(n_piece):
        k = rng.below(10)
        e, w = rng.choice(encs)
        if len(e) > budget:
            e = e[:budget]
        if k < 4:       # true occurrence with delimiters
            m += delim(rng, w) + e + delim(rng, w)
            has_occ = True
        elif k < 6:     # near miss
            m += delim(rng, w) + near_miss(rng, e) + delim(rng, w)
            has_miss = True
        elif k == 6:    # overlapping: cut the tail of what is there and append (self-overlap)
            cut = rng.range(0, min(len(m), len(e)))
            if cut:
                del m[-cut:]
            m += e
            has_occ = True
        elif k == 7:    # abutting occurrences of two encodings
            e2, _ = rng.choice(encs)
            m += e + e2[:budget]
            has_occ = True
        elif k == 8:    # case variant
            m += bytes((c ^ 0x20) if chr(c).isalpha() and c < 128 and rng.chance(1, 2) else c for c in e)
            has_miss = True
        else:
            m += rng.bytes(rng.range(0, 12))
        if len(m) > budget:
            break
    if rng.chance(1, 6):    # truncated at the end: occurrence cut by the end of input
        e, _ = rng.choice(encs)
        m += e[:max(0, len(e) - rng.range(1, 3))]
        has_miss = True
    return bytes(m[:budget + 90]), has_occ, has_miss


def fullword_contexts():
    """exhaustive table: neighbour classes at distance 1 and 2 on both sides, both variants"""
    cls = [None, 0x41, 0x00, 0x2e]     # absent, alnum, NUL, other
    cases = []
    for wide in (False, True):
        text = b"ab"
        enc = widen(text) if wide else text
        for l2 in cls:
            for l1 in cls:
                if l1 is None and l2 is not None:
                    continue
                for r1 in cls:
                    for r2 in cls:
                        if r1 is None and r2 is not None:
                            continue
                        left = bytes([c for c in (l2, l1) if c is not None])
                        right = bytes([c for c in (r1, r2) if c is not None])
                        d = {"text": text.hex(), "ascii": not wide, "wide": wide, "nocase": False,
                             "fullword": True, "xor": None, "b64": None}
                        cases.append({"decl": d, "mem": (left + enc + right).hex(), "params": {}, "profile": "speed",
                                      "tag": "fullword-table"})
    return cases


# ---------------------------------------------------------------- very long strings (literals beyond 64 KiB)
def gen_long_case(rng):
    """Family checked on the PYTHON side (direct search for the encodings), not through the Coq model: evaluating
    the list-based model on a 70 KB literal / 150 KB input under vm_compute is out of budget.  Shapes: ascii, wide,
    ascii+wide, optionally nocase or a single xor key; no fullword, no base64 (nothing ambiguous: one encoding per
    offset)."""
    n = rng.choice([66000, 70000, 40000, 33000, 65540, 65535])
    text = rng.bytes(n, b"abcdefghijklmnopqrstuvwxyzABCDEFGHIJKLMNOPQRSTUVWXYZ0123456789")
    aw = rng.choice([(True, False), (False, True), (True, True)])
    d = {"text": text.hex(), "ascii": aw[0], "wide": aw[1], "nocase": False, "fullword": False, "xor": None, "b64": None}
    k = rng.below(4)
    if k == 0:
        d["nocase"] = True
    elif k == 1:
        key = rng.range(1, 255)
        d["xor"] = [key, key]
        d["xor_style"] = 1
    encs = encodings(d)
    m = bytearray(rng.bytes(rng.range(0, 9), b" .-"))
    for e, _ in rng.shuffle(encs):
        if d["nocase"] and rng.chance(1, 2):
            e = e.swapcase()
        m += e + rng.bytes(rng.range(1, 5), b" .-\x00")
    e0 = encs[0][0]
    m += e0[:-1] + b"#"           # a near miss: last byte wrong
    return {"decl": d, "mem": bytes(m).hex(), "params": {}, "profile": rng.choice(["speed", "memory"]), "tag": "long"}


def long_expected(case):
    d = case["decl"]
    mem = bytes.fromhex(case["mem"])
    hay = mem.lower() if d["nocase"] else mem
    found = {}
    for e, _ in encodings(d):
        pat = e.lower() if d["nocase"] else e
        i = hay.find(pat)
        while i >= 0:
            found.setdefault(i, len(e))
            i = hay.find(pat, i + 1)
    key = d["xor"][0] if d["xor"] is not None else 0
    cap = case.get("params", {}).get("match_max_length", 512)
    return [{"base": 0, "offset": o, "length": found[o], "key": key, "data": mem[o:o + min(found[o], cap)].hex()}
            for o in sorted(found)]


class C01(Prop):
    ID = "C01"
    LEVEL = "proof"
    COQ_TARGETS = ["theories/Properties/C01.vo"]
    MODEL_TARGETS = ["theories/Model/TextCase.vo"]
    CASE_HEADER = ("From Boreal Require Import Base.Prelude Base.ListX Base.Bytes Model.Literals Model.AcScan "
                   "Spec.TextSpec Model.TextCase.")
    HARNESS_BINS = ("scan",)
    KF = {}
    RULE = ("one text string per case: text classes (repeated byte, periodic, self-overlapping, all lower/upper, NULs, "
            "already-wide, arbitrary bytes, common bytes 00/20/CC/FF, valid UTF-8 with 2- and 3-byte characters) x lengths 1..40 x every legal modifier shape "
            "(ascii/wide/both x nocase x fullword; xor single key / sub-range / 0-255 / upper half / case-flipping "
            "keys / 129-255 keys with occurrences under the highest keys; base64 / base64wide / both with standard, permuted, non-injective, 2-symbol and arbitrary "
            "alphabets), both compiler profiles (DFA / contiguous NFA), match_max_length in {0,1,3,512}. Inputs are "
            "spliced from true encodings of the declaration, near misses (bit flip, case flip, deletion), "
            "overlapping / abutting / truncated occurrences, inputs that are exactly one member long, and delimiter bytes (alnum / NUL / other at distance 1 "
            "and 2, wide pairs). The fullword neighbourhood table (4^4 contexts x ascii/wide) is enumerated "
            "completely. Compared: the full (base, offset, length, key, data) list. A few very "
            "long strings per run (33 000 - 70 000 characters, literals beyond 64 KiB once widened; ascii / wide / both, "
            "nocase or one xor key) are checked on the Python side against a direct search for the encodings, not "
            "through the Coq model (a 70 KB literal is out of vm_compute's budget with the list-based model). Non-trivial: the input holds at "
            "least one true occurrence and one near miss; distinct by (declaration, input).")
    TRUSTED = ["Coq 8.16.1 kernel + vm_compute", "harness/src/scan.rs (generic compile+scan driver)",
               "vlib/props/c01.py (prints the declaration as YARA text with \\xNN escapes for boreal and as a Gallina "
               "term for Coq from the same object)", "translators/consts.py (ATOM_SIZE, byte-rank table, atom_rank "
               "factors, base64 alphabet)", "contract of aho-corasick find_overlapping_iter (Model/Ac.v)"]
    ASSUMPTIONS = ["the text-string parser (escape sequences) is not modelled; the tie covers it",
                   "aho-corasick's overlapping search reports every occurrence of every pattern, ordered by end offset "
                   "then decreasing length (Model/Ac.v)",
                   "fullword is judged on the raw bytes next to the occurrence (also for xor strings)"]

    def translators(self, ctx):
        from translators import consts
        return consts.run(core.REPO, core.VERIF)

    def corpus(self, ctx):
        out = []
        d = os.path.join(core.VERIF, "corpus", "C01")
        if os.path.isdir(d):
            for f in sorted(os.listdir(d)):
                if f.endswith(".json"):
                    out.append(core.load_case_file(os.path.join(d, f))["case"])
        return out

    def gen_case(self, rng):
        d = gen_decl(rng)
        encs = encodings(d)
        if not encs:
            encs = [(bytes.fromhex(d["text"]), False)]
        if d["xor"] is not None and d["wide"] and d["xor"][1] - d["xor"][0] >= 128:
            # occurrences xored with keys from the top of the range, wide ones above all
            encs = encs + encs[-6:] * 8 + encs[len(encs) // 2 - 3:len(encs) // 2] * 3
        mem, has_occ, has_miss = gen_input(rng, d, encs)
        if rng.chance(1, 8):
            # the input is EXACTLY one member long (no byte before or after): the shortest encoding half of the time
            # (literals of different lengths sharing an atom: base64 alignments, ascii + wide, xor)
            shortest = min(len(e) for e, _ in encs)
            cands = [e for e, _ in encs if len(e) == shortest] if rng.chance(1, 2) else [e for e, _ in encs]
            mem, has_occ, has_miss = rng.choice(cands)[:300], True, True
        params = {}
        if rng.chance(1, 4):
            params["match_max_length"] = rng.choice([0, 1, 3, 7, 512])
        return {"decl": d, "mem": mem.hex(), "params": params, "profile": rng.choice(["speed", "memory"]),
                "tag": "occ" if has_occ and has_miss else "plain"}

    def generate(self, ctx, rng, n):
        cases = []
        if ctx.tier == "thorough" or n >= 400:
            cases += fullword_contexts()
        cases += [gen_long_case(rng.fork("long%d" % i)) for i in range(4 if ctx.tier == "quick" else 24)]
        i = 0
        while len(cases) < n:
            cases.append(self.gen_case(rng.fork("c%d" % i)))
            i += 1
        return cases

    def budget(self, tier):
        return 1000 if tier == "quick" else 20000

    def harness_case(self, case):
        p = dict(case.get("params", {}))
        p["compute_full_matches"] = True
        return {"rules": [{"ns": None, "src": "rule r { strings: %s condition: #a >= 0 }" % decl_yara("a", case["decl"])}],
                "profile": case.get("profile", "speed"), "params": p, "input": {"mem": case["mem"]}}

    def execute(self, ctx, cases):
        outs = core.harness_run(ctx.binp, "scan", [self.harness_case(c) for c in cases])
        for c in cases:
            d = c["decl"]
            shape = ("xor" if d["xor"] is not None else "base64" if d["b64"] is not None else "plain")
            ctx.count("shape=%s%s%s%s%s" % (shape, "+ascii" if d["ascii"] else "", "+wide" if d["wide"] else "",
                                          "+nocase" if d["nocase"] else "", "+fullword" if d["fullword"] else ""))
            ctx.count("textlen=%s" % ("<4" if len(d["text"]) < 8 else "4" if len(d["text"]) == 8 else
                                      "5" if len(d["text"]) == 10 else ">5"))
            ctx.count("profile=%s" % c.get("profile", "speed"))
        return outs

    def term(self, ctx, case, out):
        if not isinstance(out, dict) or "rules" not in out:
            return (False, False, 0)      # compile error / panic / crash on a legal declaration
        ms = string_matches(out, "r", "a")
        if case.get("tag") == "long":
            ok = ms == long_expected(case)
            ctx.count("long-literal family (python-side oracle)")
            return (ok, ok, 0)
        ctx.count("matches=%s" % ("0" if not ms else "1" if len(ms) == 1 else "2-5" if len(ms) <= 5 else ">5"))
        return "C01_case %s %s %s %s" % (g_decl(case["decl"]), gbytes(bytes.fromhex(case["mem"])),
                                         g_prm(case.get("params", {})), glist([g_smatch(m) for m in ms]))

    def nontrivial(self, case, out):
        if case.get("tag") == "long":
            return json.dumps([case["decl"]["text"][:64], len(case["decl"]["text"]), case["decl"]["ascii"],
                               case["decl"]["wide"], case["decl"]["nocase"], case["decl"]["xor"]])
        if case.get("tag") in ("occ", "fullword-table", "corpus"):
            return json.dumps([case["decl"], case["mem"]], sort_keys=True)
        return None

    def sample(self, case, out):
        return {"decl": decl_yara("a", case["decl"])[:200], "mem": case["mem"][:120],
                "impl_matches": string_matches(out or {}, "r", "a")[:6] if isinstance(out, dict) else out}

    def extra_search(self, ctx, rng, around):
        cases = []
        # neighbourhood of disagreeing cases: same declaration, fresh inputs; then fresh cases
        for k, c in enumerate(around[:10]):
            encs = encodings(c["decl"]) or [(bytes.fromhex(c["decl"]["text"]), False)]
            for j in range(20):
                mem, _, _ = gen_input(rng.fork("n%d_%d" % (k, j)), c["decl"], encs, budget=60)
                cases.append({"decl": c["decl"], "mem": mem.hex(), "params": c.get("params", {}),
                              "profile": c.get("profile", "speed"), "tag": "search"})
        cases += [self.gen_case(rng.fork("s%d" % i)) for i in range(400)]
        return cases


PROP = C01()
