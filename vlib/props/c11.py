# C11 — fragmented scans are the rebased union of per-region scans.
import json, os, re
from .. import core
from ..core import gN, gbool, glist, gbytes, gopt, gpair
from ..runner import Prop
from .c01 import decl_yara, g_decl, g_smatch, g_prm, string_matches, encodings, gen_decl
from .c14 import g_regions


def probe_rule(i, p, decl):
    t = p["t"]
    if t == "at":
        return "rule p%d { strings: %s condition: $a at %d }" % (i, decl, p["x"])
    if t == "in":
        return "rule p%d { strings: %s condition: $a in (%d..%d) }" % (i, decl, p["lo"], p["hi"])
    if t == "count":
        return 'rule p%d { strings: %s condition: console.log("p%d=", #a) }' % (i, decl, i)
    if t == "countin":
        return 'rule p%d { strings: %s condition: console.log("p%d=", #a in (%d..%d)) }' % (i, decl, i, p["lo"], p["hi"])
    if t == "offset":
        return 'rule p%d { strings: %s condition: console.log("p%d=", @a[%d]) }' % (i, decl, i, p["i"])
    if t == "uint":
        return 'rule p%d { condition: console.log("p%d=", uint%d(%d)) }' % (i, i, 8 * p["n"], p["x"])
    if t == "filesize":
        return "rule p%d { condition: defined filesize }" % i
    if t == "cs":
        return 'rule p%d { condition: console.log("p%d=", hash.checksum32(%d, %d)) }' % (i, i, p["x"], p["n"])
    if t == "ep":
        return 'rule p%d { condition: console.log("p%d=", entrypoint) }' % (i, i)
    raise ValueError(t)


def g_probe(p, ep=None):
    t = p["t"]
    if t == "ep":
        return "PEntry %s" % ("None" if ep is None else "(Some %d)" % ep)
    return {"at": lambda: "PAt %d" % p["x"], "in": lambda: "PIn %d %d" % (p["lo"], p["hi"]),
            "count": lambda: "PCount", "countin": lambda: "PCountIn %d %d" % (p["lo"], p["hi"]), "offset": lambda: "POffset %d" % p["i"],
            "uint": lambda: "PUint %d %d" % (p["n"], p["x"]), "filesize": lambda: "PFilesize",
            "cs": lambda: "PChecksum %d %d" % (p["x"], p["n"])}[t]()


class C11(Prop):
    ID = "C11"
    LEVEL = "proof"
    COQ_TARGETS = ["theories/Properties/C11.vo"]
    MODEL_TARGETS = ["theories/Model/FragCase.vo"]
    CASE_HEADER = ("From Boreal Require Import Base.Prelude Base.ListX Base.Bytes Model.Literals Model.AcScan "
                   "Model.Memory Spec.FragSpec Model.FragCase.")
    HARNESS_BINS = ("scan",)
    KF = {1: "C11-region-order"}
    RULE = ("one string (3/4 a text string of any modifier shape, fully modelled; 1/4 a hex / regex string with a "
            "reverse validator or no atom, compared with the per-region scans only) scanned over layouts of 0-6 regions: gaps, adjacency, empty regions, "
            "needles straddling a boundary, a match at offset 0 right after a region ending with a match, described "
            "length longer or shorter than the fetched bytes, every subset of failing fetches (sampled), ascending and "
            "(for the recorded finding) non-ascending delivery order, the three fragmented scan modes; 1/6 of the cases have every rule decidable without its strings "
            "(`true or $a`, matched-only reporting: the no-scan pass is allowed in fast mode, the match lists must "
            "still be the union since full matches are requested), 1/6 use the default reporting (no full "
            "matches, matched only) with the reading probes (uintXX, ranges, also beyond the last region) placed "
            "BEFORE the rule that needs strings — in fast mode they are evaluated before the regions are scanned; "
            "per case 4-9 "
            "probe rules: `$a at X`, `$a in (lo..hi)`, `#a`, `#a in (lo..hi)` (ranges ending just below a region start), `@a[i]`, uint8/16/32(X) at region edges, `defined "
            "filesize`, `entrypoint` (1/8 of the layouts hold a 96-byte ELF image in one region; expected = entry point "
            "of that region scanned alone + its base, in the three modes), hash.checksum32 over ranges inside one region, across adjacent regions, across a gap, past "
            "the last region. Compared with Scanner::scan_mem on each fetched region (rebased, concatenated) and with "
            "the model. Non-trivial: >= 2 fetched regions and >= 1 match and an address-based probe; distinct by "
            "(string, layout, mode, probes).")
    TRUSTED = ["Coq 8.16.1 kernel + vm_compute", "harness/src/scan.rs (Regions: FragmentedMemory over a region list "
               "with described length / failing fetch)", "vlib/props/c11.py, c01.py, c14.py (case printer)",
               "the console module's log callback (integer probes are read from console.log lines)",
               "contract of aho-corasick find_overlapping_iter (Model/Ac.v)"]
    ASSUMPTIONS = ["conditions other than the probe forms are not modelled here (C04)",
                   "binary_search_by_key is modelled by the algorithm of the installed toolchain (Rust 1.95); theorems "
                   "use only its contract on strictly ascending keys",
                   "regions are disjoint; address-based conditions additionally need ascending delivery order (known "
                   "finding C11-region-order)"]

    def translators(self, ctx):
        from translators import consts
        return consts.run(core.REPO, core.VERIF)

    def corpus(self, ctx):
        out = []
        d = os.path.join(core.VERIF, "corpus", "C11")
        if os.path.isdir(d):
            for f in sorted(os.listdir(d)):
                if f.endswith(".json"):
                    out.append(core.load_case_file(os.path.join(d, f))["case"])
        return out

    # ---------------------------------------------------------------- generation
    OTHER = [("$a = /[0-9]abc/", [b"1abc", b"7abc", b"abc"]), ("$a = { ?? 62 63 64 }", [b"abcd", b"\x00bcd", b"bcd"]),
             ("$a = /x[a-z]{0,3}yy/", [b"xyy", b"xabyy", b"xabcyy", b"yy"]), ("$a = /[a-c]{2}/", [b"ab", b"ca", b"bbb"]),
             ("$a = /ab+c/", [b"abc", b"abbbc", b"ac"]),
             ("$a = /a[^a]*?bcde/", [b"axxbcde", b"abcde", b"a bcde", b"aaxbcde"]),
             ("$a = /[xy]{1,3}?q42/", [b"xq42", b"xyxq42", b"q42"])]
    ELF_SMALLEST = ("7f454c4601010100000000000000000002000300010000005480040834000000000000000000000034002000010000000000"
                    "00000100000000000000008004080000000060000000600000000500000004000000b801000000bb00000000cd80")

    def gen_case(self, rng):
        d = gen_decl(rng)
        if d["xor"] is not None and d["xor"][1] - d["xor"][0] > 5:
            d["xor"] = [d["xor"][0], d["xor"][0] + rng.range(0, 5)]
        if len(d["text"]) > 20:
            d["text"] = d["text"][:20]
        encs = [e[:30] for e, _ in encodings(d)] or [bytes.fromhex(d["text"])]
        raw_decl = None
        if rng.chance(1, 4):      # a hex / regex string: spec-only for the match list
            raw_decl, encs = rng.choice(self.OTHER)
        nreg = rng.choice([0, 1, 2, 2, 3, 3, 4, 5, 6])
        addr = rng.choice([0, 0, 3, 64, 4096, (1 << 32) + 5, (1 << 62) - 40])
        regions = []
        carry = b""
        for i in range(nreg):
            gap = rng.choice([0, 0, 0, 1, 2, 16, 1000])
            addr += gap
            mem = bytearray(carry if gap == 0 else b"")
            carry = b""
            kind = rng.below(8)
            if kind == 0:
                mem = bytearray()                         # empty region
            else:
                for _ in range(rng.range(0, 3)):
                    mem += rng.choice(encs)
                    if rng.chance(1, 2):
                        mem += rng.bytes(rng.range(1, 4), b" .\x00aZ9")
                if rng.chance(1, 3):                      # ends with a match; the next region starts with one
                    mem += rng.choice(encs)
                if rng.chance(1, 3):                      # needle straddling the boundary with the next region
                    e = rng.choice(encs)
                    cut = rng.range(1, max(1, len(e) - 1)) if len(e) > 1 else 1
                    mem += e[:cut]
                    carry = e[cut:]
            mem = bytes(mem[:60])
            r = {"start": addr, "hex": mem.hex(), "fail": rng.chance(1, 6)}
            dk = rng.below(12)
            if dk == 0:
                r["described"] = len(mem) + rng.range(1, 5)      # short fetch
            elif dk == 1 and len(mem) > 1:
                r["described"] = len(mem) - 1                    # more bytes fetched than described
            regions.append(r)
            addr += r.get("described", len(mem))
        if nreg >= 1 and rng.chance(1, 8):
            # one region holds an executable image (boreal/tests/assets/elf/smallest, 96 bytes): `entrypoint`
            k = rng.below(len(regions))
            regions[k] = dict(regions[k], hex=self.ELF_SMALLEST + regions[k]["hex"][:40])
            regions[k].pop("described", None)
            addr = regions[0]["start"]
            for r in regions:                     # keep the layout disjoint and ascending
                r["start"] = max(r["start"], addr)
                addr = r["start"] + max(len(r["hex"]) // 2, r.get("described", 0))
            has_image = True
        else:
            has_image = False
        order = "asc"
        if nreg >= 2 and rng.chance(1, 4 if raw_decl else 12):
            regions = list(reversed(regions)) if rng.chance(1, 2) else rng.shuffle(regions)
            order = "shuffled"
        mode = rng.choice(["legacy", "legacy", "fast", "single_pass"])
        # probes around region edges and match positions
        edges = [0]
        for r in regions:
            n = len(r["hex"]) // 2
            edges += [r["start"], r["start"] + n, r["start"] + max(0, n - 1), r["start"] + r.get("described", n)]
        def addr_near():
            a = rng.choice(edges) + rng.choice([0, 0, 0, 1, 2, -1, -2, -3, 5])
            return max(0, a)
        probes = [{"t": "count"}, {"t": "filesize"}]
        if has_image or rng.chance(1, 20):
            probes.append({"t": "ep"})
        for _ in range(rng.range(0, 2)):
            # `#a in (lo..hi)`: ranges ending just below / at / above a region start (a member may start exactly there)
            lo = addr_near()
            hi = rng.choice([r["start"] for r in regions] or [lo]) + rng.choice([-1, -1, 0, 1, -100, 3])
            if hi >= lo:
                probes.append({"t": "countin", "lo": lo, "hi": hi})
            else:
                probes.append({"t": "countin", "lo": max(0, hi), "hi": lo})
        for _ in range(rng.range(2, 7)):
            k = rng.below(7)
            if k == 0:
                probes.append({"t": "at", "x": addr_near()})
            elif k == 1:
                lo = addr_near()
                probes.append({"t": "in", "lo": lo, "hi": lo + rng.choice([0, 1, 3, 10, 100, 5000])})
            elif k == 2:
                probes.append({"t": "offset", "i": rng.range(1, 4)})
            elif k == 3:
                probes.append({"t": "uint", "n": rng.choice([1, 2, 4]), "x": addr_near()})
            else:
                probes.append({"t": "cs", "x": addr_near(), "n": rng.choice([1, 2, 3, 5, 8, 20, 70, 200])})
        noscan = rng.chance(1, 6)
        if noscan:
            # every rule decidable without its strings (`true or $a`), matched-only reporting: the no-scan pass may
            # answer the verdicts, the match lists must still be the rebased union (compute_full_matches)
            probes = [p for p in probes if p["t"] in ("filesize", "uint", "cs", "ep")]
            mode = rng.choice(["fast", "fast", "legacy", "single_pass"])
        firstpass = (not noscan) and rng.chance(1, 5)
        if firstpass:
            # default reporting (no compute_full_matches, matched only): in fast mode the rules are first evaluated
            # BEFORE the regions are scanned; reads (uintXX, ranges) placed before the rule that needs strings must
            # not disturb the scan that follows
            mode = rng.choice(["fast", "fast", "fast", "legacy", "single_pass"])
            if not any(p["t"] in ("uint", "cs") for p in probes):
                probes.append({"t": "uint", "n": rng.choice([1, 2, 4]), "x": addr_near()})
            if rng.chance(1, 3):        # an address beyond the last region
                last = max([r["start"] + len(r["hex"]) // 2 for r in regions] or [0])
                probes.append({"t": "uint", "n": 1, "x": last + rng.choice([0, 1, 100])})
            # the pass stops at the first rule that needs strings: the reads come first
            probes = [p for p in probes if p["t"] in ("uint", "cs", "filesize")] + \
                     [p for p in probes if p["t"] not in ("uint", "cs", "filesize", "ep")] + \
                     [p for p in probes if p["t"] == "ep"]
        allfirst = has_image and (not noscan) and (not firstpass) and rng.chance(1, 3)
        if allfirst:
            # default reporting and EVERY rule decidable without strings (fast mode: the pass run before the regions
            # are scanned decides everything): `entrypoint` must still be the per-region value.  The match list of
            # `r` is legitimately not computed here and is not compared.
            probes = [p for p in probes if p["t"] in ("filesize", "uint", "cs", "ep")]
            mode = rng.choice(["fast", "fast", "legacy", "single_pass"])
        return {"decl": d, "raw_decl": raw_decl, "regions": regions, "mode": mode, "probes": probes, "order": order,
                "noscan_shape": noscan, "firstpass_shape": firstpass, "allfirst_shape": allfirst,
                "nostrings": allfirst and rng.chance(1, 2),      # the scanner has no string at all
                "profile": rng.choice(["speed", "memory"]), "params": {}}

    def generate(self, ctx, rng, n):
        return [self.gen_case(rng.fork("c%d" % i)) for i in range(n)]

    def budget(self, tier):
        return 900 if tier == "quick" else 20000

    # ---------------------------------------------------------------- execution
    def execute(self, ctx, cases):
        frag, per, index = [], [], []
        for ci, c in enumerate(cases):
            decl = c.get("raw_decl") or decl_yara("a", c["decl"])
            ctx.count("string=%s" % ("text" if not c.get("raw_decl") else "hex/regex"))
            p = dict(c.get("params", {}))
            af_shape = bool(c.get("allfirst_shape"))
            ns_shape = bool(c.get("noscan_shape")) or af_shape
            fp_shape = bool(c.get("firstpass_shape")) or af_shape
            p.update({"compute_full_matches": not fp_shape, "include_not_matched": not (ns_shape or fp_shape),
                      "mode": c["mode"]})
            ctx.count("shape=%s" % ("decidable-without-strings" if ns_shape else
                                    "reads-before-strings" if fp_shape else "needs-strings"))
            rule_r = "rule r { strings: %s condition: %s } " % (decl, "true or $a" if ns_shape else "#a >= 0")
            probes_src = " ".join(probe_rule(i, pr, decl) for i, pr in enumerate(c["probes"]))
            if c.get("nostrings"):
                rule_r = ""
            src = 'import "hash" import "console" ' + (probes_src + " " + rule_r if fp_shape else rule_r + probes_src)
            frag.append({"rules": [{"ns": None, "src": src}], "console": True, "profile": c.get("profile", "speed"),
                         "params": p, "input": {"regions": c["regions"]}})
            for ri, r in enumerate(c["regions"]):
                if not r.get("fail"):
                    per.append({"rules": [{"ns": None, "src": 'import "console" rule r { strings: %s condition: #a >= 0 } '
                                                             'rule ep { condition: console.log("ep=", entrypoint) }' % decl}],
                                "console": True,
                                "profile": c.get("profile", "speed"), "params": {"compute_full_matches": True},
                                "input": {"mem": r["hex"]}})
                    index.append(ci)
            ctx.count("regions=%d" % len(c["regions"]))
            ctx.count("mode=%s" % c["mode"])
            ctx.count("order=%s" % c["order"])
            ctx.count("failing=%d" % sum(1 for r in c["regions"] if r.get("fail")))
            for pr in c["probes"]:
                ctx.count("probe=%s" % pr["t"])
        of = core.harness_run(ctx.binp, "scan", frag)
        op = core.harness_run(ctx.binp, "scan", per)
        outs = [{"frag": o, "per": []} for o in of]
        for ci, o in zip(index, op):
            outs[ci]["per"].append(o)
        return outs

    def term(self, ctx, case, out):
        f = out["frag"]
        if not (isinstance(f, dict) and "rules" in f) or not all(isinstance(o, dict) and "rules" in o for o in out["per"]):
            return (False, False, 0)
        t = string_matches(f, "r", "a")
        logs = {}
        for line in f.get("logs", []):
            m = re.fullmatch(r"p(\d+)=(-?\d+)", line)
            if m:
                logs[int(m.group(1))] = int(m.group(2))
        verdict = {r["name"]: r["matched"] for r in f["rules"]}
        results = []
        for i, p in enumerate(case["probes"]):
            if p["t"] in ("at", "in", "filesize"):
                results.append("RBool %s" % gbool(bool(verdict.get("p%d" % i))))
            else:
                v = logs.get(i)
                results.append("RInt %s" % ("None" if v is None or v < 0 else "(Some %d)" % v))
        per = glist(glist(g_smatch(m) for m in string_matches(o, "r", "a")) for o in out["per"])
        # entry point by composition: the first listed fetched region that is an image, plus its base
        ep = None
        fetched = [r for r in case["regions"] if not r.get("fail")]
        for r, o in zip(fetched, out["per"]):
            for line in o.get("logs", []):
                mm = re.fullmatch(r"ep=(\d+)", line)
                if mm and ep is None:
                    ep = r["start"] + int(mm.group(1))
        if case.get("allfirst_shape"):
            nfetched = len(out["per"])
            return "C11_case_other %s %s %s %s %s %s %s" % (
                g_prm(case.get("params", {})), gbool(case["mode"] == "legacy"), g_regions(case["regions"]),
                glist(["[]"] * nfetched), "[]", glist(g_probe(p, ep) for p in case["probes"]), glist(results))
        if case.get("raw_decl"):
            return "C11_case_other %s %s %s %s %s %s %s" % (
                g_prm(case.get("params", {})), gbool(case["mode"] == "legacy"),
                g_regions(case["regions"]), per, glist(g_smatch(m) for m in t),
                glist(g_probe(p, ep) for p in case["probes"]), glist(results))
        return "C11_case %s %s %s %s %s %s %s %s" % (
            g_decl(case["decl"]), g_prm(case.get("params", {})), gbool(case["mode"] == "legacy"),
            g_regions(case["regions"]), per, glist(g_smatch(m) for m in t),
            glist(g_probe(p, ep) for p in case["probes"]), glist(results))

    def nontrivial(self, case, out):
        try:
            t = string_matches(out["frag"], "r", "a")
        except Exception:
            return None
        fetched = [r for r in case["regions"] if not r.get("fail")]
        if len(fetched) >= 2 and t and any(p["t"] in ("at", "in", "uint", "cs") for p in case["probes"]):
            return json.dumps([case["decl"], case["regions"], case["mode"], case["probes"]], sort_keys=True)
        return None

    def sample(self, case, out):
        f = out.get("frag")
        return {"decl": case.get("raw_decl") or decl_yara("a", case["decl"]), "regions": case["regions"], "mode": case["mode"],
                "probes": case["probes"],
                "matches": string_matches(f, "r", "a")[:6] if isinstance(f, dict) and "rules" in f else f,
                "logs": f.get("logs") if isinstance(f, dict) else None}


PROP = C11()
