# C05 — rule-set semantics: global, private, namespaces, rule references.
import json, os
from .. import core, cond, ruleset
from ..core import gN, gZ, gbool, glist, gbytes, gopt, gpair
from ..runner import Prop
from .c04 import tup


def g_cfg(full, nm, cb, ev_match=True, ev_nomatch=False, direct=True, frag_noscan=False, ev_import=False,
          ev_limit=False):
    return ("{| c_full := %s; c_nm := %s; c_cb := %s; c_ev_match := %s; c_ev_nomatch := %s; c_ev_import := %s; "
            "c_ev_limit := %s; c_direct := %s; c_frag_noscan := %s |}"
            % tuple(gbool(x) for x in (full, nm, cb, ev_match, ev_nomatch, ev_import, ev_limit, direct, frag_noscan)))


def g_outcome(rs, out):
    """impl JSON -> Gallina outcome (mk_outcome err rules events checks)."""
    if not isinstance(out, dict):
        return None
    if "panic" in out or "crash" in out:
        return "(mk_outcome (Some EPanic) [] [] 0)"
    if "compile_error" in out:
        return None
    err = {None: "None", "Timeout": "(Some ETimeout)", "CallbackAbort": "(Some EAbort)"}.get(out.get("error"))
    if err is None:
        return None
    rules = []
    for r in out.get("rules", []):
        rules.append(gpair(gN(ruleset.rule_key(rs, r["ns"], r["name"])), gbool(r["matched"])))
    evs = []
    for e in out.get("events", []):
        if e["ev"] == "match":
            evs.append("EvMatch %d" % ruleset.rule_key(rs, e["rule"]["ns"], e["rule"]["name"]))
        elif e["ev"] == "nomatch":
            evs.append("EvNoMatch %d" % ruleset.rule_key(rs, e["rule"]["ns"], e["rule"]["name"]))
        elif e["ev"] == "import":
            evs.append("EvImport %d" % ruleset.MODULE_IDS.get(e["module"], 99))
        elif e["ev"] == "limit":
            evs.append("EvLimit %d" % (ruleset.rule_key(rs, e["ns"], e["rule"]) * 100 + e["index"]))
    return "(mk_outcome %s %s %s %d)" % (err, glist(rules), glist(evs), out.get("checks", 0) or 0)


class C05(Prop):
    ID = "C05"
    LEVEL = "proof"
    COQ_TARGETS = ["theories/Properties/C05.vo"]
    MODEL_TARGETS = ["theories/Model/ScannerCase.vo"]
    CASE_HEADER = ("From Boreal Require Import Base.Prelude Base.Res Model.Eval Spec.CondSem Model.EvalCost Model.Scanner "
                   "Spec.RuleSetSpec Model.ScannerCase.")
    HARNESS_BINS = ("scan",)
    KF = {1: "C05-global-refs-ordinary"}
    RULE = ("random rule sets: 1-3 namespaces, 1-6 rules, each global / private / both / plain, 0-3 strings, conditions "
            "built from constants, string presence, references to earlier ordinary rules, to global rules, `N of "
            "(prefix*)` rule sets (any/all/none/count/percentage) and small quantified conditions; every case is run "
            "with and without include_not_matched, list and callback API (with RULE_NO_MATCH events), with and without "
            "the no-scan pass.  Compared: error, returned rules with their matched flag in order, callback events in "
            "order.  Non-trivial: at least one global or private rule or a rule reference; distinct by (rule set, "
            "input, configuration).")
    TRUSTED = ["Coq 8.16.1 kernel + vm_compute", "harness/src/scan.rs", "vlib/ruleset.py + vlib/cond.py (one object "
               "printed to YARA text and to Gallina)", "string matches of plain text strings computed by bytes.find"]
    ASSUMPTIONS = ["string matching itself is C01-C03's business: matches are an input of the scanner model",
                   "module imports / import events are not modelled"]

    def budget(self, tier):
        return 500 if tier == "quick" else 8000

    def gen_case(self, rng, kf=False):
        nc = rng.chance(1, 5)
        rs = ruleset.gen_ruleset(rng, global_refs_ordinary=kf, nocase=50 if nc else 0)
        if rng.chance(1, 4):
            ruleset.add_compile_noise(rng.fork("noise"), rs)
        mem = rng.choice(ruleset.MIXED_MEMS if nc else ruleset.MEMS)
        return {"rs": rs, "mem": mem.hex(), "full": rng.chance(1, 2), "nm": rng.chance(1, 2), "cb": rng.chance(1, 2),
                "ev_nomatch": rng.chance(1, 2)}

    def generate(self, ctx, rng, n):
        out = [self.gen_case(rng.fork("c%d" % i)) for i in range(n)]
        out += [self.gen_case(rng.fork("k%d" % i), kf=True) for i in range(max(4, n // 25))]
        return out

    def corpus(self, ctx):
        out = []
        d = os.path.join(core.VERIF, "corpus", self.ID)
        if os.path.isdir(d):
            for f in sorted(os.listdir(d)):
                if f.endswith(".json"):
                    out.append(core.load_case_file(os.path.join(d, f))["case"])
        return out

    def harness_case(self, case):
        ev = 1 | (2 if case["ev_nomatch"] else 0)
        return {"rules": ruleset.harness_rules(case["rs"]), "csymbols": case["rs"].get("csymbols", []),
                "params": {"compute_full_matches": case["full"], "include_not_matched": case["nm"], "events": ev},
                "api": "callback" if case["cb"] else "list", "input": {"mem": case["mem"]}}

    def execute(self, ctx, cases):
        return core.harness_run(ctx.binp, "scan", [self.harness_case(c) for c in cases])

    def term(self, ctx, case, out):
        rs = case["rs"]
        if isinstance(out, dict) and "compile_error" in out:
            ctx.count("compile_error")
            ctx.notes.append("compile error: " + out["compile_error"][:200]) if len(ctx.notes) < 8 else None
            return (False, False, 0)
        o = g_outcome(rs, out)
        if o is None:
            return (False, False, 0)
        mem = bytes.fromhex(case["mem"])
        ctx.count("nm=%s cb=%s full=%s" % (case["nm"], case["cb"], case["full"]))
        ctx.count("globals=%d" % sum(1 for r in rs["rules"] if r["global"]))
        if isinstance(out, dict) and "panic" in out:
            ctx.count("panic")
        cfg = g_cfg(case["full"], case["nm"], case["cb"], True, case["ev_nomatch"])
        if not self.details_ok(ctx, case, out, mem):
            return (False, False, 0)
        return "C05_case %s %s %s %s" % (cfg, ruleset.g_scanner(rs), ruleset.g_inputs(rs, mem), o)

    @staticmethod
    def details_ok(ctx, case, out, mem):
        """Variable alignment, observed: every reported rule lists only its own strings, and every reported match
        is an occurrence of that very string (all of them when full matches are computed)."""
        rs = case["rs"]
        reported = list(out.get("rules", [])) + [e["rule"] for e in out.get("events", []) if e.get("ev") in ("match", "nomatch")]
        for r in reported:
            decl = next((x for x in rs["rules"] if "ns%d" % x["ns"] == r["ns"] and x["name"] == r["name"]), None)
            if decl is None:
                ctx.notes.append("reported rule %s:%s is not declared" % (r["ns"], r["name"]))
                return False
            own = {n: bytes(p) for n, p in decl["strings"]}
            def same(n, data, lit):
                return data.lower() == lit.lower() if ruleset.is_nocase(n) else data == lit
            for s in r["strings"]:
                if s["name"] not in own:
                    ctx.notes.append("rule %s reports string $%s which it does not declare" % (r["name"], s["name"]))
                    return False
                exp = set(ruleset.occurrences(s["name"], own[s["name"]], mem))
                got = [m["offset"] for m in s["matches"]]
                if not set(got) <= exp or (case["full"] and set(got) != exp) or len(got) != len(set(got)):
                    ctx.notes.append("rule %s string $%s: reported offsets %s, occurrences %s" % (r["name"], s["name"], got, sorted(exp)))
                    return False
                if any(m["length"] != len(own[s["name"]])
                       or not same(s["name"], bytes.fromhex(m["data"]), own[s["name"]][:len(bytes.fromhex(m["data"]))])
                       for m in s["matches"]):
                    ctx.notes.append("rule %s string $%s: a match record is not an occurrence of that string" % (r["name"], s["name"]))
                    return False
            if case["full"] and not r.get("_skip"):
                missing = [n for n, p in own.items() if ruleset.occurrences(n, p, mem) and n not in [s["name"] for s in r["strings"]]]
                if missing:
                    ctx.notes.append("rule %s does not list its matching strings %s" % (r["name"], missing))
                    return False
        return True

    def nontrivial(self, case, out):
        rs = case["rs"]["rules"]
        s = json.dumps([r["cond"] for r in rs])
        if any(r["global"] or r["private"] for r in rs) or '"rule' in s or '"forrules"' in s:
            return json.dumps(case, sort_keys=True)
        return None

    def sample(self, case, out):
        return {"rules": [(x["ns"], x["src"]) for x in ruleset.harness_rules(case["rs"])], "mem": case["mem"],
                "config": {k: case[k] for k in ("full", "nm", "cb", "ev_nomatch")},
                "impl": {k: v for k, v in (out or {}).items() if k in ("error", "panic", "compile_error")}
                | {"rules": [(r["ns"], r["name"], r["matched"]) for r in (out or {}).get("rules", [])],
                   "events": [(e["ev"], e.get("rule", {}).get("name")) for e in (out or {}).get("events", [])]}}


PROP = C05()
