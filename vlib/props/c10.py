# C10 — a saved and reloaded scanner behaves exactly like the original.
import base64, hashlib, json, os, sys
from .. import core
from ..core import gN, gbool, glist, gbytes, gpair
from ..runner import Prop

sys.path.insert(0, os.path.join(core.VERIF, "translators"))
import wire_schema  # noqa: E402

ASSETS = [("pe", "boreal/tests/assets/pe/long_dll_name.exe"), ("elf", "boreal/tests/assets/elf/smallest"),
          ("macho", "boreal/tests/assets/libyara/data/tiny-macho"), ("pe2", "boreal/tests/assets/pe/resources_only.dll")]

# (source, example of a matching text)
REGEXES = [
    (r"a.+foo.b", b"aafoobb"), (r"a.*?foo.b", b"aXfooYb"), (r"ab[0-9]{2,4}cd", b"ab123cd"), (r"fo+bar", b"fooobar"),
    (r"(abc|xyz)[0-9]+def", b"xyz42def"), (r"\bhello\b", b" hello "), (r"[a-f]{3}[0-9]", b"abc1"),
    (r"x.{2,6}?yz", b"x123yz"), (r"^start.*end$", b"start mid end"), (r"hel{2}o w.rld", b"hello world"),
    (r"ca[rt]s? are", b"cats are"), (r"\x41\x42.\x44", b"ABCD"), (r"foo.{1,3}bar.+baz", b"foo12barXXbaz"),
    (r".+tail", b"sometail"), (r"[^x]oo+k\d", b"look3"), (r"\w+@\w+\.com", b"bob@site.com"),
    (r"key=.*;val", b"key=1;2;val"), (r"\bfoo\w*bar\b", b" fooxbar "), (r"ab.c", b"ab\ncabxc"),
    (r"(one|two|three) [a-z]+s\b", b"two cats "), (r"q[0-9a-f]{4,}z", b"q12abz"), (r"mid.{0,4}dle.*?end", b"mid12dle xx end"),
    (r"\Bnner\B", b"inners"), (r"a+b+c+", b"aabbbc"), (r"zz(top|bottom)?yy.z", b"zztopyy1z"),
    # no literal to extract: raw matchers
    (r"[a-z]+\d{2}", b"abc42"), (r"\d\d:\d\d", b"12:34"), (r"[A-Z][a-z]+ [A-Z][a-z]+", b"Hello World"),
    (r"\b[a-c]{2,3}\b", b" abc "), (r"[xyz]{2}.[xyz]{2}", b"xy-zx"), (r"(a|b)(c|d)+[ef]", b"acdde"),
    (r"[a-f0-9]{8}", b"deadbeef"), (r"\w\W\w", b"a-b"), (r"[Hh]el+o", b"hello HELLO"),
]
WORDS = ["hello", "World", "abcdef", "MZheader", "needle", "x1y2z3", "Passw0rd", "kernel32", "A\\x00\\x00\\x00x", "ab",
         "dummyTEXT", "This program", "a\\x00", "quux", "http://", "\\x01\\x02\\x03\\x04"]
TEXT_MODS = [[], ["ascii"], ["wide"], ["ascii", "wide"], ["nocase"], ["wide", "nocase"], ["ascii", "wide", "nocase"],
             ["fullword"], ["wide", "fullword"], ["nocase", "fullword"], ["ascii", "wide", "nocase", "fullword"],
             ["xor"], ["xor(1-3)"], ["xor(0x10-0x20)", "wide"], ["xor", "ascii", "wide"], ["xor", "fullword"],
             ["base64"], ["base64wide"], ["base64", "base64wide"], ["base64", "wide"], ["private"], ["private", "wide", "nocase"],
             ["base64(\"!@#$%^&*(){}[].,|ABCDEFGHIJ\\x09LMNOPQRSTUVWXYZabcdefghijklmnopqrstu\")"]]
REGEX_MODS = [[], ["nocase"], ["wide"], ["ascii", "wide"], ["fullword"], ["wide", "nocase"], ["wide", "fullword"],
              ["ascii", "wide", "nocase", "fullword"], ["private"]]

BUILTIN_MODULES = ["time", "math", "string", "hash", "pe", "elf", "macho", "dotnet", "dex"]
PROBES = {"time": 'import "time"\nrule probe_time { condition: time.now() == 1000 }',
          "string": 'import "string"\nrule probe_string { condition: string.length("abc") == 7 and string.to_int("12") == 99 }',
          "vmod": 'import "vmod"\nrule probe_vmod { condition: vmod.answer() == 42 and vmod.sub.twice(4) == 8 }'}


def unescape(w):
    out, i = bytearray(), 0
    while i < len(w):
        if w[i] == "\\" and w[i + 1] == "x":
            out.append(int(w[i + 2:i + 4], 16))
            i += 4
        else:
            out.append(ord(w[i]))
            i += 1
    return bytes(out)


def wide(b):
    return b"".join(bytes([x, 0]) for x in b)


def py_decode(env, sch, b, pos, hits):
    """decode under translated schemas: which enum variants occur in the real byte streams, and a pre-check that
    the stream parses under the tables translated on this run (only then is it handed to the Coq decoder)"""
    if pos > len(b):
        raise ValueError("past the end")
    k = sch[0]
    if k == "Ref":
        if env[sch[1]][0] == "Enum":
            return py_decode_enum(env, sch[1], env[sch[1]], b, pos, hits)
        return py_decode(env, env[sch[1]], b, pos, hits)
    if k == "U8":
        return pos + 1
    if k in ("U32", "NZ32"):
        return pos + 4
    if k in ("U64", "I64", "F64"):
        return pos + 8
    if k == "Bool":
        return pos + 1
    if k in ("Str", "Bytes"):
        n = int.from_bytes(b[pos:pos + 4], "little")
        if pos + 4 + n > len(b):
            raise ValueError("length past the end")
        return pos + 4 + n
    if k == "Seq":
        n = int.from_bytes(b[pos:pos + 4], "little")
        if n > len(b):
            raise ValueError("count past the end")
        pos += 4
        for _ in range(n):
            pos = py_decode(env, sch[1], b, pos, hits)
        return pos
    if k == "Map":
        n = int.from_bytes(b[pos:pos + 4], "little")
        if n > len(b):
            raise ValueError("count past the end")
        pos += 4
        for _ in range(n):
            pos = py_decode(env, sch[1], b, pos, hits)
            pos = py_decode(env, sch[2], b, pos, hits)
        return pos
    if k == "Opt":
        if pos >= len(b) or b[pos] > 1:
            raise ValueError("option tag")
        t = b[pos]
        hits["Option." + ("Some" if t else "None")] = hits.get("Option." + ("Some" if t else "None"), 0) + 1
        return py_decode(env, sch[1], b, pos + 1, hits) if t else pos + 1
    if k == "Struct":
        for _, t in sch[1]:
            pos = py_decode(env, t, b, pos, hits)
        return pos
    if k == "Enum":
        return py_decode_enum(env, "?", sch, b, pos, hits)
    raise ValueError(k)


def py_decode_enum(env, name, sch, b, pos, hits):
    if pos >= len(b):
        raise ValueError("past the end")
    tag = b[pos]
    for c, t, body in sch[1]:
        if t == tag:
            key = "wire %s::%s" % (name, c)
            hits[key] = hits.get(key, 0) + 1
            return py_decode(env, body, b, pos + 1, hits)
    raise ValueError("tag %d of %s" % (tag, name))


class Gen:
    def __init__(self, rng):
        self.r = rng

    # ------------------------------------------------------------ strings
    def hex_string(self):
        r = self.r
        toks, inst = [], bytearray()
        n = r.range(3, 7)
        for i in range(n):
            k = r.below(10)
            if k < 5 or i in (0, n - 1):
                b = r.below(256)
                toks.append("%02X" % b)
                inst.append(b)
            elif k == 5:
                b = r.below(256)
                toks.append(r.choice(["%X?" % (b >> 4), "?%X" % (b & 15), "??"]))
                inst.append(b)
            elif k == 6 and r.chance(1, 2):
                b = r.below(256)
                toks.append(r.choice(["~%X?" % (b >> 4), "~?%X" % (b & 15)]))
                inst.append(b ^ 0xFF)
            elif k == 6:
                b = r.below(256)
                toks.append("~%02X" % b)
                inst.append((b + 1 + r.below(254)) % 256 if True else b)
                if inst[-1] == b:
                    inst[-1] = (b + 1) % 256
            elif k == 7:
                lo = r.range(0, 3)
                form = r.below(3)
                if form == 0:
                    lo = max(lo, 1)
                    toks.append("[%d]" % lo)
                    fill = lo
                elif form == 1:
                    hi = lo + r.range(1, 4)
                    toks.append("[%d-%d]" % (lo, hi))
                    fill = r.range(lo, hi)
                else:
                    toks.append("[%d-]" % lo)
                    fill = lo + r.range(0, 5)
                inst += r.bytes(fill)
            else:
                alts = []
                for _ in range(r.range(2, 3)):
                    alts.append(bytes(r.below(256) for _ in range(r.range(1, 3))))
                toks.append("( " + " | ".join(" ".join("%02X" % x for x in a) for a in alts) + " )")
                inst += r.choice(alts)
        return "{ " + " ".join(toks) + " }", bytes(inst)

    def string_decl(self, name):
        """returns (declaration text, list of byte strings that should match it)"""
        r = self.r
        k = r.below(10)
        if k < 4:
            w = r.choice(WORDS)
            mods = list(r.choice(TEXT_MODS))
            raw = unescape(w)
            if any(m.startswith("base64") for m in mods) and len(raw) < 3:
                mods = []
            occ = []
            if "wide" in mods and "ascii" not in mods:
                occ.append(wide(raw))
            elif "wide" in mods:
                occ += [raw, wide(raw)]
            else:
                occ.append(raw)
            if "nocase" in mods:
                occ.append(raw.swapcase())
            xm = [m for m in mods if m.startswith("xor")]
            if xm:
                key = 0x11 if xm[0] == "xor" else (2 if "1-3" in xm[0] else 0x15)
                occ = [bytes(b ^ key for b in o) for o in occ] + occ[:1]
            if any(m.startswith("base64") for m in mods) and "(" not in "".join(mods):
                e = []
                for pad in (b"", b"a", b"ab"):
                    enc = base64.b64encode(pad + raw + b"zz")
                    e.append(enc)
                    if "base64wide" in mods:
                        e.append(wide(enc))
                occ = e
            if "fullword" in mods:
                occ = [b" " + o + b" " for o in occ] + [b"x" + occ[0] + b"y"]
            self.kinds.add("text:" + ",".join(sorted(m.split("(")[0] for m in mods)))
            return '$%s = "%s" %s' % (name, w, " ".join(mods)), occ
        if k < 7:
            src, ex = r.choice(REGEXES)
            mods = list(r.choice(REGEX_MODS))
            flags = r.choice(["", "", "i", "s", "is"])
            forms = [ex]
            if "nocase" in mods or "i" in flags:
                forms.append(ex.upper())
            if "s" in flags and len(ex) > 2:
                forms.append(ex[:len(ex) // 2] + b"\n" + ex[len(ex) // 2 + 1:])
            occ = []
            for fm in forms:
                padded = b" " + fm + b" "
                if "wide" not in mods or "ascii" in mods:
                    occ.append(padded if ("fullword" in mods or "\\b" in src) else fm)
                if "wide" in mods:
                    occ.append(wide(padded))
            self.kinds.add("regex:" + ",".join(sorted(mods)) + "/" + flags)
            return "$%s = /%s/%s %s" % (name, src, flags, " ".join(mods)), occ
        h, inst = self.hex_string()
        priv = " private" if r.chance(1, 8) else ""
        self.kinds.add("hex" + priv)
        return "$%s = %s%s" % (name, h, priv), [inst]

    # ------------------------------------------------------------ conditions
    def string_atom(self, n):
        r = self.r
        return r.choice(["$%s" % n, "$%s" % n, "#%s > 0" % n, "#%s == %d" % (n, r.range(0, 3)), "$%s at %d" % (n, r.range(0, 12)),
                         "$%s in (%d..%d)" % (n, r.range(0, 5), r.range(5, 120)), "@%s[1] < %d" % (n, r.range(1, 60)),
                         "!%s[1] >= %d" % (n, r.range(1, 8)), "#%s in (0..%d) >= 1" % (n, r.range(4, 90)),
                         "@%s[%d] > 0" % (n, r.range(1, 3)), "!%s > 2" % n, "@%s >= 0" % n,
                         "$%s in (filesize - %d..filesize)" % (n, r.range(5, 60))])

    def plain_atom(self, input_a):
        r = self.r
        md5 = hashlib.md5(input_a).hexdigest()
        sha1 = hashlib.sha1(input_a[:5]).hexdigest()
        opts = [
            ("filesize > %d" % r.range(0, 60), None), ("filesize == %d" % len(input_a), None), ("filesize < 10KB", None),
            ("uint8(0) == 0x%x" % (input_a[0] if input_a else 0), None), ("uint16be(1) < 30000", None), ("int32(0) != 5", None),
            ("uint32be(2) >= 0", None), ("int8(3) < 0 or int16(3) > 0 or int16be(4) != 1 or uint16(0) > 1 or uint32(1) > 2 or int32be(0) != 7", None),
            ("%d + 3 * 2 == %d" % (r.range(0, 9), r.range(6, 15)), None), ("(7 \\ 2) % 3 == 0", None), ("(0xF0 & 0x3C) | 1 == 0x31", None),
            ("(~0 ^ 5) < 0", None), ("1 << 4 == 16 and 256 >> 4 == 16", None), ("-filesize < 0", None), ("1.5 + 2 > 3.0", None),
            ("2.5 * 2 == 5.0 or 7.0 \\ 2 > 3", None), ('"abc" contains "b"', None), ('"ABC" icontains "b" and "abc" startswith "ab"', None),
            ('"abc" istartswith "AB" or "abc" endswith "bc" or "abc" iendswith "BC"', None), ('"abc" iequals "ABC"', None),
            ('"abcd" matches /a.c/', None), ('"ABx" matches /ab./i and not ("a\\nb" matches /a.b/)', None),
            ('"a\\nb" matches /a.b/s', None), ("defined uint32(%d)" % r.range(0, 300), None), ("not defined uint8(100000)", None),
            ("true", None), ("false or filesize >= 0", None), ("not false", None), ("filesize != 7 and 3 <= 4 and 4 >= 3 and 2 < 5", None),
            ('hash.md5(0, filesize) == "%s"' % md5, "hash"), ("hash.crc32(0, filesize) != 1", "hash"),
            ('hash.sha1(0, 5) == "%s"' % sha1, "hash"), ('hash.sha256(0, 3) == hash.sha256(0, 3)', "hash"),
            ('hash.checksum32(0, filesize) >= 0', "hash"), ('hash.md5("abc") == "900150983cd24fb0d6963f7d28e17f72"', "hash"),
            ("math.entropy(0, filesize) >= 0.0", "math"), ("math.min(3, 7) == 3 and math.max(3, 7) == 7", "math"),
            ("math.in_range(2.0, 1.0, 3.0)", "math"), ("math.mean(0, filesize) < 300.0", "math"), ("math.to_number(true) == 1", "math"),
            ("math.abs(-3) == 3", "math"), ("math.count(0x41, 0, filesize) >= 0", "math"), ("math.percentage(0x41) <= 1.0", "math"),
            ("math.mode(0, filesize) >= 0", "math"), ('math.entropy("aab") > 0.5', "math"), ("math.deviation(0, filesize, 64.0) >= 0.0", "math"),
            ("math.serial_correlation(0, filesize) < 2.0", "math"), ("math.monte_carlo_pi(0, filesize) >= 0.0", "math"),
            ('string.to_int("12") == 12', "string"), ('string.length("abc") == 3', "string"), ('string.to_int("ff", 16) == 255', "string"),
            ("time.now() > 0", "time"), ("pe.is_pe", "pe"), ("not pe.is_dll()", "pe"), ("pe.number_of_sections >= 0", "pe"),
            ("defined pe.entry_point", "pe"), ('pe.imphash() != "x"', "pe"), ('pe.section_index(".text") >= 0', "pe"),
            ("pe.machine == pe.MACHINE_I386 or pe.machine == pe.MACHINE_AMD64", "pe"), ('pe.imports("kernel32.dll") >= 0', "pe"),
            ('for any s in pe.sections : (s.name == ".text" or s.raw_data_size >= 0)', "pe"),
            ('for any k, v in pe.version_info : (k == "x" or v contains "a")', "pe"), ("pe.is_32bit() or pe.is_64bit()", "pe"),
            ('pe.exports("x") or pe.number_of_exports >= 0', "pe"), ("pe.rich_signature.offset >= 0 or true", "pe"),
            ("pe.sections[0].virtual_address >= 0", "pe"), ("pe.exports(/ab/) or not pe.exports(/ab/i)", "pe"),
            ('pe.imports(/kernel32/i, /.*/) >= 0', "pe"), ('pe.imports(pe.IMPORT_ANY, "kernel32.dll", "x") or true', "pe"), ('pe.calculate_checksum() >= 0', "pe"),
            ("elf.type == elf.ET_EXEC or elf.type == elf.ET_DYN", "elf"), ("elf.machine == elf.EM_X86_64 or elf.number_of_sections >= 0", "elf"),
            ("for any seg in elf.segments : (seg.type == elf.PT_LOAD)", "elf"), ("defined elf.entry_point", "elf"),
            ("macho.MH_MAGIC == 0xfeedface", "macho"), ("macho.cputype == macho.CPU_TYPE_X86 or defined macho.filetype", "macho"),
            ("macho.number_of_segments >= 0", "macho"), ("dotnet.is_dotnet", "dotnet"), ("not defined dotnet.version", "dotnet"),
            ("for all i in (0..2) : (uint8(i) >= 0)", None), ("for any i in (1, 2, filesize) : (i == filesize)", None),
            ("for any i in (0..3) : (for any j in (i..4) : (uint8(i) == uint8(j) and i != j))", None),
            ("for 2 i in (0..5) : (i % 2 == 0)", None), ("for any i in (1, 2, 3, 4) : (i > 2)", None),
            ("for none i in (0..4) : (uint8(i) == 0x100)", None),
            ('for any s in pe.sections : (s.raw_data_size >= 0 and for any i in (0..1) : (s.virtual_address + i >= 0))', "pe"),
            ("for all k, v in pe.version_info : (for any i in (0..1) : (k != \"\" and i >= 0))", "pe"),
            ("entrypoint >= 0 or true", None),
        ]
        return r.choice(opts)

    def ext_atom(self, sym):
        n = sym["name"]
        if "int" in sym:
            return self.r.choice(["%s > 3" % n, "%s == %d" % (n, sym["int"]), "%s + 1 < 100" % n, "uint8(%s) >= 0" % n])
        if "bool" in sym:
            return self.r.choice([n, "not %s" % n])
        if "float" in sym:
            return self.r.choice(["%s < 1.5" % n, "%s >= %s" % (n, repr(sym["float"]))])
        return self.r.choice(['%s contains "a"' % n, '%s matches /x.z/' % n, '%s == "%s"' % (n, "abc"), '%s iequals "ABC"' % n])

    def of_atom(self, names):
        r = self.r
        if not names:
            return None
        sel = r.choice(["any", "all", "none", "1", "2", "50%", "%d" % len(names)])
        st = "them" if r.chance(1, 2) else "(" + ", ".join("$" + n for n in names[:r.range(1, len(names))]) + ")"
        if r.chance(1, 5) and names:
            st = "($%s*)" % names[0][0]
        form = r.below(5)
        if form == 0:
            return "%s of %s" % (sel, st)
        if form == 1:
            return "for %s of %s : ( # > %d )" % (sel, st, r.range(0, 2))
        if form == 2:
            return "for %s of %s : ( @ < %d and $ )" % (sel, st, r.range(5, 90))
        if form == 3:
            return "%s of %s in (0..%d)" % (sel, st, r.range(10, 100))
        return "for %s of %s : ( ! >= 1 and @[1] >= 0 )" % (sel, st)

    def combine(self, atoms):
        r = self.r
        atoms = r.shuffle(atoms)
        e = atoms[0]
        for a in atoms[1:]:
            k = r.below(6)
            if k < 2:
                e = "(%s) and (%s)" % (e, a)
            elif k < 5:
                e = "(%s) or (%s)" % (e, a)
            else:
                e = "not (%s) or (%s)" % (e, a)
        return e

    # ------------------------------------------------------------ a whole case
    def case(self, assets):
        r = self.r
        self.kinds = set()
        nrules = r.range(1, 4)
        csymbols = []
        for i in range(r.choice([0, 0, 1, 2, 4])):
            t = ["int", "bool", "float", "bytes"][i % 4] if r.chance(1, 2) else r.choice(["int", "bool", "float", "bytes"])
            v = {"int": r.range(0, 50) - 10, "bool": r.chance(1, 2), "float": r.choice([0.5, 2.25, -1.0, 1e10]),
                 "bytes": r.choice([b"abc", b"xyz", b"", b"x\x00z\xff"]).hex()}[t]
            csymbols.append({"name": "ext%d" % i, t: v})
        # inputs are built while strings are generated
        occs = []
        rules, imports = [], set()
        nvars = 0
        names_by_ns = {None: [], "ns2": []}
        rule_texts = []
        # first pass: strings
        per_rule = []
        for ri in range(nrules):
            ns = None if r.chance(2, 3) else "ns2"
            strs = []
            for si in range(r.choice([0, 1, 1, 2, 3, 4])):
                nm = r.choice(["a", "b", "s"]) + str(si)
                d, occ = self.string_decl(nm)
                strs.append((nm, d))
                occs += occ
            per_rule.append((ns, strs))
        input_a = self.make_input(occs, r, all_=True)
        input_b = self.make_input(occs, r, all_=False)
        for ri, (ns, strs) in enumerate(per_rule):
            atoms = [self.string_atom(nm) for nm, _ in strs]
            names = [nm for nm, _ in strs]
            if names and r.chance(1, 2):
                atoms.append(self.of_atom(names))
            for _ in range(r.range(0 if strs else 1, 3)):
                a, imp = self.plain_atom(input_a)
                atoms.append(a)
                if imp:
                    imports.add((ri, imp))
            for s in csymbols:
                if r.chance(1, 2):
                    atoms.append(self.ext_atom(s))
            prev = names_by_ns[ns]
            flags = ""
            if r.chance(1, 5):
                flags += "global "
            if r.chance(1, 5):
                flags += "private "
            # a global rule must not refer to other rules (finding 9.8 of C05/C09: such a scan panics);
            # a wildcard rule set must not be followed by a rule it would match: only in the last rule
            if prev and "global" not in flags and r.chance(1, 2):
                opts = [prev[-1], "all of (%s)" % ", ".join(prev), "not %s" % prev[0], "none of (%s)" % prev[0],
                        "1 of (%s)" % ", ".join(prev)]
                if ri == nrules - 1:
                    opts += ["any of (r*)", "1 of (r*)", "all of (r*)"]
                atoms.append(r.choice(opts))
            name = "r%d" % ri
            tags = r.choice(["", "", " : t1", " : alpha beta", " : x"])
            metas = r.choice(["", "", 'meta: author = "me" n = 3 ok = true ', 'meta: s = "\\x00\\xffbin" neg = -5 f = false ',
                              'meta: big = 6000000000 date = 1700000000000 low = -9223372036854775807 top = 9223372036854775807 '
                              'edge = 2147483648 nedge = -2147483649 '])
            text = ""
            for i, imp in sorted(imports):
                if i == ri:
                    text += 'import "%s"\n' % imp
            text += "%srule %s%s { %s%scondition: %s }" % (
                flags, name, tags, metas, ("strings: " + " ".join(d for _, d in strs) + " ") if strs else "", self.combine(atoms))
            rules.append({"ns": ns, "src": text})
            names_by_ns[ns].append(name)
            nvars += len(strs)
        params = r.choice([{}, {"compute_full_matches": True}, {"match_max_length": r.choice([1, 4, 512])},
                           {"string_max_nb_matches": r.choice([1, 2, 1000])}, {"include_not_matched": True},
                           {"compute_full_matches": True, "string_max_nb_matches": 3, "match_max_length": 16}])
        if r.chance(1, 3):
            # a timeout that no scan here reaches, with parts below a millisecond and below a microsecond
            params = dict(params, timeout_ns=r.choice([2500750000, 800000, 1, 999999999, 3000000001, 1000000]))
        lattice = [
            {"params": {}, "api": "list"}, {"params": {"compute_full_matches": True}, "api": "list"},
            {"params": {"compute_full_matches": True}, "api": "callback"},
            {"params": {"match_max_length": r.choice([1, 3, 8])}, "api": "list"},
            {"params": {"string_max_nb_matches": r.choice([1, 2]), "compute_full_matches": True, "events": 31}, "api": "callback"},
            {"params": {"include_not_matched": True, "compute_full_matches": True}, "api": "list"},
            {"params": {"include_not_matched": True, "events": 7}, "api": "callback"},
            {"params": {"process_memory": True, "compute_full_matches": True}, "api": "list"},
            {"params": {"mode": "fast", "compute_full_matches": True}, "api": "list"},
            {"params": {"mode": "single_pass"}, "api": "list"},
        ]
        variants = [lattice[1]] + [r.choice(lattice) for _ in range(2)]
        inputs = [{"mem": input_a.hex()}, {"mem": input_b.hex()}]
        if r.chance(1, 2):
            k = r.range(1, max(1, len(input_a) - 1))
            inputs.append({"regions": [{"start": 0x1000, "hex": input_a[:k].hex(), "fail": False},
                                       {"start": 0x5000, "hex": input_a[k:].hex(), "fail": r.chance(1, 6)},
                                       {"start": 0x9000, "hex": input_b.hex(), "fail": False}]})
        mods_used = {m for _, m in imports}
        for tag, hx in assets:
            if tag.rstrip("2") in mods_used and r.chance(2, 3):
                inputs.append({"mem": hx})
                break
        else:
            inputs.append({"mem": r.choice([b"", r.bytes(r.range(1, 40))]).hex()})
        ext = []
        if csymbols:
            for _ in range(r.range(1, 2)):
                s = []
                for c in csymbols:
                    if r.chance(2, 3):
                        if "int" in c:
                            s.append({"name": c["name"], "int": r.range(0, 200) - 50})
                        elif "bool" in c:
                            s.append({"name": c["name"], "bool": not c["bool"]})
                        elif "float" in c:
                            s.append({"name": c["name"], "float": r.choice([0.0, 1.25, 99.5, -3.5])})
                        else:
                            s.append({"name": c["name"], "bytes": r.choice([b"abc", b"xaz", b"ABC", b""]).hex()})
                if r.chance(1, 3):
                    s.append({"name": "nosuch", "int": 1})
                if r.chance(1, 3):
                    c = csymbols[0]
                    s.append({"name": c["name"], ("bool" if "int" in c else "int"): (True if "int" in c else 3)})
                ext.append(s)
        user_modules = []
        if r.chance(1, 5):
            user_modules = ["time"] if r.chance(2, 3) else ["vmod", "time"]
            for m in user_modules:
                rules.append({"ns": "probes", "src": PROBES[m]})   # own namespace: no global rule interferes
        return {"user_modules": user_modules,
                "rules": rules, "csymbols": csymbols, "params": params, "profile": r.choice(["speed", "speed", "memory"]),
                "inputs": inputs, "variants": variants, "ext": ext, "nvars": nvars, "kinds": sorted(self.kinds),
                "modules": sorted(mods_used)}

    def make_input(self, occs, r, all_):
        out = bytearray()
        chosen = [o for o in occs if all_ or r.chance(1, 2)]
        chosen = r.shuffle(chosen)
        budget = 700
        for o in chosen:
            if len(out) + len(o) > budget:
                break
            out += r.bytes(r.range(0, 5), alphabet=b" .-\n\x00xA1")
            out += o
            if r.chance(1, 4):
                out += o     # repeated occurrence
        out += r.bytes(r.range(0, 6), alphabet=b" .-\n\x00xA1")
        if not out:
            out = bytearray(b"nothing here")
        return bytes(out)


class C10(Prop):
    ID = "C10"
    LEVEL = "proof"
    COQ_TARGETS = ["theories/Properties/C10.vo"]
    MODEL_TARGETS = ["theories/Model/Wire.vo", "theories/Model/WireSchemas.vo", "theories/Model/WireCase.vo"]
    CASE_HEADER = "From Boreal Require Import Base.Prelude Model.Wire Model.WireSchemas Model.WireCase."
    HARNESS_BINS = ("c10",)
    KF = {1: "C10-nan-external-not-saveable"}
    RULE = ("generated rule sets (1-4 rules, two namespaces, global/private flags, tags, metadata of the three kinds, external "
            "symbols of the four types, rule references and rule sets, module calls over hash/math/string/time/pe/elf/macho/"
            "dotnet, nested for-loops with bound identifiers and module iterators) whose strings cover text strings under "
            "every modifier combination, hex strings with masks/negation/jumps/alternatives and regexes greedy/non-greedy/"
            "raw/wide/with word boundaries; each is compiled, saved, reloaded, saved again (byte identity), listed "
            "(Scanner::rules()) and scanned on spliced inputs (occurrences of every string, fragmented regions, small "
            "PE/ELF/Mach-O files) under three configurations of the ScanParams lattice with both APIs, then again after "
            "redefining the external symbols on both scanners and after re-saving the redefined scanner.  The bytes "
            "written by the real to_bytes are decoded by the Coq `decode` under the translated read schemas, re-encoded "
            "under the translated write schemas (must be identical, no byte left over) and the rule listing, scan "
            "parameters and variable count read off the decoded value must equal what the real scanner reports.  "
            "Non-trivial: the rule set compiles, has at least one string or module/external use, and at least one rule "
            "matched in some scan; distinct by rule text.")
    TRUSTED = ["Coq 8.16.1 kernel + vm_compute", "translators/wire_schema.py (reads every `mod wire` block and the type "
               "definitions; fails on any shape it does not know)", "harness/src/bin/c10.rs + harness/src/scan.rs",
               "vlib/props/c10.py (generator, Gallina printer)", "borsh 1.x primitive encodings as read from its source "
               "(LE integers, u32 lengths, u8 tags, NaN rejected, HashMap sorted by key)"]
    ASSUMPTIONS = ["regex-automata / aho-corasick build the same automaton from the same expressions and flags "
                   "(rebuilt objects are identified with their construction parameters)",
                   "module function pointers are re-resolved by name path; covered by the correspondence only",
                   "the translated schema says which bytes carry which field; that each Rust `serialize` call on a std type "
                   "is borsh's is read from wire.rs (`pub use borsh::…`)"]

    # ---------------------------------------------------------------- translators
    def translators(self, ctx):
        problems = []
        self._env = None
        try:
            tr, text = wire_schema.translate(core.REPO)
            self._env = tr.read
            self._variants = ["wire %s::%s" % (n, c) for n, sch in tr.read.items() if sch[0] == "Enum" for c, _, _ in sch[1]]
            core.write_if_changed(os.path.join(core.COQ, "theories", "Model", "WireSchemas.v"), text)
            ctx.count("wire_blocks", len(tr.blocks))
            ctx.count("wire_impls", tr.nimpl)
            ctx.count("wire_types", len(tr.write))
            ctx.count("rebuild_sites", len(tr.sites_build))
        except wire_schema.Untranslatable as e:
            problems.append("wire_schema.py: %s" % e)
        return problems

    def assets(self):
        if not hasattr(self, "_assets"):
            self._assets = []
            for tag, rel in ASSETS:
                p = os.path.join(core.REPO, rel)
                if os.path.exists(p):
                    self._assets.append((tag, open(p, "rb").read().hex()))
        return self._assets

    # ------------------------------------------------------------ dependency catalogue
    # One single-string (or single-condition) rule per rebuilt parameter, with inputs chosen so that the scan
    # result changes when that parameter is flipped on the reloaded scanner.  Enumerated completely, always run.
    CAT_REGEXES = [
        # (source, base text, text where the `.` position holds a newline or None, what is rebuilt)
        (r"\b[a-z]{3}\b", b"abc", None, "raw, word boundaries"),
        (r"\b[a-c]+.[x-z]+\b", b"ab-xy", b"ab\nxy", "raw, word boundaries, dot"),
        (r"\B[a-z]{2}\B", b"abcd", None, "raw, non-word boundaries"),
        (r"[a-c]{2}.[x-z]{2}", b"ab-xy", b"ab\nxy", "raw, dot"),
        (r"^[a-z]{3}.[0-9]", b"abc-1", b"abc\n1", "raw, anchor"),
        (r"[a-z]+\d.\d", b"ab1-2", b"ab1\n2", "raw, classes"),
        (r"fo+.bar", b"fooo-bar", b"fooo\nbar", "atom bar, reverse dfa"),
        (r"bar.o+f", b"bar-ooof", b"bar\nooof", "atom bar, forward dfa"),
        (r"a.+foo.b", b"aa-foo-b", b"aa\nfoo\nb", "greedy: reverse + full dfa"),
        (r"x[a-c]+.yz\b", b"xab-yz", b"xab\nyz", "dfa + word boundary (custom wide runner)"),
        (r"\bkey[a-c]{1,3}.val", b"keyab-val", b"keyab\nval", "dfa + leading word boundary"),
    ]

    def catalogue(self):
        cases = []
        for src, base, nl, what in self.CAT_REGEXES:
            for flags in ("", "i", "s", "is"):
                for mods in ([], ["wide"], ["ascii", "wide"], ["wide", "nocase"], ["nocase"]):
                    texts = [base, base.upper(), base.title()]
                    if nl:
                        texts += [nl, nl.upper()]
                    inputs = []
                    for t in texts:
                        for delim in (b" ", b"-"):
                            padded = delim + t + delim
                            inputs.append({"mem": (b"junk" + padded + b"end").hex()})
                            inputs.append({"mem": (wide(b"zz" + padded + b"zz")).hex()})
                            inputs.append({"mem": (b"\x01\x02" + wide(padded) + b"\xff").hex()})
                        inputs.append({"mem": t.hex()})
                        inputs.append({"mem": wide(t).hex()})
                    rule = "rule cat { strings: $a = /%s/%s %s condition: $a }" % (src, flags, " ".join(mods))
                    cases.append({"rules": [{"ns": None, "src": rule}], "csymbols": [], "params": {"compute_full_matches": True},
                                  "profile": "speed", "inputs": inputs,
                                  "variants": [{"params": {"compute_full_matches": True}, "api": "list"}], "ext": [],
                                  "nvars": 1, "kinds": ["catalogue regex:%s/%s (%s)" % (",".join(mods), flags, what)],
                                  "modules": [], "expect": "compiles"})
        # condition regexes (Regex/meta): each flag decides the verdict of its own rule
        conds = [('"ABx" matches /ab./i', 1), ('"abx" matches /ab./', 1), ('"a\\nb" matches /a.b/s', 1), ('"a\\nb" matches /a.b/', 0),
                 ('"A\\nB" matches /a.b/is', 1), ('"A\\nB" matches /a.b/i', 0), ('"A\\nB" matches /a.b/s', 0),
                 ('ext0 matches /x.z/i', 1), ('ext0 matches /x.z/s', 1)]
        rules = [{"ns": None, "src": "rule c%d { condition: %s }" % (i, c)} for i, (c, _) in enumerate(conds)]
        cases.append({"rules": rules, "csymbols": [{"name": "ext0", "bytes": b"X\nZ".hex()}], "params": {}, "profile": "speed",
                      "inputs": [{"mem": "61"}], "variants": [{"params": {"include_not_matched": True}, "api": "list"}],
                      "ext": [[{"name": "ext0", "bytes": b"xyz".hex()}], [{"name": "ext0", "bytes": b"x\nz".hex()}]],
                      "nvars": 0, "kinds": ["catalogue condition regex flags"], "modules": [], "expect": "compiles"})
        # text / hex strings under each profile (AcScan is rebuilt from the variables and the profile)
        for profile in ("speed", "memory"):
            rule = ('rule p { strings: $a = "needle" wide ascii nocase $b = { 6E 65 ?? 64 [1-3] 65 } $c = "dle" xor fullword '
                    'condition: any of them }')
            cases.append({"rules": [{"ns": None, "src": rule}], "csymbols": [], "params": {"compute_full_matches": True},
                          "profile": profile, "inputs": [{"mem": (b"a NEEDLE needle " + wide(b"Needle") + b" nee.dxxe").hex()},
                                                         {"mem": bytes(x ^ 7 for x in b" dle ").hex()}],
                          "variants": [{"params": {"compute_full_matches": True}, "api": "list"}], "ext": [], "nvars": 3,
                          "kinds": ["catalogue profile " + profile], "modules": [], "expect": "compiles"})
        # user modules given to the compiler and again on reload; "time" and "string" replace a built-in by name
        def mods_case(user, extra_rules, without=False):
            rules = [{"ns": "probes", "src": PROBES[m]} for m in user] + [{"ns": None, "src": r} for r in extra_rules]
            return {"rules": rules, "csymbols": [], "params": {}, "profile": "speed", "user_modules": user,
                    "reload_without_user_modules": without, "inputs": [{"mem": ""}, {"mem": "616263"}],
                    "variants": [{"params": {"include_not_matched": True}, "api": "list"},
                                 {"params": {"events": 7}, "api": "callback"}], "ext": [], "nvars": 0,
                    "kinds": ["catalogue user modules " + "+".join(user)], "modules": [], "expect": "compiles"}
        cases.append(mods_case(["time"], ['import "time"\nrule later { condition: time.now() > 2000 }',
                                          'import "time"\nrule frozen_static { condition: time.epoch == 1000 }']))
        cases.append(mods_case(["string"], ['import "string"\nrule five { condition: string.length("hello") == 5 }']))
        cases.append(mods_case(["vmod"], ['import "math"\nimport "vmod"\nrule both { condition: math.min(vmod.answer(), 50) == 42 }'],
                               without=True))
        cases.append(mods_case(["vmod", "time", "string"],
                               ['import "math"\nimport "hash"\nrule builtins { condition: math.max(1, 2) == 2 and '
                                'hash.md5("abc") == "900150983cd24fb0d6963f7d28e17f72" }'], without=True))
        cases.append(mods_case(["time"], ['import "pe"\nimport "time"\nimport "math"\nrule mix { condition: not pe.is_pe and '
                                          'math.abs(time.now() - 1000) == 0 }']))
        return cases

    def generate(self, ctx, rng, n):
        a = self.assets()
        cases = [Gen(rng.fork("c%d" % i)).case(a) for i in range(n)]
        # small rule sets first: the first violation reported is then the easiest to read
        cases.sort(key=lambda c: sum(len(r["src"]) for r in c["rules"]))
        return self.catalogue() + cases

    def budget(self, tier):
        return 260 if tier == "quick" else 5000

    def corpus(self, ctx):
        out = []
        d = os.path.join(core.VERIF, "corpus", "C10")
        if os.path.isdir(d):
            for f in sorted(os.listdir(d)):
                if f.endswith(".json"):
                    out.append(core.load_case_file(os.path.join(d, f))["case"])
        return out

    def extra_search(self, ctx, rng, around):
        import time
        # total budget of the failing-input search: none once the run is older than 5 minutes
        if time.time() - ctx.t0 > 300:
            return []
        return self.generate(ctx, rng, 200)

    # ---------------------------------------------------------------- execution
    def execute(self, ctx, cases):
        hc = [{k: v for k, v in c.items() if k not in ("nvars", "kinds", "modules", "expect")} for c in cases]
        outs = core.harness_run(ctx.binp, "c10", hc, timeout=600)
        for c, o in zip(cases, outs):
            for k in c.get("kinds", []):
                ctx.count("string " + k)
            for m in c.get("modules", []):
                ctx.count("module " + m)
            ctx.count("csymbols=%d" % len(c.get("csymbols", [])))
            if c.get("user_modules"):
                ctx.count("user modules " + "+".join(c["user_modules"]))
            if isinstance(o, dict):
                if "compile_error" in o:
                    ctx.count("compile_error")
                elif "file" in o:
                    ctx.count("scans", o.get("n_scans", 0))
                    ctx.count("string matches seen", o.get("n_matches", 0))
                    ctx.count("rule matches seen", o.get("n_rule_matches", 0))
                    ctx.count("file bytes", len(o["file"]) // 2)
                    env = getattr(self, "_env", None)
                    if env:
                        try:
                            hits = {}
                            py_decode(env, ("Ref", "Scanner"), bytes.fromhex(o["file"]), 20, hits)
                            for k, v in hits.items():
                                ctx.count(k, v)
                        except Exception:
                            ctx.count("python-side decode failed")
        missing = [v for v in getattr(self, "_variants", []) if v not in ctx.dist]
        ctx.dist["wire variants never produced"] = missing
        return outs

    # ---------------------------------------------------------------- Coq term
    def term(self, ctx, case, out):
        if not isinstance(out, dict):
            return (False, False, 0)
        if case.get("nan_symbols"):
            # open finding: a NaN external symbol makes to_bytes fail; the model's encode refuses NaN too
            refused = "to_bytes_error" in out and "NaN" in str(out.get("to_bytes_error"))
            if "compile_error" in out or not ("to_bytes_error" in out or "file" in out):
                return (False, False, 0)
            return "C10_unsaveable 9221120237041090560 %s" % gbool(refused)
        if "compile_error" in out:
            if case.get("expect") == "compiles":
                return (False, False, 0)
            return (True, True, 0)       # generator produced an invalid rule: nothing to save
        if "file" not in out or "listing" not in out:
            # crash, to_bytes or from_bytes error: the scanner cannot be saved and reloaded
            return (False, False, 0)
        file = bytes.fromhex(out["file"])
        # The Coq decoder is only given streams that parse, to the last byte, under the tables translated on this
        # run.  Otherwise (translator refused the source, or the bytes do not follow the translated tables) the
        # correspondence is broken for this case, decided here: a misparsed length would make vm_compute build
        # a unary number of that size.
        env = getattr(self, "_env", None)
        parses = False
        if env:
            try:
                parses = py_decode(env, ("Ref", "Scanner"), file, 20, {}) == len(file)
            except Exception:
                parses = False
        if not parses:
            return (False, bool(out["same"]), 0)
        if len(file) > 6000:
            # keep vm_compute inputs small: judged on the implementation's side only
            return (True, bool(out["same"]), 0)
        lst = glist([gpair(gpair(gpair(gpair(gbytes(bytes.fromhex(e["ns"])), gbytes(bytes.fromhex(e["name"]))),
                                       gbool(e["global"])), gbool(e["private"])),
                           glist([gbytes(bytes.fromhex(t)) for t in e["tags"]])) for e in out["listing"]])
        p = case.get("params") or {}
        prm = gpair(gpair(gpair(gbool(p.get("compute_full_matches", False)), gN(p.get("match_max_length", 512))),
                          gN(p.get("string_max_nb_matches", 1000))), gbool(p.get("include_not_matched", False)))
        base = "%s %s %s %d %s" % (gbytes(file), lst, prm, case.get("nvars", 0), gbool(bool(out["same"])))
        user = case.get("user_modules") or []
        if not user:
            return "C10_case " + base
        seen = (out.get("user_impl_seen") or {}).get("reloaded") or {}
        seen_orig = (out.get("user_impl_seen") or {}).get("orig") or {}
        if not all(seen_orig.get(m) for m in user):
            return (False, False, 0)      # the probe rules must recognise the user modules on the original scanner
        if case.get("reload_without_user_modules"):
            w = str(out.get("reload_without_user_modules"))
            # a module that is not built in must be given again; replaced built-ins fall back to the built-in
            if ("vmod" in user) != w.startswith("error: unknown module"):
                return (False, False, 0)
        return "C10_case_mods %s %s %s %s" % (
            base, glist([gbytes(m.encode()) for m in BUILTIN_MODULES]),
            glist([gpair(gbytes(m.encode()), gN(i + 1)) for i, m in enumerate(user)]),
            glist([gpair(gbytes(m.encode()), gbool(bool(seen.get(m)))) for m in user]))

    def nontrivial(self, case, out):
        if not isinstance(out, dict) or "file" not in out:
            return None
        has = case.get("nvars", 0) > 0 or case.get("modules") or case.get("csymbols")
        if has and out.get("n_rule_matches", 0) > 0:
            return json.dumps([r["src"] for r in case["rules"]])
        return None

    def sample(self, case, out):
        o = dict(out) if isinstance(out, dict) else {"out": out}
        if "file" in o:
            o["file"] = o["file"][:64] + "... (%d bytes)" % (len(o["file"]) // 2)
        c = dict(case)
        c["inputs"] = [{k: (v[:48] + "...") if isinstance(v, str) and len(v) > 48 else v for k, v in i.items()}
                       if "mem" in i else "regions" for i in case.get("inputs", [])]
        return {"case": c, "impl": o}


PROP = C10()
