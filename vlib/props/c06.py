# C06 — optimisations and scan options never change verdicts.
import json, os
from .. import core, cond, ruleset
from ..core import gN, gZ, gbool, glist, gbytes, gopt, gpair
from ..runner import Prop
from .c05 import g_cfg, g_outcome

# (name, harness config overlay, model cfg args (full, nm, cb), statistics?)
CONFIGS = [
    ("ref_full", {"params": {"compute_full_matches": True}, "api": "list", "input_kind": "mem"}, (True, False, False), False),
    ("default_stats", {"params": {"statistics": True}, "api": "list", "input_kind": "mem"}, (False, False, False), True),
    ("not_matched", {"params": {"include_not_matched": True}, "api": "list", "input_kind": "mem"}, (False, True, False), False),
    ("callback", {"params": {}, "api": "callback", "input_kind": "mem"}, (False, False, True), False),
    ("callback_full", {"params": {"compute_full_matches": True}, "api": "callback", "input_kind": "mem"}, (True, False, True), False),
    ("profile_memory", {"params": {"statistics": True}, "api": "list", "input_kind": "mem", "profile": "memory"}, (False, False, False), True),
    ("file", {"params": {"statistics": True}, "api": "list", "input_kind": "file"}, (False, False, False), True),
    ("mmap", {"params": {}, "api": "list", "input_kind": "mmap"}, (False, False, False), False),
    ("mmap_full_cb", {"params": {"compute_full_matches": True}, "api": "callback", "input_kind": "mmap"}, (True, False, True), False),
]


def details(out):
    d = {}
    rules = list(out.get("rules", [])) + [e["rule"] for e in out.get("events", []) if e.get("ev") in ("match", "nomatch")]
    for r in rules:
        if not r["matched"]:
            continue   # the property restricts not-matched reporting to the rules flagged matched
        for s in r["strings"]:
            d[(r["ns"], r["name"], s["name"])] = {(m["base"], m["offset"], m["length"], m["key"], m["data"]) for m in s["matches"]}
    return d


class C06(Prop):
    ID = "C06"
    LEVEL = "proof"
    COQ_TARGETS = ["theories/Properties/C06.vo"]
    MODEL_TARGETS = ["theories/Model/ScannerCase.vo"]
    CASE_HEADER = ("From Boreal Require Import Base.Prelude Base.Res Model.Eval Spec.CondSem Model.EvalCost Model.Scanner "
                   "Spec.RuleSetSpec Model.ScannerCase.")
    HARNESS_BINS = ("c06",)
    KF = {1: "C05-global-refs-ordinary"}
    RULE = ("rule sets as in C05 whose conditions mix parts decidable without strings (constants, filesize, integer "
            "reads, undefined sub-expressions) with string queries and quantifiers, so that the no-scan pass is sometimes "
            "able and sometimes unable to decide; each (rule set, input) is run under %d configurations (full matches, "
            "default with statistics, include_not_matched, callback, compiler profile memory, file read, memory map) "
            "and every outcome is compared with the model's for that configuration; the statistic nb_memory_chunks "
            "tells whether the string scan was really skipped, which the model predicts.  Non-trivial: the no-scan "
            "pass decides some but not all rules, or a quantifier / and / or mixes decidable and undecidable operands; "
            "distinct by (rule set, input).  One case in five is a rule file of the C07 dialect (text / hex / regex strings "
            "with every modifier): no model prediction there, matched rules and errors must be equal under all "
            "configurations and match details a subset of the full-matches run." % len(CONFIGS))
    TRUSTED = ["Coq 8.16.1 kernel + vm_compute", "harness/src/scan.rs, harness/src/bin/c06.rs", "vlib/ruleset.py + "
               "vlib/cond.py", "string matches of plain text strings computed by bytes.find"]
    ASSUMPTIONS = ["compiler profile (DFA vs contiguous NFA) and mem / file / mmap do not exist in the model: one model "
                   "prediction is compared with the implementation under each of them",
                   "match details are compared between configurations of the implementation itself (subset of the "
                   "full-matches run), not against the model"]

    def budget(self, tier):
        return 220 if tier == "quick" else 4000

    def gen_rich(self, rng):
        """Rule files of the C07 dialect (text / hex / regex strings with every modifier, conditions over them):
        no model prediction, the configurations are compared with one another."""
        from . import c07
        c = json.loads(json.dumps(c07.gen_case(rng), default=lambda b: list(b)))
        return {"kind": "rich", "c07": c, "mem": rng.choice(c["inputs"])}

    PM_ASSETS = ["elf/smallest", "elf/elf_with_imports", "elf/invalid_program_header", "pe/long_dll_name.exe",
                 "pe/resources_only.dll", "pe/long_name_exporter.exe", "libyara/data/tiny", "libyara/data/tiny-idata-5200",
                 "libyara/data/elf32_file", "libyara/data/elf64_file", "macho/tiny-macho"]
    PM_CONFIGS = [(pm, api, kind) for pm in (False, True)
                  for api, kind in (("list", "mem"), ("callback", "mem"), ("list", "file"), ("callback", "file"),
                                    ("list", "mmap"), ("callback", "mmap"))]

    def gen_pm(self, rng):
        """Executable files and rules whose verdict depends on ScanParams::process_memory (entry points, module
        layout): with the same flag, every API (list / callback) and every source of the bytes (buffer, file,
        memory map) must report the same rules."""
        import os
        assets = [a for a in self.PM_ASSETS if os.path.exists(os.path.join(core.REPO, "boreal", "tests", "assets", a))]
        a = rng.choice(assets) if assets else None
        if a is None:
            mem = b"\x7fELF" + bytes(60)
        else:
            mem = open(os.path.join(core.REPO, "boreal", "tests", "assets", a), "rb").read()[:65536]
        k = rng.choice([0, 1, 0x1000, 0x400000, 0x401000])
        conds = ["entrypoint >= %d" % k, "entrypoint < %d" % (k + 0x100), "defined entrypoint",
                 "defined elf.entry_point and elf.entry_point >= %d" % k, "not defined elf.entry_point",
                 "defined pe.entry_point and pe.entry_point < %d" % (k + 0x2000), "elf.number_of_sections > 2",
                 "pe.number_of_sections > 1 and pe.sections[0].raw_data_offset > 0", "defined uint16(entrypoint)",
                 "defined macho.entry_point", "pe.entry_point_raw == pe.entry_point", "filesize > 0 and uint8(0) == 0x7f"]
        picked = [rng.choice(conds) for _ in range(rng.range(3, 6))]
        src = 'import "elf"\nimport "pe"\nimport "macho"\n' + "".join(
            "rule m%d { condition: %s }\n" % (i, c) for i, c in enumerate(picked))
        return {"kind": "pm", "asset": a, "mem": mem.hex(), "rules_src": src}

    def term_pm(self, ctx, case, out):
        if not isinstance(out, dict) or "outs" not in out:
            return (False, False, 0)
        outs = out["outs"]
        if any("compile_error" in o for o in outs):
            ctx.count("pm: compile_error")
            return (True, True, 0)
        def matched(o):
            rules = list(o.get("rules", [])) + [e["rule"] for e in o.get("events", []) if e.get("ev") == "match"]
            return sorted((r["ns"], r["name"]) for r in rules if r["matched"])
        ref = {}
        for (pm, api, kind), o in zip(self.PM_CONFIGS, outs):
            key = (o.get("error"), tuple(matched(o))) if "panic" not in o else ("panic", o["panic"])
            if pm not in ref:
                ref[pm] = (key, api, kind)
            elif ref[pm][0] != key:
                ctx.notes.append("process_memory=%s on %s: %s/%s reports %s, %s/%s reports %s"
                                 % (pm, case["asset"], api, kind, key, ref[pm][1], ref[pm][2], ref[pm][0]))
                return (False, False, 0)
        ctx.count("pm: the flag changes the verdicts" if ref[False][0] != ref[True][0] else "pm: same verdicts with and without the flag")
        return (True, True, 0)

    SPECIAL_FILES = ["/proc/version", "/proc/filesystems", "/proc/devices", "/proc/cmdline"]   # stable between two reads
    SPECIAL_CONFIGS = [("list", "mem", False), ("list", "file", True), ("callback", "file", True), ("callback", "mem", False)]

    def gen_special(self, rng):
        """Files whose reported size is not the size of their content (procfs reports 0): reading them as a file
        must give the same verdicts as scanning their bytes from a buffer."""
        import os
        cands = [p for p in self.SPECIAL_FILES if os.path.exists(p)]
        if not cands:
            return self.gen_pm(rng)
        path = rng.choice(cands)
        mem = open(path, "rb").read()
        words = [w for w in mem.split() if 3 <= len(w) <= 12 and w.isalnum()][:40] or [b"zzz"]
        w1, w2 = rng.choice(words), rng.choice(words)
        src = ('rule s0 { strings: $a = "%s" condition: $a }\n'
               'rule s1 { strings: $a = "%s" condition: #a >= 1 and filesize > %d }\n'
               'rule s2 { condition: filesize == %d }\n'
               'rule s3 { condition: filesize == 0 }\n'
               'rule s4 { strings: $a = "%s" condition: $a in (0..filesize) }\n'
               % (w1.decode(), w2.decode(), len(mem) // 2, len(mem), w2.decode()))
        return {"kind": "special", "path": path, "mem": mem.hex(), "rules_src": src}

    def term_special(self, ctx, case, out):
        if not isinstance(out, dict) or "outs" not in out:
            return (False, False, 0)
        outs = out["outs"]
        def matched(o):
            rules = list(o.get("rules", [])) + [e["rule"] for e in o.get("events", []) if e.get("ev") == "match"]
            return (o.get("error"), sorted(r["name"] for r in rules if r["matched"]))
        ref = matched(outs[0])
        ctx.count("special file compared with its bytes in a buffer")
        for (api, kind, _), o in zip(self.SPECIAL_CONFIGS, outs):
            if "panic" in o or matched(o) != ref:
                ctx.notes.append("%s read as %s/%s reports %s, its bytes in a buffer %s" % (case["path"], api, kind, o.get("panic") or matched(o), ref))
                return (False, False, 0)
        return (True, True, 0)

    def gen_altlit(self, rng):
        """Strings whose alternatives share an Aho-Corasick atom at the same position and differ elsewhere (last
        byte, case of a letter outside the atom, a longer tail); the input holds one alternative only.  Every
        configuration — the compiler profiles in particular — must report the same rules."""
        w = bytes(rng.choice(b"abcdefgh") for _ in range(4))
        p4 = " ".join("%02X" % x for x in rng.bytes(4))
        alts = [bytes([x]) for x in rng.bytes(3)]
        t1, t2 = w.decode() + "Xy", w.decode() + "xy"
        rules = ['rule h0 { strings: $a = { ( %s %02X | %s %02X | %s %02X ) } condition: $a }' % (p4, alts[0][0], p4, alts[1][0], p4, alts[2][0]),
                 'rule r0 { strings: $a = /(%s|%s)/ condition: $a }' % (t1, t2),
                 'rule r1 { strings: $a = /%s(AB|ab|Ab)/ condition: #a >= 1 }' % w.decode(),
                 'rule h1 { strings: $a = { %s ( 00 11 | 00 22 | FF ) } condition: $a }' % p4,
                 'rule t0 { strings: $a = "%s" $b = "%s" condition: any of them }' % (t1, t2)]
        which = rng.below(3)
        mem = (b"..  " + bytes.fromhex(p4.replace(" ", "")) + alts[which] + b" -- " + (t2 if which else t1).encode() + b" "
               + w + [b"AB", b"ab", b"Ab"][which] + b" " + bytes.fromhex(p4.replace(" ", "")) + [b"\x00\x11", b"\x00\x22", b"\xff"][which] + b" end")
        picked = [r for r in rules if rng.chance(3, 4)] or rules[:2]
        return {"kind": "altlit", "mem": mem.hex(), "rules_src": "\n".join(picked) + "\n"}

    def term_altlit(self, ctx, case, out):
        if not isinstance(out, dict) or "outs" not in out:
            return (False, False, 0)
        outs = out["outs"]
        if any("compile_error" in o for o in outs):
            ctx.notes.append("altlit: compile error %s" % [o.get("compile_error") for o in outs][:1])
            return (False, False, 0)
        def matched(o):
            rules = list(o.get("rules", [])) + [e["rule"] for e in o.get("events", []) if e.get("ev") == "match"]
            return (o.get("error"), sorted(r["name"] for r in rules if r["matched"]))
        ref = matched(outs[0])
        ctx.count("altlit: alternatives sharing an atom, compared across configurations")
        if not ref[1]:
            ctx.count("altlit: nothing matches")
        for (name, _, _, _), o in zip(CONFIGS, outs):
            if "panic" in o or matched(o) != ref:
                ctx.notes.append("alternatives sharing an atom: configuration %s reports %s, ref_full %s" % (name, o.get("panic") or matched(o), ref))
                return (False, False, 0)
        return (True, True, 0)

    def gen_case(self, rng):
        if rng.chance(1, 30):
            return self.gen_altlit(rng)
        if rng.chance(1, 40):
            return self.gen_special(rng)
        if rng.chance(1, 12):
            return self.gen_pm(rng)
        if rng.chance(1, 5):
            return self.gen_rich(rng)
        if rng.chance(1, 5):
            # a single rule whose condition is decidable before the string scan only through its scan-free
            # part: sibling loops / connectives where the first operand needs strings
            names = ["_a0", "_d1"]
            strings = [["_a0", [97, 98]], ["_d1", [97]]]
            lo = rng.choice([2, 3, 5])
            first_body = rng.choice([("varat", 0, ("bound", 0)), ("bin", "eq", ("count", 1), ("bound", 0)),
                                     ("var", rng.below(2))])
            k1 = rng.choice(["any", "all", "none"])
            first = rng.choice([("forrange", k1, None, ("int", lo), ("int", lo + rng.choice([0, 1])), first_body),
                                ("forlist", k1, None, [("int", lo), ("int", lo + 1)], first_body)])
            probe = rng.choice([("bin", "eq", ("bound", 0), ("int", lo + rng.choice([0, 1]))),
                                ("bin", "ge", ("bound", 0), ("int", lo)),
                                ("bin", "eq", ("readint", "uint8", ("bound", 0)), ("int", rng.choice([97, 98, 99])))])
            k2 = rng.choice(["any", "all", "none"])
            second = rng.choice([("forrange", k2, None, ("int", 0), ("int", rng.choice([0, 1])), probe),
                                 ("forlist", k2, None, [("int", 0), ("int", 1)], probe)])
            c = (rng.choice(["or", "and"]), [first, second])
            if rng.chance(1, 3):
                c = ("un", "not", c)
            if rng.chance(1, 3):
                # quantifiers whose bodies are decided for some iterations and need the strings for others
                from .c04 import quantified_partial
                c = quantified_partial(rng, 2)
            elif rng.chance(1, 4):
                # connectives over pending / undefined / decided operands in every order
                from .c04 import poison_order
                c = poison_order(rng, 2)
            if rng.chance(1, 4):
                # what needs the strings is an ELEMENT of the enumeration or the COUNT of the selection, the rest
                # being decidable: an element may turn out undefined once the matches are known (`@a[2]` with one
                # match) and a count may turn out to be 0 (`0 of` = none of)
                v = rng.below(2)
                if rng.chance(1, 2):
                    pend = rng.choice([("offset", v, ("int", rng.choice([1, 2, 3]))), ("length", v, ("int", rng.choice([2, 3]))),
                                       ("bin", "add", ("offset", v, ("int", 2)), ("int", 1))])
                    dec = rng.choice([0, 1, 5])
                    elems = rng.choice([[pend, ("int", dec)], [("int", dec + 1), pend, ("int", dec)], [pend, pend, ("int", dec)]])
                    body = rng.choice([("bin", "eq", ("bound", 0), ("int", dec)),
                                       ("bin", "eq", ("readint", "uint8", ("bound", 0)), ("int", rng.choice([97, 98, 122])))])
                    c = ("forlist", rng.choice(["any", "any", "none", "expr"]), ("int", 1), elems, body)
                    if c[1] != "expr":
                        c = (c[0], c[1], None, c[3], c[4])
                else:
                    body = rng.choice([("and", [("bin", "eq", ("readint", "uint8", ("int", 0)), ("int", 77)), ("var", None)]),
                                       ("varat", None, ("bin", "sub", ("filesize",), ("int", 100))),
                                       ("and", [("bool", False), ("var", None)])])
                    k, se = rng.choice([("expr", ("count", v)), ("expr", ("bin", "sub", ("count", v), ("int", 1))),
                                        ("pct", ("bin", "mul", ("count", v), ("int", 50))), ("expr", ("offset", v, ("int", 1)))])
                    c = ("for", k, se, [0, 1], body)
                if rng.chance(1, 4):
                    c = ("un", "not", c)
            limit = None
            if rng.chance(1, 6):
                # occurrences and counts exactly at string_max_nb_matches, and ranges of a single offset: what the
                # first pass may assume about matches it has not seen
                v = rng.below(2)
                limit = rng.choice([1, 2, 2, 3])
                k = rng.choice([limit, limit, limit - 1, limit + 1])
                c = rng.choice([("bin", "ge", ("offset", v, ("int", max(1, k))), ("int", 0)),
                                ("bin", "ge", ("length", v, ("int", max(1, k))), ("int", 1)),
                                ("bin", "eq", ("count", v), ("int", k)),
                                ("defined", ("offset", v, ("int", max(1, k)))),
                                ("bin", "eq", ("countin", v, ("int", rng.choice([0, 3, 6])), ("int", rng.choice([0, 3, 6]))), ("int", 1)),
                                ("bin", "eq", ("countin", v, ("int", 0), ("int", 0)), ("int", 1)),
                                ("bin", "ge", ("countin", v, ("int", 3), ("int", 3)), ("int", 1)),
                                ("bin", "ge", ("countin", v, ("bin", "sub", ("filesize",), ("int", 2)), ("bin", "sub", ("filesize",), ("int", 2))), ("int", 1))])
                if "countin" in json.dumps(c) and rng.chance(1, 2):
                    limit = None
                if rng.chance(1, 4):
                    c = ("un", "not", c)
            rs = {"nns": 1, "rules": [{"id": 0, "ns": 0, "name": "r0", "global": False, "private": False,
                                       "ord_index": 0, "strings": strings, "cond": c}]}
            rs = json.loads(json.dumps(rs))
            out = {"rs": rs, "mem": rng.choice(ruleset.MEMS + [b"ab ab ab", b"a a a a", b"xxab", b"ab ab ab", b"abcab", b"ab"]).hex()}
            if limit:
                out["limit"] = limit
            return out
        if rng.chance(1, 12):
            # a namespace disabled by a false global rule, its ordinary rules declaring strings, and rules with
            # strings compiled after them in an enabled namespace: with include_not_matched the rules of the
            # disabled namespace are reported without being evaluated, their string slots must still be consumed
            rules = []
            def add(ns, name, is_global, strings, c):
                r = {"ns": ns, "name": name, "global": is_global, "private": False, "strings": strings, "cond": c, "id": len(rules)}
                if not is_global:
                    r["ord_index"] = len([x for x in rules if not x["global"]])
                rules.append(r)
            gcond = rng.choice([("bool", False), ("bin", "gt", ("filesize",), ("int", 100000)), ("var", 0)])
            add(0, "g0", True, [["_c0", [122, 122, 122, 122]]] if gcond[0] == "var" else [], gcond)
            for i in range(rng.range(1, 2)):
                add(0, "r%d" % i, False, [["_a0", [97, 98]]] + ([["_d1", [97]]] if rng.chance(1, 2) else []),
                    rng.choice([("var", 0), ("bin", "ge", ("count", 0), ("int", 1)), ("bool", True)]))
            for i in range(rng.range(1, 2)):
                add(1, "s%d" % i, False, [[rng.choice(["_b0", "_a0"]), rng.choice([[97, 98, 99], [97, 98]])]],
                    rng.choice([("var", 0), ("bin", "ge", ("count", 0), ("int", 1)), ("varat", 0, ("int", 0))]))
            if rng.chance(1, 2):
                add(1, "g1", True, [], ("bool", True))
            rs = json.loads(json.dumps({"rules": rules, "nns": 2}))
            return {"rs": rs, "mem": rng.choice([b"abcabcab a\x00\x01xx", b"ab", b"xx abc xx", b"zzzz abc"]).hex()}
        nc = rng.chance(1, 4)       # nocase strings met in another case than written
        rs = ruleset.gen_ruleset(rng, max_rules=4, depth=3, poison=60, nocase=50 if nc else 0)
        mem = rng.choice(ruleset.MIXED_MEMS if nc else ruleset.MEMS)
        return {"rs": rs, "mem": mem.hex()}

    def generate(self, ctx, rng, n):
        return [self.gen_case(rng.fork("c%d" % i)) for i in range(n)]

    def corpus(self, ctx):
        out = []
        d = os.path.join(core.VERIF, "corpus", self.ID)
        if os.path.isdir(d):
            for f in sorted(os.listdir(d)):
                if f.endswith(".json"):
                    out.append(core.load_case_file(os.path.join(d, f))["case"])
        return out

    def execute(self, ctx, cases):
        wd = os.path.join(core.VERIF, ".work", "c06_%d" % os.getpid())
        os.makedirs(wd, exist_ok=True)
        ctx.workdir = wd
        def rules_of(c):
            if c.get("kind") in ("special", "altlit"):
                return [{"ns": "default", "src": c["rules_src"]}]
            if c.get("kind") == "pm":
                return [{"ns": "default", "src": c["rules_src"]}]
            if c.get("kind") == "rich":
                from . import c07
                return c07.harness_rules(c["c07"])
            return ruleset.harness_rules(c["rs"])
        def configs_of(c):
            if c.get("kind") == "special":
                return [dict({"params": {}, "api": api, "input_kind": kind}, **({"path": c["path"]} if usep else {}))
                        for api, kind, usep in self.SPECIAL_CONFIGS]
            if c.get("kind") == "pm":
                return [{"params": {"process_memory": pm}, "api": api, "input_kind": kind} for pm, api, kind in self.PM_CONFIGS]
            if c.get("limit"):
                # the same nine configurations under a lowered string_max_nb_matches
                return [dict(c_[1], params=dict(c_[1]["params"], string_max_nb_matches=c["limit"])) for c_ in CONFIGS]
            return [c_[1] for c_ in CONFIGS]
        hc = [{"rules": rules_of(c), "input": {"mem": c["mem"]}, "workdir": wd, "configs": configs_of(c)} for c in cases]
        return core.harness_run(ctx.binp, "c06", hc)

    def cleanup(self, ctx):
        import shutil
        if getattr(ctx, "workdir", None):
            shutil.rmtree(ctx.workdir, ignore_errors=True)

    def term_rich(self, ctx, case, out):
        if not isinstance(out, dict) or "outs" not in out:
            return (False, False, 0)
        outs = out["outs"]
        if any("compile_error" in o for o in outs):
            ctx.count("rich: compile_error")
            return (True, True, 0)
        def matched(o):
            rules = list(o.get("rules", [])) + [e["rule"] for e in o.get("events", []) if e.get("ev") == "match"]
            return sorted((r["ns"], r["name"]) for r in rules if r["matched"])
        ref = details(outs[0]) if "rules" in outs[0] else {}
        m0 = matched(outs[0])
        ctx.count("rich: compared across %d configurations" % len(outs))
        ctx.count("rich: %s" % ("some rule matches" if m0 else "no rule matches"))
        for (name, _, _, _), o in zip(CONFIGS, outs):
            if o.get("error") != outs[0].get("error") or matched(o) != m0:
                ctx.notes.append("rich rule file: configuration %s reports %s (error %s), ref_full reports %s (error %s)"
                                 % (name, matched(o), o.get("error"), m0, outs[0].get("error")))
                return (False, False, 0)
            for k, v in details(o).items():
                if not v <= ref.get(k, set()):
                    ctx.notes.append("rich rule file: details of %s not a subset of the full run for %s" % (name, k))
                    return (False, False, 0)
        return (True, True, 0)

    def term(self, ctx, case, out):
        if case.get("kind") == "altlit":
            return self.term_altlit(ctx, case, out)
        if case.get("kind") == "special":
            return self.term_special(ctx, case, out)
        if case.get("kind") == "pm":
            return self.term_pm(ctx, case, out)
        if case.get("kind") == "rich":
            return self.term_rich(ctx, case, out)
        rs = case["rs"]
        if not isinstance(out, dict) or "outs" not in out:
            return (False, False, 0)
        outs = out["outs"]
        if any("compile_error" in o for o in outs):
            ctx.count("compile_error")
            return (False, False, 0)
        mem = bytes.fromhex(case["mem"])
        runs = []
        ref = details(outs[0]) if "rules" in outs[0] else {}
        for (name, _, (full, nm, cb), stats), o in zip(CONFIGS, outs):
            go = g_outcome(rs, o)
            if go is None:
                return (False, False, 0)
            sk = None
            if stats and o.get("chunks") is not None and not o.get("error"):
                sk = (o["chunks"] == 0)
                ctx.count("%s skipped=%s" % (name, sk))
            runs.append("(%s, %s, %s)" % (g_cfg(full, nm, cb), go, gopt(sk, gbool)))
            # details of any configuration are a subset of the full-matches run
            for k, v in details(o).items():
                if not v <= ref.get(k, set()):
                    ctx.notes.append("details of %s not a subset of the full run for %s" % (name, k))
                    return (False, False, 0)
        return "C06_case %s %s %s" % (ruleset.g_scanner(rs), ruleset.g_inputs(rs, mem, limit=case.get("limit") or 1000), glist(runs))

    def nontrivial(self, case, out):
        if case.get("kind") == "altlit":
            return json.dumps([case["mem"], case["rules_src"]])
        if case.get("kind") == "special":
            return json.dumps([case["path"], case["rules_src"]])
        if case.get("kind") == "pm":
            return json.dumps([case["asset"], case["rules_src"]])
        if case.get("kind") == "rich":
            return json.dumps(case, sort_keys=True) if any(r["strings"] for r in case["c07"]["rules"]) else None
        try:
            o = out["outs"]
            s = json.dumps([r["cond"] for r in case["rs"]["rules"]])
            mixed = ('"var' in s or '"count' in s or '"for' in s or '"of"' in s) and ('"and"' in s or '"or"' in s or '"for' in s)
            return json.dumps(case, sort_keys=True) if mixed else None
        except Exception:
            return None

    def sample(self, case, out):
        if case.get("kind") == "altlit":
            return {"rules": case["rules_src"], "mem": case["mem"]}
        if case.get("kind") == "special":
            return {"path": case["path"], "rules": case["rules_src"]}
        if case.get("kind") == "pm":
            return {"asset": case["asset"], "rules": case["rules_src"]}
        if case.get("kind") == "rich":
            from . import c07
            return {"rules": [(x["ns"], x["src"]) for x in c07.harness_rules(case["c07"])], "mem": case["mem"]}
        return {"rules": [(x["ns"], x["src"]) for x in ruleset.harness_rules(case["rs"])], "mem": case["mem"],
                "impl": [{"config": n, "error": o.get("error"), "chunks": o.get("chunks"),
                          "matched": [r["name"] for r in o.get("rules", []) if r["matched"]]
                          + [e["rule"]["name"] for e in o.get("events", []) if e["ev"] == "match"]}
                         for (n, _, _, _), o in zip(CONFIGS, (out or {}).get("outs", []))]}


PROP = C06()
