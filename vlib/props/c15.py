# C15 — interrupted scans report only a prefix of the truth.
import json, os
from .. import core, cond, ruleset
from ..core import gN, gZ, gbool, glist, gbytes, gopt, gpair
from ..runner import Prop
from .c05 import g_cfg, g_outcome


def ac_hits(rs, mem):
    """Number of Aho-Corasick hits = timeout checks of the string scan.  All strings of the pool are at most
    4 bytes long, so the atom of a literal is the literal itself; atoms are lower-cased and de-duplicated
    across all variables; the automaton is ASCII case-insensitive and reports overlapping occurrences."""
    atoms = set()
    for r in rs["rules"]:
        for _, p in r["strings"]:
            assert len(p) <= 4
            atoms.add(bytes(p).lower())
    low = mem.lower()
    return sum(len(cond.find_all(low, a)) for a in atoms)


class C15(Prop):
    ID = "C15"
    LEVEL = "proof"
    COQ_TARGETS = ["theories/Properties/C15.vo"]
    MODEL_TARGETS = ["theories/Model/ScannerCase.vo"]
    CASE_HEADER = ("From Boreal Require Import Base.Prelude Base.Res Model.Eval Spec.CondSem Model.EvalCost Model.Scanner "
                   "Spec.RuleSetSpec Model.ScannerCase.")
    HARNESS_BINS = ("c15",)
    KF = {1: "C05-global-refs-ordinary", 2: "C15-timeout-unvalidated-globals",
          3: "C15-noscan-timeout-flush-order"}
    RULE = ("for each generated (rule set, input, configuration: full matches or not, include_not_matched or not, list "
            "or callback API with RULE_NO_MATCH / MODULE_IMPORT / STRING_REACHED_MATCH_LIMIT events or not, imported "
            "modules, string_max_nb_matches 1 / 2 / default, direct memory or 2-3 regions in fast / single_pass "
            "mode): the uninterrupted run with the number of timeout checks "
            "(hook verif_timeout), then EVERY callback-abort point k = 1..#events+1 and EVERY timeout point j = "
            "1..#checks+1 (capped at 80 per case), each followed by a normal scan with the same scanner.  The model "
            "(Model/Scanner.v with Model/EvalCost.v) must predict error kind, returned rules, delivered events and the "
            "number of checks performed, for each point.  One evaluation = one interruption point; non-trivial: the "
            "interruption really happens (an error is returned); distinct by (rule set, input, configuration, point).  "
            "Two families are outside the condition model and are checked on the implementation's own outputs only "
            "(error kind, prefix of the complete run, following scan, fire-once agreement): rule files of the C07 "
            "dialect (`rich`) and loops over module arrays / dictionaries on real PE / ELF / Mach-O files (`modloop`).")
    TRUSTED = ["Coq 8.16.1 kernel + vm_compute", "harness/src/scan.rs, harness/src/bin/c15.rs", "hook verif_timeout "
               "(the j-th check_timeout call fires; calls are counted)", "vlib/ruleset.py + vlib/cond.py",
               "number of Aho-Corasick hits computed by Python for the <= 4-byte strings of the pool"]
    ASSUMPTIONS = ["ScanStatistics events (delivered even after an abort) are left out of the event sequences",
                   "the order of Aho-Corasick hits and the hits that reach the match limit are computed by "
                   "vlib/ruleset.simulate_strings for plain strings of at most 4 bytes"]

    def budget(self, tier):
        return 60 if tier == "quick" else 1200

    def gen_decidable_case(self, rng):
        """Rule sets decided without the string scan (constant / filesize / read conditions, no string), several
        namespaces, some disabled by a false global rule declared after a true one: every timeout point then lies
        in the first evaluation pass, whose handler flushes what was decided so far."""
        consts = [("bool", True), ("bool", True), ("bool", False),
                  ("bin", "eq", ("filesize",), ("int", 3)), ("bin", "ge", ("filesize",), ("int", 0)),
                  ("bin", "eq", ("readint", "uint8", ("int", 0)), ("int", 97)),
                  ("defined", ("readint", "uint8", ("int", 1000))),
                  ("bin", "eq", ("readint", "uint8", ("int", 1000)), ("int", 0)),
                  ("forrange", "any", None, ("int", 0), ("int", 2), ("bin", "eq", ("bound", 0), ("int", 1)))]
        nns = rng.range(2, 3)
        rules, per_ns, ordn = [], {}, 0
        for ns in range(nns):
            ng = rng.choice([0, 1, 2, 2, 3])
            for k in range(ng):
                # true globals first, a false one later (the earlier ones then await their invalidation)
                c = ("bool", True) if k + 1 < ng or rng.chance(1, 2) else rng.choice([("bool", False), consts[7]])
                i = per_ns.setdefault(ns, 0); per_ns[ns] += 1
                rules.append({"ns": ns, "name": "g%d" % i, "global": True, "private": rng.chance(1, 4), "strings": [],
                              "cond": c, "id": len(rules)})
        order = list(range(nns))
        for _ in range(rng.range(2, 5)):
            ns = rng.choice(order)
            i = per_ns.setdefault(ns, 0); per_ns[ns] += 1
            rules.append({"ns": ns, "name": "r%d" % i, "global": False, "private": rng.chance(1, 5), "strings": [],
                          "cond": rng.choice(consts), "id": len(rules), "ord_index": ordn})
            ordn += 1
        # shuffle declaration order a little: ordinary rules may be declared before the globals of their namespace
        if rng.chance(1, 2):
            rules.sort(key=lambda r: (r["ns"], r["global"]))
        remap = {}
        oi = 0
        for k, r in enumerate(rules):
            r["id"] = k
            if r["ns"] not in remap:
                remap[r["ns"]] = len(remap)
            r["ns"] = remap[r["ns"]]
            if not r["global"]:
                r["ord_index"] = oi
                oi += 1
        rs = json.loads(json.dumps({"rules": rules, "nns": len(remap)}))
        return {"rs": rs, "mem": rng.choice(ruleset.MEMS).hex(), "full": False, "nm": False, "cb": rng.chance(1, 2),
                "ev_nomatch": rng.chance(1, 2), "imports": rng.choice([[], ["math"]]), "ev_import": rng.chance(1, 2),
                "ev_limit": False, "limit": 1000, "frag": None}

    def gen_rich(self, rng):
        """Rule files of the C07 dialect (text / hex / regex strings with every modifier) without global rules and
        without match-limit events, i.e. outside the two recorded classes: no model prediction; the prefix property
        is checked on the implementation's own outputs at every interruption point."""
        from . import c07
        c = json.loads(json.dumps(c07.gen_case(rng), default=lambda b: list(b)))
        for r in c["rules"]:
            r["global"] = False
        return {"kind": "rich", "c07": c, "mem": rng.choice(c["inputs"]), "full": rng.chance(1, 3), "nm": rng.chance(1, 4),
                "cb": rng.chance(1, 2), "ev_nomatch": rng.chance(1, 2)}

    MODLOOP_ASSETS = {"pe": "boreal/tests/assets/libyara/data/mtxex.dll", "elf": "boreal/tests/assets/elf/smallest",
                      "macho": "boreal/tests/assets/libyara/data/tiny-macho"}

    def gen_modloop(self, rng):
        """Loops over module arrays and dictionaries (`for .. in pe.sections`, `for k, v in pe.version_info`, ...)
        on a real executable: these iterators are outside the condition model, so, as for the rich rule files, the
        prefix property is checked on the implementation's own outputs at every interruption point — a timeout
        that fires inside such a body must end the scan at once, before and after the string scan."""
        mod = rng.choice(["pe", "pe", "pe", "elf", "macho"])
        loops = {
            "pe": ["for any s in pe.sections : (s.raw_data_size > 100000)", "for all s in pe.sections : (s.virtual_address > 0)",
                   "for 2 s in pe.sections : (s.raw_data_size > 0 and #_a >= 0)", "for any s in pe.sections : ($_a and s.raw_data_size > 0)",
                   "for any k, v in pe.version_info : (k == \"zz\" or v contains \"zzz\")",
                   "for all k, v in pe.version_info : ($_a or k != \"\")",
                   "for any i in (0..pe.number_of_sections - 1) : (pe.sections[i].raw_data_offset == 1)",
                   "for any e in pe.import_details : (for any f in e.functions : (f.name == \"zz\" and #_a > 100))"],
            "elf": ["for any s in elf.segments : (s.type == 12345)", "for all s in elf.segments : (s.offset >= 0 and #_a >= 0)",
                    "for any s in elf.sections : ($_a or s.size > 1000000)"],
            "macho": ["for any s in macho.segments : (s.nsects > 100)", "for all s in macho.segments : (s.vmsize >= 0 and #_a >= 0)",
                      "for any seg in macho.segments : (for any sec in seg.sections : (sec.size > 100000000 or $_a))"],
        }[mod]
        # module function calls whose first argument is undefined and whose later arguments take several
        # evaluation steps: a timeout firing in a later argument must not be lost behind the undefined one
        calls = ["math.max(uint32(filesize), filesize + 1 + 2 + 3) > 0", "math.min(uint8(filesize + 5), (filesize * 2) + (3 - 1)) == 0",
                 "math.max(uint16(filesize), #_a + 1 + 1) > 0 or filesize > 0",
                 "math.in_range(math.mean(filesize, 10), 0.0, 1.0 + 2.0 + 3.0)",
                 "math.max(1 + 2, uint8(filesize)) > 0 or math.min(filesize + 1, uint8(filesize)) > 0"]
        loops = loops + calls
        nr = rng.range(1, 3)
        src = 'import "%s"\nimport "math"\n' % mod
        for i in range(nr):
            c = rng.choice(loops)
            if rng.chance(1, 3):
                c = "(%s) or %s" % (c, rng.choice(["false", "$_a", "filesize == 1"]))
            src += 'rule m%d { strings: $_a = "%s" condition: %s }\n' % (i, rng.choice(["MZ", "text", "zqzq", "\\x7fELF"]), c)
        return {"kind": "modloop", "src": src, "asset": self.MODLOOP_ASSETS[mod], "full": rng.chance(1, 3), "nm": rng.chance(1, 4),
                "cb": rng.chance(1, 2), "ev_nomatch": rng.chance(1, 2)}

    def term_rich(self, ctx, case, out):
        if not isinstance(out, dict) or "full" not in out:
            if isinstance(out, dict) and "compile_error" in out:
                ctx.count("%s: compile_error" % case["kind"])
                if case["kind"] == "modloop":
                    ctx.notes.append("modloop rule file does not compile: %s" % str(out["compile_error"])[:300])
                    return (False, False, 0)
                return (True, True, 0)
            return (False, False, 0)
        full = out["full"]
        def evkey(e):
            r = e.get("rule")
            return (e["ev"], r["ns"], r["name"]) if isinstance(r, dict) else (e["ev"], json.dumps(e, sort_keys=True))
        fe = [evkey(e) for e in full.get("events", [])]
        fr = [(r["ns"], r["name"], r["matched"]) for r in full.get("rules", [])]
        if full.get("error"):
            ctx.notes.append("rich: the uninterrupted scan fails: %s" % full.get("error"))
            return (False, False, 0)
        ctx.count("%s: interruption points" % case["kind"], len(out["runs"]))
        for r in out["runs"]:
            o = r["out"]
            oe = [evkey(e) for e in o.get("events", [])]
            orr = [(x["ns"], x["name"], x["matched"]) for x in o.get("rules", [])]
            bad = None
            if not r["next_ok"]:
                bad = "the scan following the interruption differs from the first one"
            elif not r.get("once_same", True):
                bad = "firing the timeout at this check only gives another outcome"
            elif r["kind"] == "abort":
                k = r["at"]
                if k <= len(fe):
                    if o.get("error") != "CallbackAbort" or oe != fe[:k]:
                        bad = "abort at event %d: error %s, events are not the first %d of the complete scan" % (k, o.get("error"), k)
                elif o.get("error") or oe != fe:
                    bad = "abort point beyond the last event changes the outcome"
            else:
                if o.get("error") == "Timeout":
                    if oe != fe[:len(oe)] or orr != fr[:len(orr)]:
                        bad = "timeout at check %d: what was reported is not a prefix of the complete scan" % r["at"]
                    ctx.count("%s: timeout interrupted" % case["kind"])
                elif r["at"] <= (full.get("checks") or 0):
                    bad = "timeout at check %d of %s did not interrupt the scan" % (r["at"], full.get("checks"))
                elif o.get("error") or oe != fe or orr != fr:
                    bad = "timeout point beyond the last check changes the outcome"
            if bad:
                ctx.notes.append("rich rule file: " + bad)
                return (False, False, 0)
        return (True, True, 0)

    def gen_shared_atom_limit(self, rng):
        """Several rules declaring the same short string, more occurrences than string_max_nb_matches: the strings
        reach the limit while the same Aho-Corasick hit is handled, so their match-limit events come back to back;
        callback API with these events enabled, every abort point."""
        name, pat = rng.choice([("d", b"a"), ("a", b"ab"), ("c", b"zz")])
        nr = rng.range(2, 4)
        rules = []
        for i in range(nr):
            strings = [["_%s0" % name, list(pat)]]
            if rng.chance(1, 3):
                strings.append(["_%s1" % name, list(pat)])
            c = rng.choice([("var", 0), ("bin", "ge", ("count", 0), ("int", 1)), ("bool", True), ("of", "any", None, [0])])
            rules.append({"ns": rng.below(2), "name": "r%d" % i, "global": False, "private": rng.chance(1, 5),
                          "strings": strings, "cond": c, "id": i, "ord_index": i})
        remap = {}
        for r in rules:
            if r["ns"] not in remap:
                remap[r["ns"]] = len(remap)
            r["ns"] = remap[r["ns"]]
        rs = json.loads(json.dumps({"rules": rules, "nns": len(remap)}))
        mem = rng.choice([b"aaaaaaaa", b"abababab ab", b"zzzzzz zz", b"ab a zz a ab zz a"])
        return {"rs": rs, "mem": mem.hex(), "full": rng.chance(1, 2), "nm": rng.chance(1, 3), "cb": True,
                "ev_nomatch": rng.chance(1, 2), "imports": [], "ev_import": False, "ev_limit": True,
                "limit": rng.choice([1, 1, 2, 3]), "frag": None}

    def gen_list_pending(self, rng):
        """Loops over lists whose bodies need the string matches while the list elements are computed
        expressions: in the first evaluation pass a timeout can fire while a LATER element is being computed,
        after an earlier body has asked for the strings."""
        def elem(v):
            return rng.choice([("int", v), ("bin", "add", ("int", v), ("int", 0)), ("bin", "sub", ("bin", "add", ("int", v), ("int", 2)), ("int", 2)),
                               ("bin", "mul", ("int", v), ("int", 1)), ("bin", "add", ("bin", "mul", ("int", v), ("int", 2)), ("un", "neg", ("int", v)))])
        rules = []
        nr = rng.range(1, 3)
        for i in range(nr):
            strings = [["_a0", [97, 98]], ["_d1", [97]]]
            elems = [elem(v) for v in rng.choice([[0, 1, 2], [3, 0, 6], [0, 2], [1, 0, 3, 8]])]
            body = rng.choice([("varat", rng.below(2), ("bound", 0)), ("bin", "ge", ("count", rng.below(2)), ("bound", 0)),
                               ("or", [("bin", "eq", ("bound", 0), ("int", 0)), ("varat", 0, ("bound", 0))])])
            k = rng.choice(["any", "all", "none", "expr"])
            c = ("forlist", k, ("int", rng.choice([1, 2])) if k == "expr" else None, elems, body)
            if rng.chance(1, 3):
                c = ("or", [c, ("bool", False)])
            rules.append({"ns": 0, "name": "r%d" % i, "global": False, "private": False, "strings": strings, "cond": c,
                          "id": i, "ord_index": i})
        rs = json.loads(json.dumps({"rules": rules, "nns": 1}))
        return {"rs": rs, "mem": rng.choice([b"abcabcab a\x00\x01xx", b"ab", b"aaaaaaaa", b"xyz", b"ab zz xyz"]).hex(),
                "full": False, "nm": False, "cb": rng.chance(1, 2), "ev_nomatch": rng.chance(1, 2), "imports": [],
                "ev_import": False, "ev_limit": False, "limit": 1000, "frag": None}

    def gen_case(self, rng):
        if rng.chance(1, 12):
            return self.gen_modloop(rng)
        if rng.chance(1, 10):
            return self.gen_list_pending(rng)
        if rng.chance(1, 8):
            return self.gen_shared_atom_limit(rng)
        if rng.chance(1, 6):
            return self.gen_rich(rng)
        if rng.chance(1, 5):
            return self.gen_decidable_case(rng)
        raw = rng.chance(1, 4)
        rs = ruleset.gen_ruleset(rng, max_rules=5, depth=2, poison=30, raw_regex=40 if raw else 0)
        mem = rng.choice(ruleset.RAW_MEMS if raw else ruleset.MEMS)
        case = {"rs": rs, "mem": mem.hex(), "full": rng.chance(1, 2), "nm": rng.chance(1, 3), "cb": rng.chance(1, 2),
                "ev_nomatch": rng.chance(1, 2),
                "imports": rng.choice([[], [], ["math"], ["time", "math"], ["math", "time"]]),
                "ev_import": rng.chance(1, 2), "ev_limit": rng.chance(1, 2),
                "limit": rng.choice([1000, 1000, 1, 1, 2]), "frag": None}
        if rng.chance(1, 3) and len(mem) >= 2:
            cuts = sorted(set(rng.range(1, len(mem) - 1) for _ in range(rng.range(1, 2))))
            case["frag"] = {"mode": rng.choice(["fast", "single_pass"]), "cuts": cuts, "gap": rng.choice([0, 0, 50])}
        return case

    @staticmethod
    def regions_of(case):
        mem = bytes.fromhex(case["mem"])
        if not case.get("frag"):
            return None
        out, prev, base = [], 0, 0
        for c in case["frag"]["cuts"] + [len(mem)]:
            out.append((base, mem[prev:c]))
            base += (c - prev) + case["frag"]["gap"]
            prev = c
        return out

    def generate(self, ctx, rng, n):
        return [self.gen_case(rng.fork("c%d" % i)) for i in range(n)]

    def corpus(self, ctx):
        out = []
        d = os.path.join(core.VERIF, "corpus", self.ID)
        if os.path.isdir(d):
            for f in sorted(os.listdir(d)):
                if f.endswith(".json"):
                    out.append(core.load_case_file(os.path.join(d, f))["case"])
        return out

    def harness_case(self, case):
        if case.get("kind") == "modloop":
            ev = 1 | (2 if case["ev_nomatch"] else 0)
            mem = open(os.path.join(os.environ.get("VERIF_REPO", "/repo"), case["asset"]), "rb").read()
            return {"rules": [{"ns": None, "src": case["src"]}], "api": "callback" if case["cb"] else "list",
                    "params": {"compute_full_matches": case["full"], "include_not_matched": case["nm"], "events": ev},
                    "input": {"mem": mem.hex()}, "max_points": 120}
        if case.get("kind") == "rich":
            from . import c07
            ev = 1 | (2 if case["ev_nomatch"] else 0)
            return {"rules": c07.harness_rules(case["c07"]), "api": "callback" if case["cb"] else "list",
                    "params": {"compute_full_matches": case["full"], "include_not_matched": case["nm"], "events": ev},
                    "input": {"mem": case["mem"]}, "max_points": 80}
        ev = 1 | (2 if case["ev_nomatch"] else 0) | (4 if case.get("ev_import") else 0) | (16 if case.get("ev_limit") else 0)
        params = {"compute_full_matches": case["full"], "include_not_matched": case["nm"], "events": ev,
                  "string_max_nb_matches": case.get("limit", 1000)}
        regs = self.regions_of(case)
        if regs is None:
            inp = {"mem": case["mem"]}
        else:
            params["mode"] = case["frag"]["mode"]
            inp = {"regions": [{"start": b, "hex": m.hex()} for b, m in regs]}
        return {"rules": ruleset.harness_rules(case["rs"], case.get("imports", ())), "params": params,
                "api": "callback" if case["cb"] else "list", "input": inp, "max_points": 80}

    # each case expands into one evaluation per interruption point
    def execute(self, ctx, cases):
        outs = core.harness_run(ctx.binp, "c15", [self.harness_case(c) for c in cases])
        ctx.expanded = []
        for c, o in zip(cases, outs):
            ctx.expanded.append((c, o))
        return outs

    def term(self, ctx, case, out):
        if case.get("kind") in ("rich", "modloop"):
            return self.term_rich(ctx, case, out)
        rs = case["rs"]
        if not isinstance(out, dict) or "full" not in out:
            if isinstance(out, dict) and "compile_error" in out:
                ctx.count("compile_error")
            return (False, False, 0)
        mem = bytes.fromhex(case["mem"])
        # strings meant to be searched on their own must really be so (else the model's check count is off)
        names = [n for r in ruleset.ordered_rules(rs) for n, _ in r["strings"]]
        kinds = out.get("kinds") or []
        if any(ruleset.is_raw(n) != (k == "Raw") for n, k in zip(names, kinds)):
            ctx.count("skipped: a string is not scanned the way the generator assumes")
            return (True, True, 0)
        if any(ruleset.is_raw(n) for n in names):
            ctx.count("with strings searched on their own (no literal)")
        full = g_outcome(rs, out["full"])
        if full is None:
            return (False, False, 0)
        regs = self.regions_of(case)
        direct = regs is None
        cfg = g_cfg(case["full"], case["nm"], case["cb"], True, case["ev_nomatch"], direct=direct,
                    frag_noscan=(not direct and case["frag"]["mode"] == "fast"),
                    ev_import=case.get("ev_import", False), ev_limit=case.get("ev_limit", False))
        sc = ruleset.g_scanner(rs)
        inp = ruleset.g_inputs(rs, mem, direct=direct, regions=regs, limit=case.get("limit", 1000),
                               imports=case.get("imports", ()))
        ctx.count("input=%s" % ("direct" if direct else case["frag"]["mode"]))
        ctx.count("imports=%d limit=%s" % (len(case.get("imports", ())), case.get("limit", 1000)))
        terms = []
        for r in out["runs"]:
            o = g_outcome(rs, r["out"])
            if o is None:
                return (False, False, 0)
            it = "(AbortAt %d)" % r["at"] if r["kind"] == "abort" else "(TimeoutAt %d)" % r["at"]
            once_ok = r.get("once_same", True)
            if not once_ok:
                ctx.count("timeout firing once gives another outcome")
            terms.append("C15_case c %s sc inp full %s %s" % (it, o, gbool(r["next_ok"] and once_ok)))
            ctx.count("%s %s" % (r["kind"], "interrupted" if r["out"].get("error") else "not reached"))
        ctx.count("points", len(terms))
        if not terms:
            terms = ["C15_case c Never sc inp full full true"]
        # fold the points of one case into one triple: all corr, all spec, max kf class over failing points
        return ("(let c := %s in let sc := %s in let inp := %s in let full := %s in "
                "fold_right (fun t acc => let '(a, b, k) := t in let '(a', b', k') := acc in "
                "(a && a', b && b', if b then k' else N.max k k')) (true, true, 0) %s)"
                % (cfg, sc, inp, full, glist(terms)))

    def nontrivial(self, case, out):
        try:
            if any(r["out"].get("error") for r in out["runs"]):
                return json.dumps(case, sort_keys=True)
        except Exception:
            pass
        return None

    def sample(self, case, out):
        if case.get("kind") == "modloop":
            return {"rules": case["src"], "input": case["asset"], "config": {k: case.get(k) for k in ("full", "nm", "cb", "ev_nomatch")},
                    "points": len((out or {}).get("runs", []))}
        if case.get("kind") == "rich":
            from . import c07
            return {"rules": [(x["ns"], x["src"]) for x in c07.harness_rules(case["c07"])], "mem": case["mem"],
                    "config": {k: case.get(k) for k in ("full", "nm", "cb", "ev_nomatch")},
                    "points": len((out or {}).get("runs", []))}
        return {"rules": [(x["ns"], x["src"]) for x in ruleset.harness_rules(case["rs"], case.get("imports", ()))],
                "mem": case["mem"],
                "config": {k: case.get(k) for k in ("full", "nm", "cb", "ev_nomatch", "ev_import", "ev_limit", "limit",
                                                   "imports", "frag")},
                "impl_full": {"checks": (out or {}).get("full", {}).get("checks"),
                              "rules": [(r["name"], r["matched"]) for r in (out or {}).get("full", {}).get("rules", [])],
                              "events": [(e["ev"], e.get("rule", {}).get("name") if isinstance(e.get("rule"), dict) else e.get("module") or e.get("string"))
                                         for e in (out or {}).get("full", {}).get("events", [])]},
                "points": [(r["kind"], r["at"], r["out"].get("error"),
                            [(x["name"], x["matched"]) for x in r["out"].get("rules", [])],
                            [(e["ev"], e.get("rule", {}).get("name") if isinstance(e.get("rule"), dict) else e.get("module") or e.get("string"))
                             for e in r["out"].get("events", [])]) for r in (out or {}).get("runs", [])[:12]]}


PROP = C15()
