# C09 — scanning untrusted bytes never crashes, for any rules and modules.
#   proof (Properties/C09.v):  evaluate_ops / module expression evaluation never panic; the entry-point and
#       RVA-translation arithmetic of evaluator/entrypoint.rs, module/elf.rs::entry_point and module/pe/utils.rs never
#       panics (checked-arithmetic model), tied to the code by `kernel` cases.
#   exploration:  corpus x structure-aware mutations x module-querying rule sets x scan modes, debug build, every
#       harness shard a child process (abort / stack overflow observed as exit status); published collection sizes
#       against the translated caps.
import json, os, struct, sys
from .. import core
from ..core import gN, gZ, gbool, glist, gbytes, gopt, gpair, gstr
from ..runner import Prop
from . import _modgen as mg

sys.path.insert(0, os.path.join(core.VERIF, "translators"))
import module_types as mt   # noqa: E402

I64_MIN, I64_MAX = -(1 << 63), (1 << 63) - 1
FILE_MODULES = ["pe", "elf", "macho", "dotnet", "dex"]
ALL_MODULES = FILE_MODULES + ["math", "hash", "string", "time", "console"]
NAMES = [b"KERNEL32.dll", b"kernel32.dll", b".text", b".rsrc", b"ExitProcess", b"", b"a", b"\x00", b"OLEAUT32.dll",
         b"<init>", b"Lcom/android/tools/ir/server/AppInfo;", b"main", b"0x10", b"-1", b"9223372036854775808", b" 12",
         b"CompanyName", b"mscoree.dll", b"_CorExeMain"]
REGEXES = ["/a/", "/.*/", "/^K.*32/i", "/<\\w+>/", "/[a-z]{2,5}$/", "/\\x00/"]


def lit_int(z):
    if z == I64_MIN:
        return "(-9223372036854775807 - 1)"
    return str(z) if z >= 0 else "(%d)" % z


def lit_bytes(b):
    return '"' + "".join(chr(c) if 32 <= c < 127 and c not in (34, 92) else "\\x%02x" % c for c in b) + '"'


class Gen:
    """Random well-typed condition generator over the declared module trees and static function signatures."""

    def __init__(self, info, rng, mods, size):
        self.info, self.rng, self.mods, self.size = info, rng, mods, size
        self.used = set()
        self.vars = []          # bound identifiers: (name, type)

    def bound(self):
        r = self.rng
        return r.choice([0, 0, 1, 1, 2, 3, 7, 8, 255, 256, 4095, 4096, 65535, 65536, (1 << 31) - 1, 1 << 31,
                         (1 << 32) - 1, 1 << 32, I64_MAX, I64_MIN, -1, -2, self.size, self.size - 1, self.size + 1,
                         self.size // 2, r.below(max(1, self.size)), r.below(100000)])

    def walk(self, t, text, want):
        """random walk from type t to a primitive of kind `want` ('integer'|'bytes'|None=any); returns (text, kind)
        or None"""
        r = self.rng
        for _ in range(12):
            k = t["t"]
            if k == "object":
                fields = t["fields"]
                if not fields:
                    return None
                pool = fields
                if want and r.chance(2, 3):
                    pool = [f for f in fields if f[1]["t"] in (want, "array", "dict", "object")] or fields
                name, t2 = r.choice(pool)
                text += "." + name
                t = t2
            elif k == "array":
                c = r.below(10)
                if c < 6:
                    idx = lit_int(r.choice([0, 0, 0, 1, 1, 2, 3, 5]))
                elif c < 8:
                    idx = lit_int(self.bound())
                else:
                    idx = self.int_expr(1)
                text += "[%s]" % idx
                t = t["elem"]
            elif k == "dict":
                text += "[%s]" % (lit_bytes(r.choice(NAMES)) if r.chance(2, 3) else self.bytes_expr(0))
                t = t["elem"]
            elif k == "function":
                alt = r.choice(t["args"]) if t["args"] else []
                text += "(" + ", ".join(self.arg(a["t"], 1) for a in alt) + ")"
                t = t["ret"]
            else:
                return text, k
        return None

    def dyn(self, want):
        r = self.rng
        for _ in range(8):
            if self.vars and r.chance(1, 2):
                name, t = r.choice(self.vars)
                res = self.walk(t, name, want)
            else:
                m = r.choice(self.mods)
                self.used.add(m)
                res = self.walk({"t": "object", "fields": self.info["modules"][m]}, m, want)
            if res and (want is None or res[1] == want):
                return res[0]
        return None

    def arg(self, kind, depth):
        if kind == "integer":
            return self.int_expr(depth)
        if kind == "bytes":
            return self.bytes_expr(depth)
        if kind == "float":
            return self.float_expr(depth)
        if kind == "boolean":
            return self.bool_expr(depth)
        return self.rng.choice(REGEXES)

    def static_call(self, ret, depth):
        r = self.rng
        cands = []
        for m in ALL_MODULES:
            if m in ("console", "time") or (m in FILE_MODULES and m not in self.mods):
                continue
            for name, args, rt in self.info["static_functions"].get(m, []):
                if rt["t"] == ret:
                    cands.append((m, name, args))
        if not cands:
            return None
        m, name, args = r.choice(cands)
        self.used.add(m)
        alt = r.choice(args) if args else []
        return "%s.%s(%s)" % (m, name, ", ".join(self.arg(a["t"], depth - 1) for a in alt))

    def int_expr(self, depth):
        r = self.rng
        c = r.below(100)
        if depth <= 0 or c < 22:
            return lit_int(self.bound())
        if c < 50:
            e = self.dyn("integer")
            if e:
                return e
        if c < 70:
            e = self.static_call("integer", depth)
            if e:
                return e
        if c < 82:
            op = r.choice(["+", "-", "*", "\\", "%", "&", "|", "^", "<<", ">>"])
            return "(%s %s %s)" % (self.int_expr(depth - 1), op, self.int_expr(depth - 1))
        if c < 86:
            return "(%s%s)" % (r.choice(["-", "~"]), self.int_expr(depth - 1))
        if c < 92:
            return r.choice(["filesize", "entrypoint"])
        f = r.choice(["uint8", "uint16", "uint32", "int8", "int16", "int32", "uint16be", "uint32be", "int32be"])
        return "%s(%s)" % (f, self.int_expr(depth - 1))

    def bytes_expr(self, depth):
        r = self.rng
        c = r.below(100)
        if depth <= 0 or c < 30:
            return lit_bytes(r.choice(NAMES) if r.chance(3, 4) else r.bytes(r.below(6)))
        if c < 65:
            e = self.dyn("bytes")
            if e:
                return e
        e = self.static_call("bytes", depth)
        return e or lit_bytes(r.choice(NAMES))

    def float_expr(self, depth):
        r = self.rng
        if depth <= 0 or r.chance(1, 3):
            return r.choice(["0.0", "0.5", "3.9", "-1.5", "8.0", "100000000000000000000.0", "255.0"])
        return self.static_call("float", depth) or "0.25"

    def cmp_int(self, depth):
        return "%s %s %s" % (self.int_expr(depth), self.rng.choice(["==", "!=", "<", "<=", ">", ">="]), self.int_expr(depth - 1))

    def cmp_bytes(self, depth):
        r = self.rng
        a = self.bytes_expr(depth)
        c = r.below(8)
        if c < 3:
            return "%s %s %s" % (a, r.choice(["==", "!=", "<", ">"]), self.bytes_expr(depth - 1))
        if c < 6:
            return "%s %s %s" % (a, r.choice(["contains", "icontains", "startswith", "iendswith", "iequals"]),
                                 self.bytes_expr(depth - 1))
        return "%s matches %s" % (a, r.choice(REGEXES))

    def for_loop(self, depth):
        """for <quant> x in <module array> : ( body over x )  /  for k, v in dict  /  for i in (a..b)"""
        r = self.rng
        m = r.choice(self.mods)
        colls = []

        def find(t, text, d):
            if t["t"] == "object" and d < 3:
                for name, t2 in t["fields"]:
                    find(t2, text + "." + name, d + 1)
            elif t["t"] in ("array", "dict"):
                colls.append((text, t))
        find({"t": "object", "fields": self.info["modules"][m]}, m, 0)
        quant = r.choice(["any", "all", "none", "1", "2", "3"])
        if colls and r.chance(3, 4):
            self.used.add(m)
            text, t = r.choice(colls)
            et = t["elem"]
            # nested collections: index the outer ones
            var = "v%d" % len(self.vars)
            if t["t"] == "dict":
                self.vars.append((var, et))
                body = self.bool_expr(depth - 1)
                self.vars.pop()
                return "for %s k%s, %s in %s : (%s)" % (quant, var, var, text, body)
            self.vars.append((var, et))
            body = self.bool_expr(depth - 1) if et["t"] in ("object", "array") or r.chance(1, 2) else (
                "%s != %s" % (var, lit_int(self.bound())) if et["t"] == "integer" else "%s contains \"a\"" % var)
            self.vars.pop()
            return "for %s %s in %s : (%s)" % (quant, var, text, body)
        var = "i%d" % len(self.vars)
        # ranges are kept short: an attacker-sized range (`0..pe.number_of_symbols`) legitimately iterates for hours,
        # which is not what this property is about
        lo = r.choice([self.int_expr(1), lit_int(r.choice([0, 1, -2]))])
        hi = "%s + math.min(math.abs(%s), %d)" % (lo, self.dyn("integer") or self.int_expr(1), r.choice([3, 40, 300]))
        self.used.add("math")
        self.vars.append((var, {"t": "integer"}))
        cnt = self.dyn(None)
        body = self.bool_expr(depth - 1)
        self.vars.pop()
        # use the loop variable as a subscript where an array is at hand
        arrs = [c for c in colls if c[1]["t"] == "array"]
        if arrs:
            self.used.add(m)
            text, t = r.choice(arrs)
            res = self.walk(t["elem"], "%s[%s]" % (text, var), None)
            if res:
                body = "(%s) or defined %s" % (body, res[0])
        return "for %s %s in (%s..%s) : (%s)" % (quant, var, lo, hi, body)

    def bool_expr(self, depth):
        r = self.rng
        c = r.below(100)
        if depth <= 0:
            return self.cmp_int(0) if r.chance(1, 2) else self.cmp_bytes(0)
        if c < 30:
            return self.cmp_int(depth)
        if c < 50:
            return self.cmp_bytes(depth)
        if c < 62:
            e = self.dyn(None)
            if e:
                return "defined %s" % e
        if c < 78:
            return self.for_loop(depth)
        if c < 84:
            return "%s %s %s" % (self.float_expr(depth), r.choice(["<", ">=", "=="]), self.float_expr(depth - 1))
        if c < 90:
            return "(%s) %s (%s)" % (self.bool_expr(depth - 1), r.choice(["and", "or"]), self.bool_expr(depth - 1))
        if c < 94:
            return "not (%s)" % self.bool_expr(depth - 1)
        if c < 97:
            return "$a at %s" % self.int_expr(depth - 1)
        return "$a in (%s..%s)" % (self.int_expr(depth - 1), self.int_expr(depth - 1))


class C09(Prop):
    ID = "C09"
    LEVEL = "proof"
    LEVEL_DETAIL = "proof (module-expression, entry-point/RVA and repaired-loop kernels) + exploration (file-format modules)"
    COQ_TARGETS = ["theories/Properties/C09.vo"]
    MODEL_TARGETS = ["theories/Model/ModuleTypes.vo", "theories/Model/ModuleTrees.vo", "theories/Model/ModArgs.vo"]
    CASE_HEADER = "From Boreal Require Import Base.Prelude Base.Res Model.ModArgs."
    HARNESS_BINS = ("c09",)
    KF = {}
    RULE = ("explore cases: an asset under boreal/tests/assets (<= 800 KiB) or a byte-array constant of the integration "
            "tests (incl. the dex sample), pristine or under 1-2 seeded structure-aware mutations (header / directory / "
            "table field := boundary value or +-1, truncation at structural boundaries and random points, splice, bit "
            "flips, block fill, insert/append) or random / empty bytes, scanned in one of: contiguous; fragmented with a "
            "random layout (split, shifted base, empty and tiny regions, failing fetch, second mapping, described != "
            "fetched length); process_memory on/off; legacy / fast / single-pass fragmented modes — with 8-14 generated "
            "rules querying every module (random walks in the declared trees with boundary subscripts, every static "
            "function with boundary / module-derived arguments, integer arithmetic incl. shifts and division on module "
            "values, for-loops over published collections and ranges bounded by module counters, read-integer and "
            "string-at expressions at module offsets, hash/math over module-derived ranges).  Debug build (overflow "
            "checks, debug assertions); each shard is a child process, a dead shard is re-run case by case.  Failure: "
            "panic, abort, timeout, or a published collection larger than its translated cap.  kernel cases: PE / ELF "
            "files with the section / segment table and entry point rewritten to boundary values; `entrypoint` and "
            "pe.rva_to_offset(x) evaluated by the real code and compared with the checked-arithmetic model by coqc. "
            "Non-trivial: the scan ran, some module published values, and at least one rule matched or a kernel value "
            "was defined; distinct by (asset, edits, layout, params, rules).")
    TRUSTED = ["Coq 8.16.1 kernel + vm_compute", "harness/src/bin/c09.rs + harness/src/modval.rs",
               "vlib/props/c09.py + _modgen.py (generators; the Python PE/ELF header readers that feed the kernel model)",
               "translators/module_types.py (trees, signatures, caps)"]
    ASSUMPTIONS = ["module/{pe,elf,macho,dotnet,dex} and the object crate are not modelled: for them the property is explored "
                   "on the generated inputs only",
                   "panic-freedom theorems for the evaluator, Memory, AcScan and the validators belong to C04/C11/C01/C02; "
                   "C09 proves the module-expression and entry-point / RVA kernels",
                   "memory safety of unsafe code and of dependencies is out of scope"]

    def __init__(self):
        self.info = None
        self.assets = None
        self.cache = {}

    def translators(self, ctx):
        problems = []
        try:
            self.info = mt.translate(core.REPO)
            core.write_if_changed(os.path.join(core.COQ, "theories", "Model", "ModuleTrees.v"), mt.render(self.info))
        except mt.TranslateError as e:
            problems.append("module_types.py: %s" % e)
            self.info = None
        return problems

    def ensure(self):
        if self.info is None:
            self.info = mt.translate(core.REPO)
        if self.assets is None:
            self.assets = mg.list_assets()
            caps = {}
            for m, pth, cname, v in self.info["caps"]:
                caps[cname] = v
                caps[cname + "_" + m] = v
            self.synth_specs = mg.synth_specs(self.assets, caps) + mg.extra_synth_specs(self.assets)
            self.synth_paths = mg.build_synth(self.synth_specs)

    # ---------------------------------------------------------------- explore cases
    def gen_rules(self, rng, kind, size):
        mods = {"pe": ["pe", "dotnet"], "elf": ["elf"], "macho": ["macho"], "fat": ["macho"], "dex": ["dex"],
                "other": FILE_MODULES}[kind]
        if rng.chance(1, 5):
            mods = FILE_MODULES
        rules = []
        for i in range(rng.range(8, 14)):
            g = Gen(self.info, rng.fork("r%d" % i), mods, size)
            cond = g.bool_expr(3)
            imports = sorted(g.used | {m for m in ALL_MODULES if (m + ".") in cond})
            rule = {"tag": "r%d" % i, "imports": imports, "cond": cond}
            if "$a" in cond:
                rule["strings"] = rng.choice(['$a = { 4D 5A }', '$a = "PE"', '$a = { 7F 45 4C 46 }', '$a = /\\.te?xt/'])
            rules.append(rule)
        return rules

    def gen_explore(self, rng, asset, pristine):
        path, b, kind = asset
        edits, what, mkind = [], [], "pristine"
        if not pristine:
            mkind, edits, what = mg.mutate(rng, asset, self.assets, self.cache)
            if rng.chance(1, 4):
                k2, e2, w2 = mg.mutate(rng.fork("second"), asset, self.assets, self.cache)
                if k2 in ("field", "flip"):
                    edits, mkind, what = edits + e2, mkind + "+" + k2, what + w2
        size = len(mg.apply_edits(b, edits))
        params = {"process_memory": rng.chance(1, 2)}
        layout = None
        c = rng.below(10)
        if c >= 5:
            layout = mg.gen_layout(rng, size)
            if rng.chance(1, 3):
                # described length != fetched length (longer, shorter, zero)
                i = rng.below(len(layout))
                ln = layout[i]["len"]
                layout[i]["described"] = rng.choice([ln + 1, ln + 4096, max(0, ln - 1), ln // 2, 0, ln * 2 + 7, 1 << 40])
            params["mode"] = rng.choice(["legacy", "legacy", "fast", "single_pass"])
        if not pristine and kind in ("macho", "fat") and rng.chance(1, 3):
            # 64-bit extremes (2^64-1, 2^64 - arch_offset, 2^63, …) in LC_MAIN / LC_UNIXTHREAD / segment / fat arch fields
            m = mg.macho_extremes(rng, b)
            if m:
                mkind, what, edits = "macho-extreme", m[0], m[1]
                size = len(mg.apply_edits(b, edits))
        rules = self.gen_rules(rng, kind, size)
        # module FUNCTIONS called with arguments taken from the file (through the module's own values): where
        # attacker-controlled integers meet arithmetic
        rules += mg.call_rules(rng, kind, "c", 4 if mkind in ("macho-extreme", "entry-extreme") else 2)
        if layout is None and size > 0 and rng.chance(1, 12):
            # a region at the very top of the address space (the FragmentedMemory API accepts any start); the fetched
            # bytes may run past the end of the address space when the description is shorter
            M = (1 << 64) - 1
            k = rng.choice([0x40, 1, size // 2, size, size + 1, size + 0x1000])
            layout = [{"start": M - k, "off": 0, "len": size, "fail": False}]
            if k < size and rng.chance(1, 2):
                layout[0]["described"] = k
            params["mode"] = rng.choice(["legacy", "fast", "single_pass"])
        if "entry-extreme" in mkind or rng.chance(1, 6):
            rules.append({"tag": "e0", "imports": [], "cond": "entrypoint >= 0 or entrypoint < 0"})
            m = {"pe": "pe", "elf": "elf", "macho": "macho", "fat": "macho"}.get(kind)
            if m:
                rules.append({"tag": "e1", "imports": [m], "cond": "defined %s.entry_point%s" % (
                    m, " or defined pe.entry_point_raw or defined pe.rva_to_offset(pe.entry_point)" if m == "pe" else "")})
        if size > 0 and rng.chance(1, 5):
            # adjacent regions incl. tiny ones, legacy mode (regions can be refetched), streaming functions over ranges
            # that cross several of them
            layout = mg.gen_layout_adjacent(rng, size)
            params["mode"] = "legacy" if rng.chance(3, 4) else rng.choice(["fast", "single_pass"])
            rules = rules[:6] + mg.stream_rules(rng, layout, "s")
        return {"kind": "explore", "asset": path, "fkind": kind, "mutation": mkind, "what": what, "edits": edits,
                "layout": layout, "params": params, "rules": rules}

    def gen_random_bytes(self, rng):
        c = rng.below(5)
        if c == 0:
            data = b""
        elif c == 1:
            data = rng.bytes(rng.choice([1, 2, 63, 64, 512]))
        elif c == 2:
            data = rng.choice([b"MZ", b"\x7fELF", b"dex\n035\0", b"\xca\xfe\xba\xbe", b"\xcf\xfa\xed\xfe", b"MZ" + bytes(58) + b"\x40\0\0\0PE\0\0"]) + rng.bytes(rng.choice([0, 8, 64, 512]))
        elif c == 3:
            data = b"MZ" + bytes(58) + struct.pack("<I", rng.choice([0x40, 0xFFFFFFFF, 0x7FFFFFFF, 2, 64])) + b"PE\0\0" + rng.bytes(400)
        else:
            data = b"\x7fELF" + bytes([rng.choice([1, 2]), rng.choice([1, 2])]) + rng.bytes(200)
        size = len(data)
        params = {"process_memory": rng.chance(1, 2)}
        layout = mg.gen_layout(rng, size) if rng.chance(1, 2) else None
        rules = self.gen_rules(rng, "other", size)
        if size > 8 and rng.chance(1, 2):
            layout = mg.gen_layout_adjacent(rng, size)
            params["mode"] = "legacy"
            rules = rules[:4] + mg.stream_rules(rng, layout, "s")
        return {"kind": "explore", "base_hex": data.hex(), "fkind": "other", "mutation": "random", "what": [], "edits": [],
                "layout": layout, "params": params, "rules": rules}

    # ---------------------------------------------------------------- generation
    def generate(self, ctx, rng, n):
        self.ensure()
        cases = []
        fmt = [a for a in self.assets if a[2] != "other"]
        other = [a for a in self.assets if a[2] == "other"]
        groups = mg.group_assets(fmt)
        n_kernel = n // 4
        n_explore = n - n_kernel
        for i, a in enumerate(fmt):
            if len(cases) < n_explore // 4:
                cases.append(self.gen_explore(rng.fork("pristine%d" % i), a, True))
        # cap amplification: synthetic files around every reachable documented maximum
        for i, (name, _, m, cpath, req) in enumerate(self.synth_specs):
            pth = self.synth_paths[name]
            kind = {"pe": "pe", "dotnet": "pe", "elf": "elf", "macho": "fat" if "fat" in name else "macho"}[m]
            c = self.gen_explore(rng.fork("synth%d" % i), (pth, open(pth, "rb").read(), kind), True)
            c.update({"mutation": "synthetic", "what": [name]})
            # no nested loops over collections of tens of thousands of elements: each iteration of the outer loop
            # clones the inner collection (evaluate_ops returns value.clone()), which is quadratic and takes minutes in
            # the debug build — slow by construction of the rule, not a crash
            c["rules"] = [r for r in c["rules"] if r["cond"].count("for ") <= 1]
            cases.append(c)
        # systematic: every .NET metadata index column x boundary values (0, 1, rows-1, rows, rows+1, rows+2, max; heap
        # sizes likewise); all rows of small tables, first/last two rows of the others (all rows in the thorough tier)
        sweep_rules = [{"tag": "r0", "imports": ["dotnet"], "cond": "dotnet.number_of_classes >= 0"},
                       {"tag": "r1", "imports": ["dotnet"], "cond": "for any c in dotnet.classes : (c.number_of_methods >= 0 and c.number_of_base_types >= 0)"}]
        for a in groups.get("dotnet", []):
            for what, edit in mg.net_index_sweep(a[1], all_rows=(n > 5000)):
                cases.append({"kind": "explore", "asset": a[0], "fkind": "pe", "mutation": "dotnet-index", "what": [what],
                              "edits": [edit], "layout": None, "params": {"process_memory": False}, "rules": sweep_rules})
        # systematic: every entry-point carrying field of every Mach-O asset x extremes, with every macho function called
        # on the cpu types the file itself publishes
        for a in groups.get("macho", []):
            mrules = mg.all_call_rules(a[2]) + [{"tag": "e0", "imports": [], "cond": "entrypoint >= 0"}]
            for what, edit in mg.macho_entry_sweep(a[1]):
                cases.append({"kind": "explore", "asset": a[0], "fkind": a[2], "mutation": "macho-entry-sweep", "what": [what],
                              "edits": [edit], "layout": None, "params": {"process_memory": len(cases) % 4 == 0},
                              "rules": mrules})
        # systematic: every header field announcing a number of entries := more than the file holds (and 0)
        for a in fmt:
            if len(a[1]) > 100000 and n <= 5000:
                continue
            crules = [{"tag": "r0", "imports": FILE_MODULES, "cond": "pe.number_of_sections >= 0 or elf.number_of_sections >= 0 or "
                       "macho.ncmds >= 0 or dotnet.number_of_streams >= 0 or dex.number_of_methods >= 0"}]
            for what, edit in list(mg.count_field_sweep(a[1], a[2])) + (list(mg.truncation_sweep(a[1], a[2])) if len(a[1]) < 20000 else []):
                cases.append({"kind": "explore", "asset": a[0], "fkind": a[2], "mutation": "count-field", "what": [what],
                              "edits": [edit], "layout": None, "params": {"process_memory": False}, "rules": crules})
        # directed family: RT_VERSION entries whose declared length ends before / inside / right after the wide key and
        # around the value start, zero and maximal lengths, keys without NUL terminator
        vrules = [{"tag": "r0", "imports": ["pe"], "cond": "pe.number_of_version_infos >= 0"},
                  {"tag": "r1", "imports": ["pe"], "cond": "for any k, v in pe.version_info : (k == \"CompanyName\" or v contains \"a\")"}]
        for a in fmt:
            if a[2] != "pe" or (len(a[1]) > 100000 and n <= 5000):
                continue
            for what, edits in mg.version_string_sweep(a[1]):
                cases.append({"kind": "explore", "asset": a[0], "fkind": "pe", "mutation": "version-string", "what": [what],
                              "edits": edits, "layout": None, "params": {"process_memory": False}, "rules": vrules})
        # directed family: dex class_data_item lists (consecutive entries with extreme uleb128 index differences, flags,
        # code offsets, counts), on a minimal synthetic dex and re-encoded into the real sample
        drules = [{"tag": "r0", "imports": ["dex"], "cond": "dex.number_of_fields >= 0 or dex.number_of_methods >= 0"},
                  {"tag": "r1", "imports": ["dex"], "cond": "for any m in dex.method : (m.method_idx_diff >= 0 and dex.has_method(m.name))"},
                  {"tag": "r2", "imports": ["dex"], "cond": "for any f in dex.field : (f.field_idx_diff >= 0 and f.static >= 0)"}]
        real = [a[1] for a in self.assets if a[2] == "dex"]
        for what, data in mg.dex_class_data_family(real[0] if real else None):
            cases.append({"kind": "explore", "base_hex": data.hex(), "fkind": "dex", "mutation": "dex-class-data", "what": [what],
                          "edits": [], "layout": None, "params": {"process_memory": False}, "rules": drules})
        # systematic: every module function with an integer parameter x i64 extremes (and, for pe, the values around each
        # section's virtual / raw start and end), on a few representative assets, process_memory off and on
        reps = {}
        for a in sorted(fmt, key=lambda a: (len(a[1]), a[0])):
            g = "macho" if a[2] in ("macho", "fat") else a[2]
            if len(reps.setdefault(g, [])) < 2 and len(a[1]) > 300:
                reps[g].append(a)
        reps.setdefault("pe", []).extend([a for a in fmt if a[0].endswith("/pe/ord_and_delay.exe") or a[0].endswith("/dotnet/types.exe")])
        for g, mods in (("pe", ["pe", "math", "hash", "string"]), ("macho", ["macho"]), ("dex", ["dex"]), ("elf", ["math", "hash"])):
            for a in reps.get(g, []):
                for m in mods:
                    conds = mg.function_extreme_rules(self.info, m)
                    for k in range(0, len(conds), 12):
                        for pm in (False, True):
                            cases.append({"kind": "explore", "asset": a[0], "fkind": a[2], "mutation": "function-extremes",
                                          "what": ["%s functions %d.." % (m, k)], "edits": [], "layout": None,
                                          "params": {"process_memory": pm},
                                          "rules": [{"tag": "x%d" % j, "imports": [m], "cond": c} for j, c in enumerate(conds[k:k + 12])]})
        # extreme DATA behind aggregating functions: Rich header counts at the numeric limits, selected by the arguments
        for what, apath, bhex, edits, rrules in mg.rich_family(fmt):
            for pm in (False, True):
                c = {"kind": "explore", "fkind": "pe", "mutation": "rich-aggregate", "what": [what], "edits": edits,
                     "layout": None, "params": {"process_memory": pm}, "rules": rrules}
                c.update({"asset": apath} if apath else {"base_hex": bhex})
                cases.append(c)
        # cuts at every byte inside the version-info string tables (alone, and with the last byte set to 0)
        for a in sorted(fmt, key=lambda a: (len(a[1]), a[0])):
            if a[2] != "pe" or len(a[1]) > (30000 if n <= 5000 else 1 << 30):
                continue
            for what, edits in mg.version_table_cuts(a[1]):
                cases.append({"kind": "explore", "asset": a[0], "fkind": "pe", "mutation": "version-cut", "what": [what],
                              "edits": edits, "layout": None, "params": {"process_memory": False}, "rules": vrules})
        # nested fat headers with both values of process_memory
        for name in [x for x in self.synth_paths if "nested" in x]:
            for pm in (False, True):
                cases.append({"kind": "explore", "asset": self.synth_paths[name], "fkind": "fat", "mutation": "synthetic",
                              "what": [name], "edits": [], "layout": None, "params": {"process_memory": pm},
                              "rules": mg.all_call_rules("fat")})
        n_explore += sum(1 for c in cases if c["mutation"] in ("dotnet-index", "macho-entry-sweep", "count-field", "version-string",
                                                               "dex-class-data", "function-extremes", "rich-aggregate", "version-cut"))
        i = 0
        while len(cases) < n_explore:
            r = rng.fork("m%d" % i)
            c = r.below(20)
            if c == 0:
                cases.append(self.gen_random_bytes(r))
            elif c == 1 and other:
                cases.append(self.gen_explore(r, r.choice(other), False))
            else:
                cases.append(self.gen_explore(r, mg.pick_asset(r, groups), False))
            i += 1
        for i in range(n_kernel):
            k = self.gen_kernel(rng.fork("k%d" % i))
            if k:
                cases.append(k)
        return cases

    # ---------------------------------------------------------------- kernel cases (entry point / RVA arithmetic)
    def gen_kernel(self, rng):
        pes = [a for a in self.assets if a[2] == "pe" and mg.pe_layout(a[1])[2]]
        elfs = [a for a in self.assets if a[2] == "elf" and len(a[1]) >= 0x34]
        if rng.chance(3, 5) or not elfs:
            return self.gen_kernel_pe(rng, rng.choice(pes))
        return self.gen_kernel_elf(rng, rng.choice(elfs))

    def gen_kernel_pe(self, rng, asset):
        path, b, _ = asset
        F, _, S, _ = mg.pe_layout(b)
        nt = mg.u32(b, 0x3c)
        opt = nt + 24
        vas = [s[0] for s in S]
        near = [0, 1, 0xFFFFFFFF, 0x7FFFFFFF, 0x80000000, 0x200, 0x1FF, 0x201, len(b), len(b) - 1]
        for va, vs, raw, rs in S:
            near += [va, va - 1, va + 1, va + rs, va + rs - 1, va + vs, va + vs - 1, raw, raw + rs, rs, vs]
        targets = [(o, s, n) for o, s, n in F if n.startswith("sec") and n.split(".")[1] in ("va", "vsize", "raw", "rawsize")]
        targets += [(opt + 16, 4, "entry")] * 4 + [(opt + 36, 4, "file_alignment"), (nt + 4, 2, "machine"),
                                                   (nt + 22, 2, "characteristics")]
        edits, what = [], []
        if rng.chance(1, 3):
            # directed: the section the entry point falls in gets an extreme PointerToRawData / size (the sum
            # pointer_to_raw_data + (entry - virtual_address) must be computed without overflow)
            w, e = mg.entry_extremes(rng, b, "pe", None) or ([], [])
            edits += e
            what += w
        for _ in range(rng.choice([0, 1, 1, 2, 3, 5])):
            o, sz, n = rng.choice(targets)
            if n == "machine":
                v = rng.choice([0x14c, 0x8664, 0x1c0, 0, 0xFFFF])
            elif n == "characteristics":
                v = mg.u16(b, o) ^ rng.choice([0x2000, 0x2002, 0])
            elif n == "file_alignment":
                v = rng.choice([0, 1, 0x1FF, 0x200, 0x201, 0x1000, 0xFFFFFFFF])
            else:
                v = rng.choice(near) & 0xFFFFFFFF
            edits.append({"op": "set", "off": o, "hex": mg.enc(v, sz, False)})
            what.append(n)
        mb = mg.apply_edits(b, edits)
        S2 = mg.pe_layout(mb)[2]
        args = [0, -1, 1, 0xFFFFFFFF, 1 << 32, I64_MIN, I64_MAX, mg.u32(mb, opt + 16)]
        for va, vs, raw, rs in S2:
            args += [va, va - 1, va + rs - 1, va + rs, va + max(vs, rs) - 1, va + max(vs, rs), va + 0x1FF]
        picked = [rng.choice(args) for _ in range(8)] + [rng.below(1 << 20)]
        rules = [{"tag": "k_ispe", "imports": ["pe", "console"], "cond": 'console.log("ispe=", pe.is_pe)'},
                 {"tag": "k_ep", "imports": ["console"], "cond": 'console.log("ep=", entrypoint)'}]
        for i, a in enumerate(picked):
            rules.append({"tag": "k_rva%d" % i, "imports": ["pe", "console"],
                          "cond": 'console.log("rva%d=", pe.rva_to_offset(%s))' % (i, lit_int(a))})
        return {"kind": "kernel", "format": "pe", "asset": path, "fkind": "pe", "mutation": "kernel", "what": what,
                "edits": edits, "layout": None, "params": {"process_memory": rng.chance(1, 3)}, "rules": rules,
                "rva_args": picked}

    ELF_PH = {False: {"size": 32, "offset": (4, 4), "vaddr": (8, 4), "memsz": (20, 4)},
              True: {"size": 56, "offset": (8, 8), "vaddr": (16, 8), "memsz": (40, 8)}}
    ELF_SH = {False: {"size": 40, "type": (4, 4), "addr": (12, 4), "offset": (16, 4), "ssize": (20, 4)},
              True: {"size": 64, "type": (4, 4), "addr": (16, 8), "offset": (24, 8), "ssize": (32, 8)}}

    @staticmethod
    def elf_parse(b):
        """(is64, big_endian, e_type, e_entry, segments [(vaddr, memsz, offset)], sections [(type, addr, size, offset)],
        field offsets) — or None when the tables are not where a plain reader expects them"""
        if len(b) < 0x34 or b[:4] != b"\x7fELF" or b[4] not in (1, 2) or b[5] not in (1, 2):
            return None
        is64, be = b[4] == 2, b[5] == 2
        if is64 and len(b) < 0x40:
            return None
        rd = lambda o, s: int.from_bytes(b[o:o + s], "big" if be else "little")
        e_type = rd(16, 2)
        if is64:
            e_entry, phoff, shoff = rd(24, 8), rd(32, 8), rd(40, 8)
            phentsize, phnum, shentsize, shnum = rd(54, 2), rd(56, 2), rd(58, 2), rd(60, 2)
        else:
            e_entry, phoff, shoff = rd(24, 4), rd(28, 4), rd(32, 4)
            phentsize, phnum, shentsize, shnum = rd(42, 2), rd(44, 2), rd(46, 2), rd(48, 2)
        PH, SH = C09.ELF_PH[is64], C09.ELF_SH[is64]
        fields = [(16, 2, "e_type"), (24, 8 if is64 else 4, "e_entry"), (62 if is64 else 50, 2, "e_shstrndx")]
        segs, secs = [], []
        seg_ok = sec_ok = True
        if phoff == 0 or phnum == 0:
            seg_ok = phoff == 0 or (phnum == 0 and shoff == 0)
        elif phentsize != PH["size"] or phnum == 0xFFFF or phoff + phnum * PH["size"] > len(b):
            seg_ok = False
        else:
            for i in range(phnum):
                o = phoff + i * PH["size"]
                segs.append(tuple(rd(o + PH[k][0], PH[k][1]) for k in ("vaddr", "memsz", "offset")))
                fields += [(o + PH[k][0], PH[k][1], "ph%d.%s" % (i, k)) for k in ("vaddr", "memsz", "offset")]
        if shoff == 0:
            pass
        elif shnum == 0 or shentsize != SH["size"] or shoff + shnum * SH["size"] > len(b):
            sec_ok = False
        else:
            for i in range(shnum):
                o = shoff + i * SH["size"]
                secs.append(tuple(rd(o + SH[k][0], SH[k][1]) for k in ("type", "addr", "ssize", "offset")))
                fields += [(o + SH[k][0], SH[k][1], "sh%d.%s" % (i, k)) for k in ("type", "addr", "ssize", "offset")]
        # object's `sections()` also needs the section-name string table (FileHeader::section_strings): it fails — and
        # elf::entry_point then yields nothing for a non-ET_EXEC file — when e_shstrndx is 0 or out of range, or when the
        # string table's offset + size overflows u64 (SHT_NOBITS excepted).  SHN_XINDEX is left to "not plain".
        sections_err = False
        if secs and sec_ok:
            shstrndx = rd(62 if is64 else 50, 2)
            if shstrndx == 0xFFFF:
                sec_ok = False
            elif shstrndx == 0 or shstrndx >= len(secs):
                sections_err = True
            else:
                ty, _, ssize, soff = secs[shstrndx]
                if ty != 8 and soff + ssize >= 1 << 64:
                    sections_err = True
        return {"is64": is64, "be": be, "e_type": e_type, "e_entry": e_entry, "segs": segs,
                "secs": [] if sections_err else secs, "sections_err": sections_err,
                "seg_ok": seg_ok, "sec_ok": sec_ok, "fields": fields}

    def gen_kernel_elf(self, rng, asset):
        path, b, _ = asset
        p = self.elf_parse(b)
        edits, what = [], []
        if p:
            near = [0, 1, 0xFFFFFFFF, 0xFFFFFFFFFFFFFFFF, 0x7FFFFFFFFFFFFFFF, 0x8000000000000000, p["e_entry"],
                    p["e_entry"] + 1, p["e_entry"] - 1]
            for va, ms, off in p["segs"]:
                near += [va, va + ms, va + ms - 1, va - 1, off, ms]
            for ty, ad, sz, off in p["secs"]:
                near += [ad, ad + sz, ad + sz - 1, off, sz]
            for _ in range(rng.choice([0, 1, 1, 2, 3])):
                o, sz, n = rng.choice(p["fields"] + [p["fields"][0], p["fields"][1]] * 3)
                if n == "e_type":
                    v = rng.choice([2, 3, 1, 0, 4])
                elif n == "e_shstrndx":
                    v = rng.choice([0, 1, max(0, len(p["secs"]) - 1), len(p["secs"]), len(p["secs"]) + 1, 0xFFFF])
                elif n.endswith(".type"):
                    v = rng.choice([0, 1, 8, 3, 2])
                else:
                    v = rng.choice(near)
                edits.append({"op": "set", "off": o, "hex": mg.enc(v, sz, p["be"])})
                what.append(n)
        rules = [{"tag": "k_ep", "imports": ["console"], "cond": 'console.log("ep=", entrypoint)'},
                 {"tag": "k_mep", "imports": ["elf", "console"], "cond": 'console.log("mep=", elf.entry_point)'},
                 {"tag": "k_type", "imports": ["elf", "console"], "cond": 'console.log("type=", elf.type)'}]
        return {"kind": "kernel", "format": "elf", "asset": path, "fkind": "elf", "mutation": "kernel", "what": what,
                "edits": edits, "layout": None, "params": {"process_memory": rng.chance(1, 3)}, "rules": rules}

    @staticmethod
    def log_int(out, tag):
        for l in out["logs"]:
            if l.startswith(tag + "="):
                return int(l[len(tag) + 1:])
        return None

    def kernel_term(self, case, out):
        b = open(case["asset"], "rb").read()
        mb = mg.apply_edits(b, case["edits"])
        pm = bool(case["params"].get("process_memory"))
        if case["format"] == "pe":
            if self.log_int(out, "ispe") != 1:
                return (True, True, 0)         # not accepted as a PE by the object crate: nothing to compare
            nt = mg.u32(mb, 0x3c)
            opt = nt + 24
            nsec, szopt = mg.u16(mb, nt + 6), mg.u16(mb, nt + 20)
            secs = []
            for i in range(nsec):
                so = opt + szopt + 40 * i
                if so + 40 > len(mb):
                    return (True, True, 0)
                secs.append("{| s_va := %d; s_vsize := %d; s_raw := %d; s_rawsize := %d |}" % (
                    mg.u32(mb, so + 12), mg.u32(mb, so + 8), mg.u32(mb, so + 20), mg.u32(mb, so + 16)))
            h = ("{| h_machine := %d; h_characteristics := %d; h_entry := %d; h_file_alignment := %d; h_sections := %s |}"
                 % (mg.u16(mb, nt + 4), mg.u16(mb, nt + 22), mg.u32(mb, opt + 16), mg.u32(mb, opt + 36), glist(secs)))
            rvas = glist(gpair(gZ(a), gopt(self.log_int(out, "rva%d" % i), gN)) for i, a in enumerate(case["rva_args"]))
            return "C09_pe_case %d %s %s %s %s" % (len(mb), h, gbool(pm), gopt(self.log_int(out, "ep"), gN), rvas)
        p = self.elf_parse(mb)
        if p is None or not p["seg_ok"] or not p["sec_ok"] or self.log_int(out, "type") is None:
            return (True, True, 0)
        segs = glist("{| p_vaddr := %d; p_memsz := %d; p_offset := %d |}" % s for s in p["segs"])
        secs = glist("{| sh_type := %d; sh_addr := %d; sh_size := %d; sh_offset := %d |}" % s for s in p["secs"])
        h = "{| e_type := %d; e_entry := %d; e_segments := %s; e_sections := %s |}" % (p["e_type"], p["e_entry"], segs, secs)
        mod = "None" if pm else "(Some %s)" % gopt(self.log_int(out, "mep"), gN)
        return "C09_elf_case %s %s %s %s" % (h, gbool(pm), gopt(self.log_int(out, "ep"), gN), mod)

    def budget(self, tier):
        return 1200 if tier == "quick" else 12000

    def corpus(self, ctx):
        self.ensure()
        out = []
        d = os.path.join(core.VERIF, "corpus", "C09")
        if os.path.isdir(d):
            for f in sorted(os.listdir(d)):
                if f.endswith(".json"):
                    out.append(core.load_case_file(os.path.join(d, f))["case"])
        return out

    def extra_search(self, ctx, rng, around):
        return self.generate(ctx, rng, 300)

    # ---------------------------------------------------------------- execution
    def execute(self, ctx, cases):
        self.ensure()
        hc = []
        for c in cases:
            h = {k: c[k] for k in ("asset", "base_hex", "edits", "layout", "params") if k in c}
            h["rules"] = [dict(r) for r in c["rules"]]
            hc.append(h)
        outs = core.harness_run(ctx.binp, "c09", hc, timeout=1500)
        for c, o in zip(cases, outs):
            ctx.count("case=" + c["kind"])
            ctx.count("kind=" + c.get("fkind", "?"))
            ctx.count("mutation=" + c.get("mutation", "?"))
            lay = c.get("layout")
            ctx.count("layout=" + ("contiguous" if lay is None else "fragmented" + ("+described!=fetched" if any("described" in r for r in lay) else "")
                                   + ("+tiny adjacent regions" if any(r["tag"].startswith("s") for r in c["rules"]) else "")))
            ctx.count("process_memory=%s" % c["params"].get("process_memory"))
            if isinstance(o, dict) and "matched" in o:
                ctx.count("rules:total", len(c["rules"]))
                ctx.count("rules:rejected", len(o["rejected"]))
                ctx.count("rules:matched", len(o["matched"]))
                for m in o["lens"]:
                    ctx.count("published:" + m)
                if o.get("error"):
                    ctx.count("scan_error=" + str(o["error"]))
            elif isinstance(o, dict) and "panic" in o:
                ctx.count("PANIC")
            else:
                ctx.count("CRASH")
        return outs

    # ---------------------------------------------------------------- verdict
    def caps_problems(self, out):
        caps = {}
        for m, p, cname, v in self.info["caps"] + self.info["bytes_caps"]:
            caps[(m, ".".join(p).replace(".*", "[]"))] = (cname, v)
        problems = []
        for m, lens in out["lens"].items():
            for path, n in lens.items():
                c = caps.get((m, path))
                if c and n > c[1]:
                    problems.append("%s.%s has %d elements > %s = %d" % (m, path, n, c[0], c[1]))
        for m, p, cname, v in self.info["int_caps"]:
            x = out.get("ints", {}).get(m, {}).get(".".join(p))
            if x is not None and x > v:
                problems.append("%s.%s = %d > %s = %d" % (m, ".".join(p), x, cname, v))
        return problems

    def term(self, ctx, case, out):
        if not isinstance(out, dict) or "matched" not in out:
            case["_failure"] = out if isinstance(out, dict) else repr(out)
            return (False, False, 0)              # panic / abort / stack overflow / timeout
        problems = self.caps_problems(out)
        if problems:
            case["_failure"] = problems[:5]
            return (True, False, 0)
        if case["kind"] == "kernel":
            t = self.kernel_term(case, out)
            ctx.count("kernel:%s:%s" % (case["format"], "skipped (headers not accepted / tables not plain)" if isinstance(t, tuple)
                                        else "compared"))
            if not isinstance(t, tuple):
                ctx.count("kernel:%s:entrypoint %s" % (case["format"], "defined" if self.log_int(out, "ep") is not None else "undefined"))
            return t
        return (True, True, 0)

    def nontrivial(self, case, out):
        if not isinstance(out, dict) or "matched" not in out:
            return None
        if out["lens"] and (out["matched"] or out["logs"]):
            return json.dumps([case.get("asset"), case.get("base_hex"), case["edits"], case["layout"], case["params"],
                               [r["cond"] for r in case["rules"]]], sort_keys=True)
        return None

    def sample(self, case, out):
        o = out or {}
        return {"case": {k: case.get(k) for k in ("kind", "asset", "mutation", "what", "edits", "layout", "params")},
                "rules": [r["cond"] for r in case["rules"]][:6],
                "result": {k: o.get(k) for k in ("error", "matched", "rejected", "ms", "size", "panic", "crash")}}


PROP = C09()
