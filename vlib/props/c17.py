# C17 — module values match their declared types and are self-consistent.
#   proof:        consumer side (typechecks / evaluate_ops soundness w.r.t. conforms) — Properties/C17.v
#   exploration:  the premise "what a module publishes conforms": dumps of ScanResult.modules[*].dynamic_values for
#                 pristine and mutated executables x process_memory x layouts, evaluated by coqc against the type
#                 trees regenerated from the source (Model/ModuleTrees.v); counters, caps, idempotence.
#   correspondence: probe expressions compiled by the real compiler and evaluated by the real evaluator vs
#                 typechecks / model_evaluate_ops on the dumped value; translated trees vs the running code's
#                 get_dynamic_types().
import json, os, sys
from .. import core
from ..core import gN, gZ, gbool, glist, gbytes, gopt, gpair, gstr
from ..runner import Prop
from . import _modgen as mg

sys.path.insert(0, os.path.join(core.VERIF, "translators"))
import module_types as mt   # noqa: E402

FILE_MODULES = ["pe", "elf", "macho", "dotnet", "dex"]
KIND_MODULES = {"pe": ["pe", "dotnet"], "elf": ["elf"], "macho": ["macho"], "fat": ["macho"], "dex": ["dex"],
                "other": FILE_MODULES}
DICT_KEYS = [b"CompanyName", b"FileVersion", b"ProductName", b"InternalName", b"OriginalFilename", b"LegalCopyright",
             b"FileDescription", b"ProductVersion", b"Comments", b"", b"companyname", b"\x00"]
I64_MIN, I64_MAX = -(1 << 63), (1 << 63) - 1


def canon_type(t):
    if t["t"] == "object":
        return {"t": "object", "fields": sorted([[k, canon_type(v)] for k, v in t["fields"]])}
    if t["t"] in ("array", "dict"):
        return {"t": t["t"], "elem": canon_type(t["elem"])}
    if t["t"] == "function":
        return {"t": "function", "args": [[canon_type(a) for a in alt] for alt in t["args"]], "ret": canon_type(t["ret"])}
    return {"t": t["t"]}


def lit_int(z):
    if z == I64_MIN:
        return "(-9223372036854775807 - 1)"
    return str(z) if z >= 0 else "(%d)" % z


def lit_bytes(b):
    return '"' + "".join(chr(c) if 32 <= c < 127 and c not in (34, 92) else "\\x%02x" % c for c in b) + '"'


def unescape_default(s):
    """inverse of std::ascii::escape_default applied bytewise"""
    out, i = bytearray(), 0
    while i < len(s):
        c = s[i]
        if c != "\\":
            out.append(ord(c))
            i += 1
            continue
        n = s[i + 1]
        if n == "x":
            out.append(int(s[i + 2:i + 4], 16))
            i += 4
        else:
            out.append({"t": 9, "r": 13, "n": 10, "'": 39, '"': 34, "\\": 92}[n])
            i += 2
    return bytes(out)


class C17(Prop):
    ID = "C17"
    LEVEL = "proof"
    LEVEL_DETAIL = "proof (consumer side: type check sound w.r.t. evaluation; regenerated trees well-formed) + exploration (premise: published values conform, counters, caps, idempotence)"
    COQ_TARGETS = ["theories/Properties/C17.vo"]
    MODEL_TARGETS = ["theories/Model/ModuleTypes.vo", "theories/Model/ModuleTrees.vo", "theories/Model/ModuleTypesCase.vo"]
    CASE_HEADER = ("From Coq Require Import String.\nFrom Boreal Require Import Base.Prelude Base.Res Model.ModuleTypes "
                   "Model.ModuleTrees Model.ModuleTypesCase.\nLocal Open Scope string_scope.")
    HARNESS_BINS = ("c17",)
    KF = {}
    RULE = ("every executable under boreal/tests/assets (<= 800 KiB) and every byte-array constant of "
            "tests/it/libyara_compat/util.rs (the only dex sample lives there), pristine and under one seeded "
            "structure-aware mutation (header / directory / table field := boundary value or +-1, truncation at a "
            "structural boundary or random point, splice of another asset, bit flips, block fill, insert/append), "
            "scanned with process_memory in {false,true}, contiguous or as a fragmented layout (split / shifted base / "
            "empty region / failing fetch / second mapping), twice.  Per case the pruned value tree of each file-format "
            "module is checked by coqc: conforms(tree regenerated from the source), counter = collection size, caps; "
            "the full tree is checked in the harness against the running code's get_dynamic_types(); the two scans "
            "must give identical complete dumps.  6-10 probe expressions per case (random walks in the declared tree "
            "with in-range / boundary / negative / huge subscripts, dictionary keys, function calls, and ill-typed "
            "variants) are compiled and evaluated by the real code and compared with typechecks / model_evaluate_ops. "
            "Non-trivial: some module published more than its is_* flag and at least one probe evaluated to a defined "
            "value; distinct by (asset, edits, process_memory, layout).")
    TRUSTED = ["Coq 8.16.1 kernel + vm_compute", "harness/src/bin/c17.rs + harness/src/modval.rs (dump, pruning, hash)",
               "vlib/props/c17.py + _modgen.py (case generation, Gallina printer, console.log parsing)",
               "translators/module_types.py (type trees, counter pairs, caps; cross-checked against the running "
               "code's get_dynamic_types() on every run)",
               "boreal's console module (used to observe evaluated values)"]
    ASSUMPTIONS = ["the producers (module/{pe,elf,macho,dotnet,dex}.rs over the object crate) are not modelled: that what "
                   "they publish conforms is explored on the corpus, not proved",
                   "which collection each MAX_* constant bounds and which `number_of_*` fields are counters of published "
                   "collections (rather than raw header fields) is a hand-written table in translators/module_types.py",
                   "results of functions published inside dynamic values (pe.rich_signature.version/toolid, "
                   "pe.signatures[i].valid_on) are only checked for their type"]

    def __init__(self):
        self.info = None
        self.assets = None
        self.cache = {}

    # ---------------------------------------------------------------- translators
    def translators(self, ctx):
        problems = []
        try:
            self.info = mt.translate(core.REPO)
            core.write_if_changed(os.path.join(core.COQ, "theories", "Model", "ModuleTrees.v"), mt.render(self.info))
        except mt.TranslateError as e:
            problems.append("module_types.py: %s" % e)
            self.info = None
        return problems

    def ensure(self):
        if self.info is None:
            self.info = mt.translate(core.REPO)
        if self.assets is None:
            self.assets = mg.list_assets()
            caps = {}
            for m, pth, cname, v in self.info["caps"]:
                caps[cname] = v
                caps[cname + "_" + m] = v
            self.synth_specs = mg.synth_specs(self.assets, caps) + mg.extra_synth_specs(self.assets)
            self.synth_paths = mg.build_synth(self.synth_specs)

    # ---------------------------------------------------------------- probes
    def tree(self, module):
        return {"t": "object", "fields": self.info["modules"][module]}

    def gen_probe(self, rng, module, keep):
        """A random walk in the declared tree.  Returns {"module","path":[step..],"rule":text}; steps:
        ["f",name] | ["i",int,etype] | ["k",hexbytes,etype] | ["c",[[kind,value]..]] ; ill-typed variants included."""
        t = self.tree(module)
        text = module
        path = []
        bad = rng.chance(1, 4)            # inject one ill-typed step somewhere
        bad_at = rng.below(4)
        depth = 0
        while True:
            inject = bad and depth == bad_at
            k = t["t"]
            if k == "object":
                fields = t["fields"]
                if not fields:
                    break
                if inject:
                    c = rng.below(3)
                    if c == 0:
                        name = rng.choice(fields)[0] + "_zz"
                        path.append(["f", name]); text += "." + name
                    elif c == 1:
                        path.append(["i", 0, "int"]); text += "[0]"
                    else:
                        path.append(["c", []]); text += "()"
                    break
                # prefer collections and nested objects, they are where the structure is
                heavy = [f for f in fields if f[1]["t"] in ("array", "dict", "object")]
                name, t2 = rng.choice(heavy) if heavy and rng.chance(3, 5) else rng.choice(fields)
                path.append(["f", name]); text += "." + name
                t = t2
            elif k == "array":
                if inject:
                    c = rng.below(3)
                    if c == 0:
                        path.append(["k", b"0".hex(), "bytes"]); text += '["0"]'
                    elif c == 1:
                        path.append(["f", "length"]); text += ".length"
                    else:
                        break          # use the array itself as an expression
                    if c < 2:
                        break
                idx = rng.choice([0, 0, 0, 1, 1, 2, keep - 1, keep, keep + 1, 7, 100, 65535, 65536, 1 << 31, 1 << 32,
                                  I64_MAX, -1, -2, I64_MIN, rng.below(6)])
                path.append(["i", idx, "int"]); text += "[%s]" % lit_int(idx)
                t = t["elem"]
            elif k == "dict":
                if inject:
                    path.append(["i", 0, "int"]); text += "[0]"
                    break
                key = rng.choice(DICT_KEYS) if not rng.chance(1, 6) else rng.bytes(rng.range(1, 6))
                path.append(["k", key.hex(), "bytes"]); text += "[%s]" % lit_bytes(key)
                t = t["elem"]
            elif k == "function":
                alts = t["args"]
                if inject or not alts:
                    args = [["int", 1], ["int", 2], ["int", 3]] if alts else []
                    if not alts and inject:
                        args = [["int", 1]]
                else:
                    alt = rng.choice(alts)
                    args = []
                    for a in alt:
                        if a["t"] == "integer":
                            args.append(["int", rng.choice([0, 1, 3, 255, 256, 65535, -1, I64_MAX, I64_MIN, 1 << 40, rng.below(300)])])
                        elif a["t"] == "bytes":
                            args.append(["bytes", rng.bytes(rng.below(5)).hex()])
                        elif a["t"] == "float":
                            args.append(["float", 1.5])
                        elif a["t"] == "boolean":
                            args.append(["bool", True])
                        else:
                            args.append(["regex", "a"])
                path.append(["c", args])
                text += "(" + ", ".join(self.lit_arg(a) for a in args) + ")"
                t = t["ret"]
                if inject:
                    break
            else:
                if inject:
                    c = rng.below(3)
                    if c == 0:
                        path.append(["f", "x"]); text += ".x"
                    elif c == 1:
                        path.append(["i", 0, "int"]); text += "[0]"
                    else:
                        path.append(["c", []]); text += "()"
                break
            depth += 1
        return {"module": module, "path": path, "text": text}

    @staticmethod
    def lit_arg(a):
        k, v = a
        if k == "int":
            return lit_int(v)
        if k == "bytes":
            return lit_bytes(bytes.fromhex(v))
        if k == "float":
            return repr(float(v))
        if k == "bool":
            return "true" if v else "false"
        return "/%s/" % v

    # ---------------------------------------------------------------- generation
    def gen_case(self, rng, asset, pristine):
        path, b, kind = asset
        if pristine:
            mkind, edits, what = "pristine", [], []
        else:
            mkind, edits, what = mg.mutate(rng, asset, self.assets, self.cache)
        pm = rng.chance(1, 2)
        layout = None
        if rng.chance(1, 4):
            size = len(mg.apply_edits(b, edits))
            layout = mg.gen_layout(rng, size)
        keep = rng.choice([2, 3, 3, 4, 8])
        # the same bytes are scanned again at other alignments (address of the first byte modulo 16)
        shifts = [1, 2, 3, 4, 5, 6, 7] if (pristine and "/pe/signed/" in path) else (
            [rng.range(1, 15)] if pristine else [rng.range(1, 15), rng.range(1, 7)])
        mods = KIND_MODULES[kind]
        if rng.chance(1, 6):
            mods = FILE_MODULES
        probes = []
        for i in range(rng.range(6, 10)):
            m = rng.choice(mods)
            p = self.gen_probe(rng.fork("p%d" % i), m, keep)
            p["tag"] = "p%d" % i
            probes.append(p)
        fn_args = [[["int", 0]], [["int", 1]], [["int", 1500000000]], [["int", 0], ["int", 0]], [["int", 1], ["int", 2]]]
        for p in probes:
            for s in p["path"]:
                if s[0] == "c" and s[1] not in fn_args and all(a[0] in ("int", "bytes") for a in s[1]):
                    fn_args.append(s[1])
        # user data through the public API (Scanner::set_module_data): pe.is_signed is then taken from PeData; the
        # console callback can be overridden per scan.  The published value must still have its declared type and a
        # rule must be able to consume it as such.
        user_data = {}
        if kind in ("pe", "other") and rng.chance(1, 2) or (pristine and "/pe/" in path):
            c = rng.below(5)
            if c < 4:
                user_data["pe_is_signed"] = c % 2 == 0
            else:
                user_data["pe_is_signed_none"] = True
            for k, (txt, pth) in enumerate([("pe.is_signed", [["f", "is_signed"]]),
                                            ("pe.number_of_signatures", [["f", "number_of_signatures"]])]):
                probes.append({"module": "pe", "path": pth, "text": txt, "tag": "u%d" % k})
        if rng.chance(1, 3):
            user_data["console_override"] = True
        return {"asset": path, "kind": kind, "mutation": mkind, "fn_args": fn_args, "user_data": user_data, "what": what, "edits": edits, "process_memory": pm,
                "layout": layout, "modules": FILE_MODULES, "probes": probes, "keep": keep, "keep_dict": 64,
                "keep_bytes": 24, "shifts": shifts}

    STATIC_SAMPLES = {"integer": ["0", "1", "7", "4096", "16777223", "(-1)", "9223372036854775807"],
                      "bytes": ['"KERNEL32.dll"', '".text"', '"ExitProcess"', '"12"', '"<init>"',
                                '"Lcom/android/tools/ir/server/AppInfo;"', '""'],
                      "float": ["0.5", "2.0"], "boolean": ["true", "false"], "regex": ["/.*/", "/K.*/"]}

    def gen_static_cases(self, rng):
        """every static function of every module, each accepted argument list, sample arguments: the value a rule
        gets must be of the declared return kind (observed through console.log: a defined value that cannot be logged
        is a boolean / regex where an integer, float or byte string is declared)"""
        by_kind = {}
        for a in self.assets:
            by_kind.setdefault(a[2], []).append(a)
        pick = lambda k: sorted(by_kind[k], key=lambda a: -len(a[1]))[0][0]
        target = {"pe": pick("pe"), "elf": pick("elf"), "macho": pick("fat"), "dex": pick("dex")}
        cases = []
        for m, _ in mt.MODULES:
            if m == "console":
                continue
            probes = []
            for name, args, ret in self.info["static_functions"][m]:
                if ret["t"] not in ("integer", "bytes", "float"):
                    continue
                for alt in (args or [[]]):
                    for k in range(3):
                        vals = [rng.choice(self.STATIC_SAMPLES[a["t"]]) for a in alt]
                        use = "%s.%s(%s)" % (m, name, ", ".join(vals))
                        probes.append({"tag": "s%d" % len(probes), "module": m, "text": use, "ret": ret["t"]})
                        if not alt:
                            break
            if probes:
                cases.append({"op": "static", "asset": target.get(m, target["pe"]), "edits": [], "process_memory": False,
                              "layout": None, "modules": ["pe"], "probes": probes, "keep": 1, "keep_dict": 1,
                              "keep_bytes": 4, "fn_args": [], "kind": "static", "mutation": "pristine"})
        return cases

    def generate(self, ctx, rng, n):
        self.ensure()
        cases = [{"op": "types"}] + self.gen_static_cases(rng.fork("static"))
        fmt = [a for a in self.assets if a[2] != "other"]
        other = [a for a in self.assets if a[2] == "other"]
        groups = mg.group_assets(fmt)
        # every formatted asset pristine once (both process_memory values alternate through the rng)
        for i, a in enumerate(fmt):
            cases.append(self.gen_case(rng.fork("pristine%d" % i), a, True))
        # cap amplification: synthetic files around every reachable documented maximum
        for i, (name, _, m, cpath, req) in enumerate(self.synth_specs):
            pth = self.synth_paths[name]
            kind = {"pe": "pe", "dotnet": "pe", "elf": "elf", "macho": "fat" if "fat" in name else "macho"}[m]
            c = self.gen_case(rng.fork("synth%d" % i), (pth, open(pth, "rb").read(), kind), True)
            c.update({"mutation": "synthetic", "what": [name], "shifts": [3], "layout": None})
            cases.append(c)
            if "nested" in name:
                # nested fat headers: both values of process_memory
                for pm in (False, True):
                    c2 = json.loads(json.dumps(c))
                    c2["process_memory"] = pm
                    cases.append(c2)
        # systematic: every header field that announces how many entries a table has := more than the file holds (and 0);
        # the published counters must still equal the published collections.  Light cases: no probes, one scan pair.
        n_sweep = 0
        for g, l in sorted(groups.items()):
            sel = sorted(l, key=lambda a: (len(a[1]), a[0]))
            for a in (sel if g == "dotnet" or n > 1000 else sel[:4]):
                sweep = list(mg.count_field_sweep(a[1], a[2]))
                if g == "dex" or n > 1000 or a is sel[0]:
                    # systematic truncations (structural boundaries, the tail, inside the dex map list); light
                    # (boundaries only, smallest asset of the group) outside dex in the quick tier
                    sweep += [(w, e) for w, e in mg.truncation_sweep(a[1], a[2], light=(g != "dex" and n <= 1000))]
                for what, edit in sweep:
                    cases.append({"asset": a[0], "kind": a[2], "mutation": "truncation" if edit["op"] == "trunc" else "count-field",
                                  "what": [what], "edits": [edit],
                                  "process_memory": False, "layout": None, "modules": FILE_MODULES, "probes": [], "keep": 2,
                                  "keep_dict": 8, "keep_bytes": 8, "fn_args": [], "shifts": [], "user_data": {}})
                    n_sweep += 1
        n += n_sweep
        i = 0
        while len(cases) < n:
            r = rng.fork("m%d" % i)
            a = mg.pick_asset(r, groups) if not r.chance(1, 12) else r.choice(other)
            cases.append(self.gen_case(r, a, False))
            i += 1
        return cases

    def budget(self, tier):
        return 400 if tier == "quick" else 6000

    def corpus(self, ctx):
        self.ensure()
        out = []
        d = os.path.join(core.VERIF, "corpus", "C17")
        if os.path.isdir(d):
            for f in sorted(os.listdir(d)):
                if f.endswith(".json"):
                    out.append(core.load_case_file(os.path.join(d, f))["case"])
        return out

    def extra_search(self, ctx, rng, around):
        return self.generate(ctx, rng, 300)[1:]

    # ---------------------------------------------------------------- execution
    def execute(self, ctx, cases):
        self.ensure()
        hc = []
        for c in cases:
            if c.get("op") == "types":
                hc.append(c)
                continue
            h = {k: c[k] for k in ("asset", "edits", "process_memory", "layout", "modules", "keep", "keep_dict", "keep_bytes")}
            h["shifts"] = c.get("shifts", [])
            h["user_data"] = c.get("user_data", {})
            h["op"] = "scan"
            h["probes"] = [{"tag": p["tag"], "imports": [p["module"]], "use": p["text"],
                            "rule": 'console.log("%s=", %s)' % (p["tag"], p["text"])} for p in c["probes"]]
            h["fn_args"] = c.get("fn_args", [])
            hc.append(h)
        outs = core.harness_run(ctx.binp, "c17", hc, timeout=1200)
        for c, o in zip(cases, outs):
            if c.get("op") == "types" or not isinstance(o, dict) or "dumps" not in o:
                continue
            if c.get("op") == "static":
                ctx.count("static function probes", len(c["probes"]))
                ctx.count("static function probes defined", sum(1 for po in o["probes"] if po.get("defined")))
                continue
            ctx.count("kind=" + c["kind"])
            ctx.count("mutation=" + c["mutation"])
            ctx.count("process_memory=%s" % c["process_memory"])
            for k, v in sorted(c.get("user_data", {}).items()):
                ctx.count("user_data:%s=%s" % (k, v))
            ctx.count("layout=" + ("contiguous" if c["layout"] is None else "%d regions" % len(c["layout"])))
            for m, d in o["dumps"].items():
                if len(d.get("o", [])) > 1:
                    ctx.count("published:" + m)
            for p, po in zip(c["probes"], o["probes"]):
                ctx.count("probe:" + ("rejected" if not po["compiled"] else "defined" if po.get("logs") else
                                      "defined-unloggable" if po.get("defined") else "undefined"))
        return outs

    # ---------------------------------------------------------------- Coq term
    def g_dump(self, d):
        if d == "undef":
            return "DUndefined"
        if "fn" in d:
            return "(DFunction %s)" % glist(
                gpair(glist(self.g_prim(a[0], a[1]) for a in args), gopt(r, self.g_dump)) for args, r in d["fn"])
        if d == "re":
            return "DRegex"
        if "i" in d:
            return "(DInteger %s)" % gZ(d["i"])
        if "f" in d:
            return "(DFloat %s)" % d["f"]
        if "b" in d:
            return "(DBytes %d %s)" % (d["b"][0], gbytes(bytes.fromhex(d["b"][1])))
        if "bool" in d:
            return "(DBoolean %s)" % gbool(d["bool"])
        if "o" in d:
            return "(DObject %s)" % glist(gpair(gstr(k), self.g_dump(v)) for k, v in d["o"])
        if "a" in d:
            return "(DArray %d %s)" % (d["a"][0], glist(self.g_dump(v) for v in d["a"][1]))
        if "d" in d:
            return "(DDict %d %s)" % (d["d"][0], glist(gpair(gbytes(bytes.fromhex(k)), self.g_dump(v)) for k, v in d["d"][1]))
        raise ValueError("bad dump node %r" % (d,))

    ETY = {"int": "EInteger", "bytes": "EBytes", "float": "EFloat", "bool": "EBoolean", "regex": "ERegex"}

    def g_prim(self, kind, v):
        if kind == "int":
            return "(PInteger %s)" % gZ(v)
        if kind == "bytes":
            return "(PBytes %s)" % gbytes(bytes.fromhex(v))
        if kind == "float":
            import struct
            return "(PFloat %d)" % struct.unpack("<Q", struct.pack("<d", float(v)))[0]
        if kind == "bool":
            return "(PBoolean %s)" % gbool(v)
        return "(PRegex 0)"

    def declared_type(self, module, path):
        """type reached in the translated tree (Python mirror used only to *parse* the console.log text)"""
        t = self.tree(module)
        for s in path:
            if s[0] == "f":
                if t["t"] != "object":
                    return None
                d = dict((k, v) for k, v in t["fields"])
                if s[1] not in d:
                    return None
                t = d[s[1]]
            elif s[0] in ("i", "k"):
                if t["t"] not in ("array", "dict"):
                    return None
                t = t["elem"]
            else:
                if t["t"] != "function":
                    return None
                t = t["ret"]
        return t

    def g_probe(self, p, po, keep_bytes):
        path, exprs = [], []
        for s in p["path"]:
            if s[0] == "f":
                path.append("TopSubfield %s" % gstr(s[1]))
            elif s[0] == "i":
                path.append("TopSubscript EInteger")
                exprs.append(self.g_prim("int", s[1]))
            elif s[0] == "k":
                path.append("TopSubscript EBytes")
                exprs.append(self.g_prim("bytes", s[1]))
            else:
                path.append("TopCall %s" % glist(self.ETY[a[0]] for a in s[1]))
                exprs += [self.g_prim(a[0], a[1]) for a in s[1]]
        obs = "None"
        logs = po.get("logs") or []
        if logs:
            t = self.declared_type(p["module"], p["path"])
            txt = logs[0]
            if t is not None and t["t"] == "integer":
                obs = "(Some (PInteger %s))" % gZ(int(txt))
            elif t is not None and t["t"] == "bytes":
                obs = "(Some (PBytes %s))" % gbytes(unescape_default(txt)[:keep_bytes])
            else:
                obs = "(Some (PRegex 1))"     # something was logged where the declared type is not loggable
        elif po.get("defined"):
            obs = "(Some (PRegex 1))"         # defined, but console.log could not print it (boolean / regex)
        return gpair(gstr(p["module"]), "{| p_path := %s; p_exprs := %s; p_compiled := %s; p_observed := %s |}" % (
            glist(path), glist(exprs), gbool(po["compiled"]), obs))

    def py_checks(self, case, out):
        """full-tree checks done outside Coq: harness-side conformance against the running code's types, caps on the
        complete trees, idempotence (hashes of the complete dumps, matched rules, logs)"""
        problems = []
        for m, p in out["nonconf"].items():
            if p is not None:
                problems.append("nonconforming value at %s" % p)
        if out["hash1"] != out["hash2"] or not out["same_rules"] or not out["same_logs"] or out["error"] != out["error2"]:
            problems.append("second scan differs")
        if out.get("shift_diff"):
            problems.append("scanning the same bytes at another alignment gives different results: %s vs %s" % (
                json.dumps(out["hash1"])[:120], json.dumps(out["hash_shifts"])[:200]))
        caps = {}
        for m, p, cname, v in self.info["caps"] + self.info["bytes_caps"]:
            caps[(m, ".".join(p).replace(".*", "[]"))] = (cname, v)
        for m, lens in out["lens"].items():
            for path, n in lens.items():
                c = caps.get((m, path))
                if c and n > c[1]:
                    problems.append("%s.%s has %d elements > %s = %d" % (m, path, n, c[0], c[1]))
        return problems

    def term(self, ctx, case, out):
        if case.get("op") == "types":
            if not isinstance(out, dict) or "types" not in out:
                return (False, False, 0)
            ok = True
            for m, t in out["types"].items():
                tr = canon_type({"t": "object", "fields": self.info["modules"].get(m, [])})
                if tr != canon_type(t):
                    ok = False
                    ctx.notes.append("translated tree of module %s differs from get_dynamic_types() of the running code" % m)
            for m, _ in mt.MODULES:
                if m not in out["types"]:
                    ok = False
            return (ok, True, 0)
        if not isinstance(out, dict) or "dumps" not in out:
            return (False, False, 0)       # crash / panic while scanning
        if case.get("op") == "static":
            rejected = [p["text"] for p, po in zip(case["probes"], out["probes"]) if not po["compiled"]]
            wrong = [p["text"] for p, po in zip(case["probes"], out["probes"])
                     if po["compiled"] and po.get("defined") and not po.get("logs")]
            if rejected or wrong:
                case["_problems"] = {"rejected by the compiler although the declared signature accepts it": rejected[:5],
                                     "defined but not of the declared (loggable) kind": wrong[:5]}
            return (not rejected, not wrong, 0)
        problems = self.py_checks(case, out)
        if problems:
            case["_problems"] = problems[:5]
        dumps = glist(gpair(gstr(m), self.g_dump(d)) for m, d in sorted(out["dumps"].items()))
        probes = glist(self.g_probe(p, po, case["keep_bytes"]) for p, po in zip(case["probes"], out["probes"]))
        return "C17_case %s %s %s" % (dumps, probes, gbool(not problems))

    def nontrivial(self, case, out):
        if case.get("op") == "static":
            return json.dumps([p["text"] for p in case["probes"]]) if isinstance(out, dict) and any(
                po.get("defined") for po in out.get("probes", [])) else None
        if case.get("op") == "types" or not isinstance(out, dict) or "dumps" not in out:
            return None
        published = any(len(d.get("o", [])) > 1 for d in out["dumps"].values())
        defined = any(po.get("logs") for po in out["probes"])
        if published and (defined or not case["probes"]):
            return json.dumps([case["asset"], case["edits"], case["process_memory"], case["layout"]], sort_keys=True)
        return None

    def sample(self, case, out):
        if case.get("op") == "static":
            return {"static": [[p["text"], po.get("compiled"), po.get("defined"), (po.get("logs") or [None])[0]]
                               for p, po in zip(case["probes"], (out or {}).get("probes", []))][:8]}
        if case.get("op") == "types":
            return {"case": case, "modules": sorted((out or {}).get("types", {}))}
        o = out or {}
        return {"case": {k: case[k] for k in ("asset", "mutation", "what", "edits", "process_memory", "layout")},
                "probes": [[p["text"], po.get("compiled"), (po.get("logs") or [None])[0]]
                           for p, po in zip(case["probes"], o.get("probes", []))],
                "nodes": o.get("nodes"), "published": sorted(m for m, d in o.get("dumps", {}).items() if len(d.get("o", [])) > 1)}


PROP = C17()
