# C12 — a rule's result does not depend on unrelated rules compiled with it.
import json, os, re
from .. import core
from ..core import gN, gbool, glist, gbytes, gopt, gpair
from ..runner import Prop
from .c01 import decl_yara, g_decl, g_smatch, g_prm, string_matches, encodings, gen_decl, gen_text, widen, ALNUM

CONDS = ["any of them", "all of them", "#s0 > 1", "$s0 at 0", "$s0 in (1..20)", "not $s0", "#s0 == 2 or @s0[1] > 3",
         "true", "for any of them : ( # > 1 )", "!s0[1] == 4", '"QQ" != "AB"', '"AB" == "AB" and #s0 >= 0',
         '"AB" contains "A"']

# texts the compiler must refuse AFTER interning something new (string names, byte literals, meta keys) that the
# accepted rules use as well; the error is ignored and the same compiler is used further (harness: expect_error)
REFUSED = ['rule bad_lit { condition: "AB" == nope_undefined }',
           'rule bad_lit2 { condition: "QQ" == nope_undefined or "AB" == "QQ" }',
           'rule bad_names { strings: $s0 = "r0" $s1 = "r1" $s2 = "r2" condition: nope_undefined }',
           'rule bad_meta { meta: s1 = 1 s0 = "AB" condition: nope_undefined }',
           'rule bad_ref { strings: $refstr = "refstr" condition: $refstr and nope_undefined }']


def plain_decl(text, **kw):
    d = {"text": text.hex(), "ascii": False, "wide": False, "nocase": False, "fullword": False, "xor": None,
         "b64": None}
    d.update(kw)
    return d


def collide(rng, d):
    """a declaration built to share atoms / literals with d"""
    text = bytes.fromhex(d["text"])
    if len(text) <= 3 and rng.chance(1, 2):
        # atom X (1-3 bytes) next to NUL*.X (<= 4 bytes): different patterns of the automaton
        return plain_decl(b"\x00" * rng.range(1, 4 - len(text)) + text, nocase=rng.chance(1, 3))
    if text[:1] == b"\x00" and text.lstrip(b"\x00") and rng.chance(1, 2):
        return plain_decl(text.lstrip(b"\x00"), nocase=rng.chance(1, 3))
    k = rng.below(10)
    if k == 0:      # the same string again
        return dict(d)
    if k == 1:      # same text, other modifiers
        return plain_decl(text, ascii=rng.chance(1, 2), wide=rng.chance(1, 2), nocase=rng.chance(1, 2),
                          fullword=rng.chance(1, 2))
    if k == 2:      # case variant (same lower-cased atoms)
        return plain_decl(bytes(c ^ 0x20 if chr(c).isalpha() and c < 128 else c for c in text),
                          nocase=rng.chance(1, 2))
    if k == 3:      # prefix
        return plain_decl(text[:max(1, len(text) - rng.range(1, 3))], nocase=rng.chance(1, 3))
    if k == 4:      # suffix
        return plain_decl(text[min(len(text) - 1, rng.range(1, 3)):], nocase=rng.chance(1, 3))
    if k == 5:      # the same atom at another literal offset
        return plain_decl(rng.bytes(rng.range(1, 3), ALNUM) + text, wide=rng.chance(1, 3), ascii=True)
    if k == 6:
        ext = rng.choice([rng.bytes(rng.range(1, 3), ALNUM), b"\x00\x00\x00\x00", b"\x00", rng.bytes(4, ALNUM)])
        return plain_decl(text + ext, fullword=rng.chance(1, 3))
    if k == 7:      # an encoding of d as a plain string (collides with xor / wide / base64 literals)
        e, _ = rng.choice(encodings(d) or [(text, False)])
        return plain_decl(e[:40] if e else text)
    if k == 8:      # xor range over the same text
        lo = rng.below(4)
        return plain_decl(text, xor=[lo, lo + rng.range(0, 3)], wide=rng.chance(1, 3), ascii=True)
    return gen_decl(rng)


def rule_src(name, decls, cond, flags="", imports=(), suffix=""):
    """suffix: the strings are named s0<suffix>, s1<suffix> ... (names that EXTEND the plain ones)"""
    imp = "".join('import "%s" ' % m for m in imports)
    if not decls:
        return "%s%srule %s { condition: %s }" % (imp, flags, name, cond)
    strings = " ".join(decl_yara("s%d%s" % (i, suffix), d) for i, d in enumerate(decls))
    if suffix:
        cond = re.sub(r"([$#@!])s(\d)", lambda mm: mm.group(1) + "s" + mm.group(2) + suffix, cond)
    # every string must be referenced (boreal rejects unused strings): add always-false disjuncts
    refs = "".join(" or #s%d%s < 0" % (i, suffix) for i in range(len(decls)))
    return "%s%srule %s { strings: %s condition: (%s)%s }" % (imp, flags, name, strings, cond, refs)


def rule_flags(r):
    return ("global " if r.get("global") else "") + ("private " if r.get("private") else "")


MODULE_CONDS = {
    "pe": ["pe.number_of_sections >= 1", "pe.is_pe", "pe.machine == pe.MACHINE_I386", "defined pe.entry_point"],
    "elf": ["elf.number_of_sections >= 1", "elf.machine == elf.EM_X86_64", "defined elf.entry_point",
            "elf.type == elf.ET_DYN"],
    "math": ["math.max(1, 2) == 2"],
}
ASSETS = ["boreal/tests/assets/libyara/data/tiny", "boreal/tests/assets/elf/elf_with_imports"]


class C12(Prop):
    ID = "C12"
    LEVEL = "proof"
    COQ_TARGETS = ["theories/Properties/C12.vo"]
    MODEL_TARGETS = ["theories/Model/IndepCase.vo"]
    CASE_HEADER = ("From Boreal Require Import Base.Prelude Base.ListX Base.Bytes Model.Literals Model.AcScan "
                   "Model.IndepCase.")
    HARNESS_BINS = ("scan",)
    KF = {}
    RULE = ("rule sets A (1-3 rules, 1-3 text strings each, conditions over counts / offsets / of-expressions) and B "
            "generated to collide with A on atoms: the same strings, the same text under other modifiers, case "
            "variants, prefixes / suffixes, the same atom at another literal offset, an encoding of an A string as "
            "a plain string, xor ranges; strings of A and B may be `private` (1/5) or xor; rules of B may be "
            "`private rule`s with strings (1/3); B in the same or another namespace, never global in A's namespace (in its own namespace it may "
            "hold a false global rule and private rules), never "
            "referenced; short strings whose whole literal is the atom (1-3 bytes) next to the same bytes preceded by NULs, "
            "in both orders; 1/4 of the string cases are scanned as 1-3 regions of a fragmented scan (fast / legacy / "
            "single-pass) with full matches requested, half of them with A decidable without its strings; A may "
            "start with global rules (one that holds, one that does not: its namespace is disabled while "
            "B keeps another one alive); reporting with and without include_not_matched_rules; 1/6 of the cases are "
            "the module family: no strings, every rule its own source text with `import \"pe\"` / `import \"elf\"` "
            "(the same module imported several times in A, the other one in B), scanned on a real PE / ELF file of "
            "boreal/tests/assets; every order-preserving interleaving when |A|+|B| <= 4, sampled otherwise. The union is "
            "scanned and compared with A alone and B alone rule by rule and field by field (verdict, reported string "
            "NAMES, private-string filtering, has_xor_modifier, full match lists); the reported strings of every rule "
            "are also compared in Coq with the model's report (shared automaton, match vectors consumed "
            "positionally, private and empty strings dropped) and with the report built from each string's "
            "single-string scan. "
            "Non-trivial: some string of B shares a lower-cased atom or a literal with a string of A and the input "
            "has a match; distinct by (A, B, interleaving, input).")
    TRUSTED = ["Coq 8.16.1 kernel + vm_compute", "harness/src/scan.rs", "vlib/props/c12.py, c01.py (case printer)",
               "contract of aho-corasick find_overlapping_iter (Model/Ac.v)"]
    ASSUMPTIONS = ["conditions are not modelled here (C04/C05): verdict independence is checked implementation against "
                   "implementation (union vs alone); the Coq side covers the string matches",
                   "B's rules are not global in A's namespace and not referenced by A"]

    def translators(self, ctx):
        from translators import consts
        return consts.run(core.REPO, core.VERIF)

    def corpus(self, ctx):
        out = []
        d = os.path.join(core.VERIF, "corpus", "C12")
        if os.path.isdir(d):
            for f in sorted(os.listdir(d)):
                if f.endswith(".json"):
                    out.append(core.load_case_file(os.path.join(d, f))["case"])
        return out

    def gen_case(self, rng):
        def gen_rules(prefix, n, base_decls):
            rules = []
            for i in range(n):
                decls = []
                for j in range(rng.range(1, 3)):
                    if base_decls and rng.chance(3, 4):
                        d = collide(rng, rng.choice(base_decls))
                    elif rng.chance(1, 4):
                        # atoms shorter than 4 bytes (the whole literal is the atom), some starting with NULs
                        t = rng.bytes(rng.range(1, 3), b"elfELF\x01\xba\xffZ9")
                        if rng.chance(1, 3):
                            t = (b"\x00" * rng.range(1, 3) + t)[:4]
                        d = plain_decl(t, nocase=rng.chance(1, 3), wide=rng.chance(1, 6), ascii=True)
                    else:
                        d = gen_decl(rng)
                        if d["xor"] is not None and d["xor"][1] - d["xor"][0] > 6:
                            d["xor"][1] = d["xor"][0] + rng.range(0, 6)
                    d = dict(d)
                    d["private"] = rng.chance(1, 5)      # private string: matched, never reported
                    if d["xor"] is None and rng.chance(1, 6):
                        lo = rng.below(250)
                        d["xor"] = [lo, lo + rng.range(0, 3)]
                        d["nocase"] = False
                        d["b64"] = None
                    if d["xor"] is not None and d["xor"][1] - d["xor"][0] > 6:
                        d["xor"] = [d["xor"][0], d["xor"][0] + rng.range(0, 6)]
                    if len(d["text"]) > 32:
                        d["text"] = d["text"][:32]
                    decls.append(d)
                rules.append({"name": "%s%d" % (prefix, i), "decls": decls, "cond": rng.choice(CONDS),
                              "private": prefix == "b" and rng.chance(1, 3)})      # private RULE
            return rules
        nsA = rng.choice([None, "nsA"])
        nsB = rng.choice([nsA, "nsB", None])
        if rng.chance(1, 6):
            # module family: no strings, every rule is its own source text importing its module; a real PE / ELF
            # file as input.  A imports one module 1-3 times, B the other one (or both).
            mA = rng.choice(["pe", "elf"])
            mB = "elf" if mA == "pe" else "pe"
            A = [{"name": "a%d" % i, "decls": [], "cond": rng.choice(MODULE_CONDS[mA]), "private": False,
                  "imports": [mA] + (["math"] if rng.chance(1, 4) else [])} for i in range(rng.range(1, 3))]
            B = [{"name": "b%d" % i, "decls": [], "cond": rng.choice(MODULE_CONDS[mB]), "private": rng.chance(1, 4),
                  "imports": [mB] + ([mA] if rng.chance(1, 3) else [])} for i in range(rng.range(1, 2))]
            n, k = len(A) + len(B), len(A)
            pos = sorted(rng.shuffle(list(range(n)))[:k])
            order, ia, ib = [], 0, 0
            for p in range(n):
                if p in pos:
                    order.append(["A", ia]); ia += 1
                else:
                    order.append(["B", ib]); ib += 1
            case = {"A": A, "B": B, "nsA": nsA, "nsB": nsB, "order": order, "mem": "",
                    "asset": rng.choice(ASSETS), "include_not_matched": rng.chance(2, 3),
                    "profile": rng.choice(["speed", "memory"]), "params": {}}
            if rng.chance(1, 3):
                # the file as ONE REGION of a fragmented scan (fast / legacy / single-pass); A reads values that are
                # computed while the regions are scanned (`entrypoint`), B brings a string that forces the scan
                case["A"] = [{"name": "a0", "decls": [], "cond": rng.choice(["entrypoint >= 0", "defined entrypoint",
                                                                             "entrypoint > 4096 or filesize > 0"]),
                              "private": False, "imports": []}]
                case["B"] = [{"name": "b0", "decls": [plain_decl(rng.choice([b"ELF", b"PE", b"text", b"zzzz-not-there"]))],
                              "cond": rng.choice(["any of them", "#s0 >= 0", "true"]), "private": False}]
                case["order"] = rng.choice([[["A", 0], ["B", 0]], [["B", 0], ["A", 0]]])
                case["frag"] = {"start": rng.choice([0, 4096, 1 << 32]), "mode": rng.choice(["fast", "fast", "legacy", "single_pass"])}
                case["include_not_matched"] = rng.chance(1, 3)
            return case
        if rng.chance(1, 10):
            # strings WITHOUT an extractable atom (scanned on their own in every region), fragmented input, a lowered
            # limit: B reaches the limit in an early region, A matches only in a later one.  Not modelled in Coq
            # (regexes): union vs alone, whole reported rules.
            raws = [("/[0-9]+/", b"1 22 333 4 5 "), ("/x+y+/", b"xxyy xy "), ("/[a-c]{2}/", b"ab ca bb "), ("/Q+/", b"Q QQ Q ")]
            ia, ib = rng.shuffle(list(range(len(raws))))[:2]
            A = [{"name": "a0", "decls": [], "raw": [raws[ia][0]], "cond": "any of them", "private": False}]
            B = [{"name": "b0", "decls": [], "raw": [raws[ib][0]], "cond": rng.choice(["any of them", "#s0 > 1"]), "private": False}]
            order = rng.choice([[["B", 0], ["A", 0]], [["B", 0], ["A", 0]], [["A", 0], ["B", 0]]])
            regs, addr = [], rng.choice([0, 4096])
            for k in range(rng.range(2, 4)):
                if k == 0:
                    mem = raws[ib][1] * rng.range(1, 3)
                else:
                    mem = rng.choice([raws[ia][1], raws[ib][1], raws[ia][1] + raws[ib][1], b"-- "])
                regs.append({"start": addr, "hex": mem.hex(), "fail": False})
                addr += len(mem) + rng.choice([0, 16])
            regs.append({"start": addr, "hex": (b".. " + raws[ia][1]).hex(), "fail": False})
            return {"A": A, "B": B, "nsA": nsA, "nsB": nsB, "order": order, "mem": "", "regions": regs,
                    "mode": rng.choice(["legacy", "fast", "single_pass"]), "rawfam": True,
                    "include_not_matched": rng.chance(1, 2), "profile": rng.choice(["speed", "memory"]),
                    "params": {"string_max_nb_matches": rng.choice([1, 2, 3])}}
        A = gen_rules("a", rng.range(1, 2), [])
        if rng.chance(1, 3):
            # global rules in A: one that holds, then (half of the time) one that does not — the namespace of A
            # is then disabled while B may keep another namespace alive
            ga = {"name": "ga", "decls": [plain_decl(b"gaaa")], "cond": "any of them", "private": False, "global": True}
            A = [ga] + A
            if rng.chance(1, 2):
                gb = {"name": "gb", "decls": [plain_decl(b"never-in-the-input")], "cond": "any of them",
                      "private": rng.chance(1, 4), "global": True}
                A = A[:1] + [gb] + A[1:] if rng.chance(1, 2) else A + [gb]
            # independence: a global rule only rules over its own namespace, so B lives in another one
            if nsB == nsA:
                nsB = "nsB"
        allA = [d for r in A for d in r["decls"]]
        B = gen_rules("b", rng.range(1, 2), allA)
        # rule references inside A: a later rule of A reads the result of an earlier one by name
        plain_a = [r for r in A if not r.get("global")]
        for i, r in enumerate(plain_a[1:], 1):
            if rng.chance(1, 2):
                ref = plain_a[rng.below(i)]["name"]
                r["cond"] = rng.choice(["%s", "not %s", "%s and (#s0 >= 0)", "%s or false"]) % ref
        if len(plain_a) == 1 and rng.chance(1, 3):
            extra = {"name": "aref", "decls": [plain_decl(b"refstr")], "cond": rng.choice(["%s", "not %s"]) % plain_a[0]["name"],
                     "private": False}
            A = A + [extra]
        # B in another namespace may hold a false global rule and private rules (its namespace is disabled)
        has_ref = any(r["cond"].replace("not ", "").split(" ")[0] in [o["name"] for o in A] for r in A)
        if nsB != nsA and rng.chance(2 if has_ref else 1, 3):
            gbf = {"name": "gbf", "decls": [plain_decl(b"never-in-the-input-b")], "cond": "any of them", "private": False,
                   "global": True}
            B = [gbf] + B
            for r in B[1:]:
                r["private"] = rng.chance(1, 2)
        # interleaving: which positions of the merged sequence come from A
        n, k = len(A) + len(B), len(A)
        pos = sorted(rng.shuffle(list(range(n)))[:k])
        order, ia, ib = [], 0, 0
        for p in range(n):
            if p in pos:
                order.append(["A", ia]); ia += 1
            else:
                order.append(["B", ib]); ib += 1
        # input: spliced from encodings of everything
        pool = []
        for r in A + B:
            for d in r["decls"]:
                pool += [e[:48] for e, _ in encodings(d)[:6]] or [bytes.fromhex(d["text"])]
        m = bytearray()
        if any(r.get("global") for r in A) and rng.chance(3, 4):
            m += b"gaaa "            # the first global rule of A holds
        for _ in range(rng.range(1, 7)):
            m += rng.choice(pool)
            if rng.chance(1, 2):
                m += rng.bytes(rng.range(0, 3), b" .aZ\x00")
        if rng.chance(1, 6):
            # byte literals longer than 64 bytes in the conditions of A and B: same length, same head and tail,
            # different middle
            head, tail = b"H" * rng.range(32, 40), b"T" * rng.range(32, 40)
            mids = [b"midA" + rng.bytes(4, ALNUM), b"midB" + rng.bytes(4, ALNUM)]
            for rs, mid in ((A, mids[0]), (B, mids[1])):
                tgt = [r for r in rs if not r.get("global")][0]
                tgt["cond"] = '"%s" contains "%s"' % ((head + mid + tail).decode(), mid.decode())
        params = {}
        if rng.chance(1, 4):
            # a lowered match limit: strings sharing an atom, one of them over the limit early in the input
            params["string_max_nb_matches"] = rng.choice([1, 2, 3])
            rep = rng.choice(pool)
            m = bytearray((rep + rng.choice([b"x ", b" ", b"9", b"."])) * rng.range(3, 8)) + m
            if rng.chance(1, 2):
                # the same text in A (fullword) and B (plain): B goes over the limit on occurrences followed by a
                # letter, A's only match is a later, delimited occurrence of the shared atom
                t = rng.bytes(rng.range(4, 7), b"abcdefgh")
                da, db = plain_decl(t, fullword=True), plain_decl(t)
                if rng.chance(1, 2):
                    da, db = db, da
                [r for r in A if not r.get("global")][0]["decls"][0] = da
                [r for r in B if not r.get("global")][0]["decls"][0] = db
                m = bytearray((t + b"x ") * rng.range(3, 7) + t + b" ") + m[:60]
        m = bytearray(m[:200])
        if rng.chance(1, 3):
            # the input ends exactly at an occurrence of a string of A (nothing after it)
            da = rng.choice([d for r in A for d in r["decls"]])
            ea = rng.choice(encodings(da) or [(bytes.fromhex(da["text"]), False)])[0][:48]
            m = m[:150] + b" " + ea
        case = {"A": A, "B": B, "nsA": nsA, "nsB": nsB, "order": order, "mem": bytes(m).hex(),
                "b_suffix": rng.choice(["", "", "x", "_b", "0"]),     # B's string names extend A's ($s0x vs $s0)
                "include_not_matched": rng.chance(2, 3),
                "profile": rng.choice(["speed", "memory"]), "params": params}
        if rng.chance(1, 4):
            case["refused"] = [{"pos": rng.choice([0, 0, rng.below(len(order))]), "ns": rng.choice([nsA, nsB, "ns_noise"]),
                                "src": rng.choice(REFUSED)} for _ in range(rng.range(1, 2))]
        if rng.chance(1, 4):
            # the same input as 1-3 regions of a fragmented scan (fast / legacy / single-pass), full matches requested:
            # the pass that decides rules before the scan must not run; half of the time A is decidable without strings
            mem = bytes(m[:160])
            cuts = sorted(set([0, len(mem)] + [rng.below(len(mem) + 1) for _ in range(rng.range(0, 2))]))
            addr, regs = rng.choice([0, 4096, 1 << 32]), []
            for lo, hi in zip(cuts, cuts[1:]):
                regs.append({"start": addr, "hex": mem[lo:hi].hex(), "fail": False})
                addr += (hi - lo) + rng.choice([0, 16])
            case["regions"] = regs
            case["mode"] = rng.choice(["fast", "fast", "legacy", "single_pass"])
            if rng.chance(1, 2):
                for r in A:
                    if not r.get("global"):
                        r["cond"] = rng.choice(["true", "not false", "filesize >= 0 or true"])
        return case

    def generate(self, ctx, rng, n):
        return [self.gen_case(rng.fork("c%d" % i)) for i in range(n)]

    def budget(self, tier):
        return 320 if tier == "quick" else 8000

    def entries(self, case, which):
        out = []
        refused = case.get("refused", []) if which == "AB" else []
        for pos, (side, i) in enumerate(case["order"]):
            for rf in refused:
                if rf["pos"] == pos:
                    out.append({"ns": rf["ns"], "src": rf["src"], "expect_error": True})
            if side not in which:
                continue
            r = case[side][i]
            if r.get("raw"):
                src = "rule %s { strings: %s condition: %s }" % (
                    r["name"], " ".join("$s%d = %s" % (j, rx) for j, rx in enumerate(r["raw"])), r["cond"])
            else:
                src = rule_src(r["name"], r["decls"], r["cond"], rule_flags(r), r.get("imports", ()),
                               case.get("b_suffix", "") if side == "B" else "")
            out.append({"ns": case["nsA"] if side == "A" else case["nsB"], "src": src})
        return out

    def hcase(self, case, which):
        p = dict(case.get("params", {}))
        p["compute_full_matches"] = True
        p["include_not_matched"] = bool(case.get("include_not_matched", True))
        inp = {"file": os.path.join(core.REPO, case["asset"])} if case.get("asset") else {"mem": case["mem"]}
        if case.get("regions") is not None:
            inp = {"regions": case["regions"]}
            p["mode"] = case["mode"]
        if case.get("frag"):
            data = open(os.path.join(core.REPO, case["asset"]), "rb").read()
            inp = {"regions": [{"start": case["frag"]["start"], "hex": data.hex(), "fail": False}]}
            p["mode"] = case["frag"]["mode"]
            p["compute_full_matches"] = False
        return {"rules": self.entries(case, which), "profile": case.get("profile", "speed"), "params": p,
                "input": inp}

    def execute(self, ctx, cases):
        ou = core.harness_run(ctx.binp, "scan", [self.hcase(c, "AB") for c in cases])
        oa = core.harness_run(ctx.binp, "scan", [self.hcase(c, "A") for c in cases])
        ob = core.harness_run(ctx.binp, "scan", [self.hcase(c, "B") for c in cases])
        for c in cases:
            ctx.count("rules=%d+%d" % (len(c["A"]), len(c["B"])))
            ctx.count("ns=%s" % ("same" if c["nsA"] == c["nsB"] else "different"))
            ctx.count("private_rules_in_B=%d" % sum(1 for r in c["B"] if r.get("private")))
            ctx.count("private_strings=%d" % sum(1 for r in c["A"] + c["B"] for d in r["decls"] if d.get("private")))
            ctx.count("xor_strings=%d" % sum(1 for r in c["A"] + c["B"] for d in r["decls"] if d["xor"] is not None))
            ctx.count("first=%s" % c["order"][0][0])
            ctx.count("refused_texts=%d" % len(c.get("refused", [])))
            ctx.count("family=%s" % ("raw-regex-fragmented" if c.get("rawfam") else "fragmented-entrypoint" if c.get("frag") else "modules" if c.get("asset")
                                     else "strings-fragmented-%s" % c["mode"] if c.get("regions") is not None else "strings"))
            ctx.count("globals_in_A=%d" % sum(1 for r in c["A"] if r.get("global")))
            ctx.count("globals_in_B=%d" % sum(1 for r in c["B"] if r.get("global")))
            ctx.count("rule_refs_in_A=%d" % sum(1 for r in c["A"] if any(r["cond"].split(" ")[-1 if r["cond"].startswith("not ") else 0].strip("()") == o["name"] for o in c["A"])))
            ctx.count("limit=%s" % c.get("params", {}).get("string_max_nb_matches", "default"))
            ctx.count("include_not_matched=%s" % bool(c.get("include_not_matched", True)))
        return [{"union": u, "A": a, "B": b} for u, a, b in zip(ou, oa, ob)]

    def term(self, ctx, case, out):
        u, a, b = out["union"], out["A"], out["B"]
        if not all(isinstance(x, dict) and "rules" in x for x in (u, a, b)):
            return (False, False, 0)

        def key(r):
            return (r["ns"], r["name"])
        ru = {key(r): r for r in u["rules"]}
        # union vs alone: the whole reported rule (verdict, string names, xor flags, match lists)
        same = True
        verdict_only = bool(case.get("frag"))    # without compute_full_matches the match lists may legitimately be
        for alone in (a, b):                     # partial when a rule is decided before the scan: verdicts only
            for r in alone["rules"]:
                ur0 = ru.get(key(r))
                if verdict_only:
                    if ur0 is None or ur0["matched"] != r["matched"]:
                        same = False
                elif ur0 != r:
                    same = False
        if len(ru) != len(a["rules"]) + len(b["rules"]):
            same = False
        rules, reported = [], []
        inm = bool(case.get("include_not_matched", True))
        # variable order of the compiled scanner: the strings of global rules first, then those of the other
        # rules, each group in the order the rules were added
        seq = [(side, i) for side, i in case["order"]]
        seq = [x for x in seq if case[x[0]][x[1]].get("global")] + [x for x in seq if not case[x[0]][x[1]].get("global")]
        for side, i in seq:
            r = case[side][i]
            ns = (case["nsA"] if side == "A" else case["nsB"]) or "default"
            sds = glist("{| sd_name := %d; sd_private := %s; sd_decl := %s |}" % (
                j, gbool(bool(d.get("private"))), g_decl(d)) for j, d in enumerate(r["decls"]))
            ur = ru.get((ns, r["name"]))
            if r.get("private") and ur is not None:
                same = False            # a private rule must not be reported
            if ur is None and inm and not r.get("private"):
                same = False            # every non-private rule is reported with include_not_matched
            # with matched-only reporting, which rules are present is compared union vs alone (above); the Coq side
            # checks the strings of the rules that are there
            present = ur is not None and not r.get("private") and not case.get("frag") and not case.get("rawfam")
            rules.append("(%s, %s)" % (gbool(present), sds))
            if not present:
                continue
            strs = []
            sfx = case.get("b_suffix", "") if side == "B" else ""
            for st in ur["strings"]:
                mm = re.fullmatch(r"s(\d+)" + re.escape(sfx), st["name"])
                strs.append("(%d, %s, %s)" % (int(mm.group(1)) if mm else 999, gbool(bool(st["xor"])),
                                              glist(g_smatch(x) for x in st["matches"])))
            reported.append(glist(strs))
        ctx.count("same_alone=%s" % same)
        if case.get("regions") is not None:
            from .c14 import g_regions
            return "C12_case_frag %s %s %s %s %s" % (g_prm(case.get("params", {})), g_regions(case["regions"]),
                                                     glist(rules), glist(reported), gbool(same))
        return "C12_case %s %s %s %s %s" % (g_prm(case.get("params", {})), gbytes(bytes.fromhex(case["mem"])),
                                            glist(rules), glist(reported), gbool(same))

    def nontrivial(self, case, out):
        try:
            has_match = any(r["strings"] for r in out["union"]["rules"])
        except Exception:
            return None
        textsA = {d["text"].lower() for r in case["A"] for d in r["decls"]}
        shared = False
        for r in case["B"]:
            for d in r["decls"]:
                t = bytes.fromhex(d["text"]).lower()
                for ta in textsA:
                    ta = bytes.fromhex(ta).lower()
                    if any(ta[i:i + 4] in t for i in range(max(1, len(ta) - 3))) or t in ta:
                        shared = True
        if case.get("asset"):
            return json.dumps([case["A"], case["B"], case["order"], case["asset"]], sort_keys=True)
        if has_match and shared:
            return json.dumps([case["A"], case["B"], case["order"], case["mem"]], sort_keys=True)
        return None

    def sample(self, case, out):
        return {"rules": [e["src"] for e in self.entries(case, "AB")], "mem": case["mem"][:80],
                "union": out.get("union") if not isinstance(out.get("union"), dict) else
                [(r["name"], r["matched"], [(s["name"], len(s["matches"])) for s in r["strings"]])
                 for r in out["union"]["rules"]]}


PROP = C12()
