# C04 — conditions evaluate to the value YARA semantics assign.
import json
from .. import core, cond
from ..core import gN, gZ, gbool, glist, gbytes, gopt, gpair
from ..runner import Prop

STRINGS = [("_a", b"ab"), ("_b", b"abc"), ("_c", b"zz"), ("_d", b"a"), ("_e", b"\x00\x01")]
# the same five strings under names with shared prefixes, for the cases that write their sets with wildcards
SUGAR_NAMES = ["_a", "_ab", "_b_a", "_b", "_c"]   # `$_a*` is {ab, abc}: it must not take `$_b_a` (zz)


def names_of(case):
    return SUGAR_NAMES if case.get("sugar", 0) & 2 else [n for n, _ in STRINGS]


def strings_of(case):
    return list(zip(names_of(case), [p for _, p in STRINGS]))

MEMS = [b"abcabcab a\x00\x01xx", b"", b"a", b"ab", b"zzzab\x00\x01\x00\x01abc", b"xyz", b"aaaaaaaaaaaaaaaa",
        b"\xff\xfe\xfd\xfc\x80\x7f\x00\x01abcab"]


def g_matches(mem, strings):
    out = []
    for _, pat in strings:
        offs = cond.find_all(mem, pat)
        out.append(glist("{| m_base := 0; m_off := %d; m_len := %d |}" % (o, len(pat)) for o in offs))
    return glist(out)


FRAG_BASES = (4096, 20480)


def frag_regions(case):
    """The input of the case as two regions at non-zero bases, or None when the condition reads integers (or
    the input is too short to cut)."""
    if '"readint"' in json.dumps(case["cond"]):
        return None
    mem = bytes.fromhex(case["mem"])
    if len(mem) < 2:
        return None
    cut = max(1, (len(mem) * 2) // 3)
    return [(FRAG_BASES[0], mem[:cut]), (FRAG_BASES[1], mem[cut:])]


def g_matches_regions(regs, strings):
    out = []
    for _, pat in strings:
        ms = []
        for base, mem in regs:
            ms += ["{| m_base := %d; m_off := %d; m_len := %d |}" % (base, o, len(pat)) for o in cond.find_all(mem, pat)]
        out.append(glist(ms))
    return glist(out)


def strings_section(strings):
    return "strings:\n" + "\n".join("    $%s = %s" % (n, cond.ybytes(p)) for n, p in strings)


def g_ext(exts, vals):
    out = []
    for (name, ty), v in zip(exts, vals):
        out.append("(VInt %s)" % gZ(v) if ty == "int" else "(VBytes %s)" % gbytes(v) if ty == "bytes"
                   else "(VBool %s)" % gbool(v))
    return glist(out)


class C04(Prop):
    ID = "C04"
    LEVEL = "proof"
    COQ_TARGETS = ["theories/Properties/C04.vo"]
    MODEL_TARGETS = ["theories/Model/EvalCase.vo"]
    CASE_HEADER = "From Boreal Require Import Base.Prelude Spec.Regex Model.Hir.\nFrom Boreal Require Import Base.Res Model.Eval Spec.CondSem Model.EvalCase."
    HARNESS_BINS = ("scan",)
    RULE = ("typed random condition trees (depth <= 4) over 5 text strings and 8 inputs: string presence, at, in, "
            "#, @, ! with indices, of/for over string sets (any/all/none/count/percentage), for-in over ranges and "
            "lists with bound identifiers, wrapping arithmetic, shifts, division/modulo by zero, comparisons, string "
            "operators, filesize, intXX/uintXX reads, defined, and/or/not, external symbols.  The rule verdict and the "
            "value of up to 4 integer sub-expressions (through console.log probes) are compared with the model "
            "(Model/Eval.v) and the declarative semantics (Spec/CondSem.v); the rule verdict is also taken with the "
            "default parameters (first evaluation pass allowed) and, for conditions that read no integer, on the same "
            "input cut in two regions at non-zero bases (scan_fragmented: matches carry a base, no file size).  Non-trivial: the condition contains a "
            "string query or a quantifier; distinct by (condition, input).")
    TRUSTED = ["Coq 8.16.1 kernel + vm_compute", "harness/src/scan.rs", "vlib/cond.py (one AST printed to YARA text and "
               "to a Gallina term)", "string matches of plain text strings computed by Python's bytes.find"]
    ASSUMPTIONS = ["the expression parser and compile_expression are not modelled: a mis-parse shows up as a verdict "
                   "mismatch", "`entrypoint` and module values are outside the model; floats are binary64 values computed with Coq.Floats.SpecFloat (float literals, mixed integer / float + - * \\, unary minus, comparisons, == within f64::EPSILON, truth value); `matches` is evaluated against Spec/Regex.v is_match on the regex lowered as in Model/Hir.v (the engine behind it is C03's subject)",
                   "percentages: only (p, n) on which the code's binary64 computation (vlib/cond.pct_quota_impl, following fix a93a70c) equals the exact ceil(p*n/100) of the model are drawn"]

    def budget(self, tier):
        return 900 if tier == "quick" else 12000

    def gen_case(self, rng):
        mem = rng.choice(MEMS) if rng.chance(3, 4) else rng.bytes(rng.range(0, 24), alphabet=b"abcz\x00\x01 ")
        exts = [("ext_i", "int"), ("ext_s", "bytes")]
        ext_vals = [rng.choice([0, 1, 5, -3, 1 << 40]), rng.choice([b"", b"ab", b"AB\x00"])]
        g = cond.Gen(rng, len(STRINGS), len(mem), exts, max_depth=4, of_at_in=True)
        g.floats = True
        forced_sugar = None
        while True:
            c = g.gbool(rng.range(1, 4))
            if rng.chance(1, 10):
                c = sibling_loops(rng, len(STRINGS))
            elif rng.chance(1, 10):
                c = quantified_partial(rng, len(STRINGS))
            elif rng.chance(1, 8):
                c = of_at_in(rng, mem)
            elif rng.chance(1, 10):
                c, forced_sugar = wildcard_sets(rng), rng.choice([2, 3, 7])
            elif rng.chance(1, 12):
                c = regex_match(rng, len(STRINGS))
            elif rng.chance(1, 10):
                c = g.gfloat_bool(rng.range(0, 2))
            elif rng.chance(1, 10):
                c = poison_order(rng, len(STRINGS))
            elif rng.chance(1, 12):
                c = absorbing_operands(rng, len(STRINGS))
            probes = [g.gint(rng.range(0, 3)) for _ in range(rng.range(0, 4))]
            if not cond.has_big_range(c) and not any(cond.has_big_range(p) for p in probes):
                break
        case = {"mem": mem.hex(), "cond": c, "probes": probes, "ext_vals": [ext_vals[0], ext_vals[1].hex()],
                "match_max_length": rng.choice([512, 512, 0, 1, 2]),
                # how string sets are written: explicit lists, `them`, wildcards
                "sugar": rng.choice([0, 0, 1, 2, 3, 7])}
        if forced_sugar is not None:
            case["sugar"] = forced_sugar
        return json.loads(json.dumps(case, default=lambda b: list(b)))

    def generate(self, ctx, rng, n):
        return [self.gen_case(rng.fork("c%d" % i)) for i in range(n)]

    def corpus(self, ctx):
        import os
        out = []
        d = os.path.join(core.VERIF, "corpus", self.ID)
        if os.path.isdir(d):
            for f in sorted(os.listdir(d)):
                if f.endswith(".json"):
                    out.append(core.load_case_file(os.path.join(d, f))["case"])
        return out

    def rules_text(self, case):
        pr = cond.Printer(names_of(case), sugar=case.get("sugar", 0))
        c = tup(case["cond"])
        ss = strings_section(strings_of(case))
        txt = 'import "console"\nrule c {\n%s\ncondition:\n    %s\n}\n' % (ss, pr.y(c))
        for i, p in enumerate(case["probes"]):
            txt += 'rule p%d {\n%s\ncondition:\n    console.log("p%d:", %s)\n}\n' % (i, ss, i, pr.y(tup(p)))
        return txt

    def harness_case(self, case):
        return {"rules": [{"src": self.rules_text(case)}], "console": True,
                "csymbols": [{"name": "ext_i", "int": case["ext_vals"][0]}, {"name": "ext_s", "bytes": case["ext_vals"][1]}],
                "params": {"compute_full_matches": True, "match_max_length": case.get("match_max_length", 512)},
                "input": {"mem": case["mem"]}}

    def execute(self, ctx, cases):
        outs = core.harness_run(ctx.binp, "scan", [self.harness_case(c) for c in cases])
        # the same rules scanned with the default parameters (evaluation before the string scan allowed, no match
        # details): only the verdict of rule `c` is kept, it must be the same
        dcases = []
        for c in cases:
            h = self.harness_case(c)
            h["params"] = {"match_max_length": c.get("match_max_length", 512)}
            dcases.append(h)
        douts = core.harness_run(ctx.binp, "scan", dcases)
        for o, d in zip(outs, douts):
            if isinstance(o, dict):
                o["default_run"] = ({"error": d.get("error"), "matched": [r["name"] for r in d.get("rules", []) if r["matched"]]}
                                    if isinstance(d, dict) and "rules" in d else {"error": str(d)[:200]})
        # the same condition on fragmented memory: the input cut in two regions at non-zero bases (matches then
        # carry a base; no file size, no direct reads — conditions reading integers are left out, the code reads
        # them through the regions, the model has no memory there)
        fix = [i for i, c in enumerate(cases) if frag_regions(c) is not None]
        fcases = []
        for i in fix:
            h = self.harness_case(cases[i])
            h["input"] = {"regions": [{"start": b, "hex": m.hex()} for b, m in frag_regions(cases[i])]}
            fcases.append(h)
        fouts = core.harness_run(ctx.binp, "scan", fcases) if fcases else []
        for i, f in zip(fix, fouts):
            if isinstance(outs[i], dict):
                outs[i]["frag_run"] = ({"error": f.get("error"), "matched": [r["name"] for r in f.get("rules", []) if r["matched"]]}
                                       if isinstance(f, dict) and "rules" in f else {"error": str(f)[:200]})
        return outs

    def term(self, ctx, case, out):
        if not isinstance(out, dict) or "rules" not in out or out.get("error"):
            # compile error, panic or scan error on a well-typed condition
            ctx.count("impl_failure")
            return (False, False, 0)
        mem = bytes.fromhex(case["mem"])
        pr = cond.Printer([n for n, _ in STRINGS])
        verdict = any(r["name"] == "c" and r["matched"] for r in out["rules"])
        dr = out.get("default_run") or {}
        if dr.get("error") or ("c" in dr.get("matched", [])) != verdict:
            ctx.count("default parameters give another verdict")
            ctx.notes.append("rule c: verdict %s with full matches, default run %s" % (verdict, dr))
            return (False, False, 0)
        logs = {}
        for l in out.get("logs", []):
            k, _, v = l.partition(":")
            logs[k] = int(v)
        probes = glist(gpair(pr.g(tup(p)), gopt(logs.get("p%d" % i), gZ)) for i, p in enumerate(case["probes"]))
        ext = "[VInt %s; VBytes %s]" % (gZ(case["ext_vals"][0]), gbytes(bytes.fromhex(case["ext_vals"][1])))
        ctx.count("verdict=%s" % verdict)
        ctx.count("probes_logged", len(logs))
        ctx.count("probes_undefined", len(case["probes"]) - len(logs))
        main = "C04_case %s %s %s %s %s %s" % (g_matches(mem, STRINGS), ext, gbytes(mem), pr.g(tup(case["cond"])),
                                               gbool(verdict), probes)
        fr = out.get("frag_run")
        if fr is None:
            return main
        if fr.get("error"):
            ctx.notes.append("fragmented run fails: %s" % fr)
            return (False, False, 0)
        ctx.count("fragmented verdict=%s" % ("c" in fr["matched"]))
        return ("(let '(a, b, k) := %s in let '(a2, b2, _) := C04_frag_case %s %s %s %s in (a && a2, b && b2, k))"
                % (main, g_matches_regions(frag_regions(case), STRINGS), ext, pr.g(tup(case["cond"])), gbool("c" in fr["matched"])))

    def nontrivial(self, case, out):
        s = json.dumps(case["cond"])
        if any(k in s for k in ['"var', '"count', '"offset', '"length', '"for', '"of', '"float']):
            return json.dumps([case["cond"], case["mem"], case["probes"]])
        return None

    def sample(self, case, out):
        return {"rules": self.rules_text(case), "mem": case["mem"],
                "impl": {"matched": [r["name"] for r in (out or {}).get("rules", [])], "logs": (out or {}).get("logs")}}


def sibling_loops(rng, nvars):
    """Two loops over integers side by side, the first with a body that needs the string matches: whatever the
    first leaves behind (bound identifiers, selected string) must not be seen by the second."""
    lo = rng.choice([2, 3, 5])
    first_body = rng.choice([("varat", rng.below(nvars), ("bound", 0)), ("bin", "eq", ("count", rng.below(nvars)), ("bound", 0)),
                             ("var", rng.below(nvars))])
    k1 = rng.choice(["any", "all", "none"])
    first = rng.choice([("forrange", k1, None, ("int", lo), ("int", lo + rng.choice([0, 1])), first_body),
                        ("forlist", k1, None, [("int", lo), ("int", lo + 1)], first_body)])
    probe = rng.choice([("bin", "eq", ("bound", 0), ("int", lo + rng.choice([0, 1]))),
                        ("bin", "ge", ("bound", 0), ("int", lo)),
                        ("bin", "eq", ("readint", "uint8", ("bound", 0)), ("int", rng.choice([97, 98, 99])))])
    k2 = rng.choice(["any", "all", "none"])
    second = rng.choice([("forrange", k2, None, ("int", 0), ("int", rng.choice([0, 1])), probe),
                         ("forlist", k2, None, [("int", 0), ("int", 1)], probe)])
    c = (rng.choice(["or", "and"]), [first, second])
    return ("un", "not", c) if rng.chance(1, 3) else c


def quantified_partial(rng, nvars):
    """Quantifiers whose bodies are undefined, or need the string matches, for SOME of the elements only: what an
    undefined body counts for (false) and how decided / pending iterations are counted against N."""
    k = rng.choice(["all", "all", "any", "none", "expr", "expr", "pct"])
    shape = rng.below(5)
    if shape >= 3:
        # N >= 2 iterations over integers whose body needs the string matches from the FIRST iteration on: the
        # evaluation before the scan must leave every such iteration pending (and not stop counting at the first)
        lo = rng.choice([0, 0, 1])
        n = rng.choice([2, 3, 4, 5])
        v = rng.below(nvars)
        body = rng.choice([("bin", "ge", ("count", v), ("int", 0)), ("bin", "ge", ("count", v), ("bound", 0)),
                           ("un", "not", ("varat", v, ("bin", "add", ("bound", 0), ("int", 1000)))),
                           ("or", [("var", v), ("bin", "ge", ("bound", 0), ("int", lo))]),
                           ("varat", v, ("bound", 0)), ("defined", ("count", v))])
        se = ("int", rng.choice([2, 2, n, max(2, n - 1)]))
        if shape == 3:
            return ("forrange", "expr", se, ("int", lo), ("int", lo + n - 1), body)
        return ("forlist", "expr", se, [("int", lo + i) for i in range(n)], body)
    if shape == 0:
        # over a set of strings: bodies undefined for the strings without (enough) matches
        vs = sorted(set(rng.below(nvars) for _ in range(rng.range(2, 4))))
        body = rng.choice([("bin", "ge", ("offset", None, ("int", rng.choice([1, 1, 2]))), ("int", 0)),
                           ("bin", "gt", ("length", None, ("int", rng.choice([1, 2]))), ("int", 0)),
                           ("varin", None, ("int", 0), ("offset", None, ("int", rng.choice([1, 2])))),
                           ("varat", None, ("offset", None, ("int", 1))),
                           ("bin", "eq", ("readint", "uint8", ("offset", None, ("int", 1))), ("int", rng.choice([97, 122, 0])))])
        n = len(vs)
        se = ("int", rng.choice([1, 2, n, n - 1 if n > 1 else 1])) if k == "expr" else (("int", rng.choice([50, 100, n])) if k == "pct" else None)
        return ("for", k, se, vs, body)
    lo = rng.choice([0, 0, 1, 2])
    hi = lo + rng.choice([1, 1, 2, 3])
    n = hi - lo + 1
    decided = ("bin", rng.choice(["eq", "ge", "le", "neq"]), ("bound", 0), ("int", rng.range(lo, hi)))
    pending = rng.choice([("varat", rng.below(nvars), ("bound", 0)), ("bin", "ge", ("count", rng.below(nvars)), ("bound", 0)),
                          ("bin", "ge", ("count", rng.below(nvars)), ("bound", 0)), ("var", rng.below(nvars))])
    if rng.chance(1, 2):
        k = "expr"       # N elements: decided and pending iterations are both counted against N
    body = (rng.choice(["or", "and"]), [decided, pending]) if rng.chance(3, 4) else (rng.choice(["or", "and"]), [pending, decided])
    if k == "pct":
        k = "expr"
    se = ("int", rng.choice([1, 2, n, max(1, n - 1)])) if k == "expr" else None
    if shape == 1:
        return ("forrange", k, se, ("int", lo), ("int", hi), body)
    return ("forlist", k, se, [("int", x) for x in range(lo, hi + 1)], body)


def wildcard_sets(rng):
    """Quantifiers whose count depends on exactly which strings a wildcard takes (printed with SUGAR_NAMES:
    `$_a*` = {0, 1}, `$_b*` = {2, 3}, `$_*` = all, `$_c*` = {4})."""
    vs = rng.choice([[0, 1], [2, 3], [0, 1, 4], [0, 1, 2, 3], [2, 3, 4], [0, 1, 2, 3, 4], [4], [0, 1, 3]])
    k = rng.choice(["all", "none", "expr", "expr", "pct", "any"])
    n = len(vs)
    se = ("int", rng.choice([n, n, max(1, n - 1), n + 1])) if k == "expr" else (("int", rng.choice([100, n])) if k == "pct" else None)
    body = rng.choice([None, None, ("bin", "ge", ("count", None), ("int", rng.choice([1, 2]))),
                       ("un", "not", ("var", None)), ("varin", None, ("int", 0), ("filesize",))])
    c = ("of", k, se, vs) if body is None else ("for", k, se, vs, body)
    return ("un", "not", c) if rng.chance(1, 4) else c


def poison_order(rng, nvars):
    """`and` / `or` over operands that need the string matches (P), are undefined (U) or are decided (D), in every
    order: before the string scan the connective must stay pending as long as a P operand could still decide it,
    whatever comes after it (an undefined operand counts as false, it does not cancel the pending one)."""
    v = rng.below(nvars)
    P = [("var", v), ("bin", "ge", ("count", v), ("int", 1)), ("varat", v, ("int", rng.choice([0, 1, 3]))),
         ("un", "not", ("var", v))]
    U = [("bin", "eq", ("readint", "uint8", ("int", 1000)), ("int", 1)), ("bin", "eq", ("bin", "div", ("int", 1), ("int", 0)), ("int", 1)),
         ("bin", "gt", ("readint", "uint16", ("bin", "sub", ("filesize",), ("int", 1))), ("int", 0)),
         ("bin", "eq", ("bin", "shl", ("int", 1), ("un", "neg", ("int", 1))), ("int", 0))]
    D = [("bool", True), ("bool", False), ("bin", "ge", ("filesize",), ("int", 0)), ("bin", "lt", ("filesize",), ("int", 0))]
    shape = rng.choice(["PU", "UP", "PUD", "PDU", "UPD", "DPU", "PUP", "PP", "PUU"])
    ops = [rng.choice({"P": P, "U": U, "D": D}[k]) for k in shape]
    c = (rng.choice(["or", "or", "and"]), ops)
    r = rng.below(6)
    if r == 0:
        return ("un", "not", c)
    if r == 1:
        return ("defined", c)
    if r == 2:
        return (rng.choice(["and", "or"]), [c, rng.choice(P + D)])
    return c


def absorbing_operands(rng, nvars):
    """An undefined operand next to the neutral or absorbing constant of its operator (`0 * u`, `u & 0`, `u | -1`,
    `u % 1`, `u \\ 1`, `u >> 64`, `u - u`, `u ^ u`, `u + 0`): undefined is contagious, the result is undefined
    whatever algebra says, and `defined` / `not` / comparisons must see that."""
    v = rng.below(nvars)
    u = rng.choice([("readint", "uint8", ("int", 1000)), ("offset", v, ("int", rng.choice([2, 3, 9]))), ("length", v, ("int", 9)),
                    ("bin", "div", ("int", 1), ("int", 0)), ("readint", "int32", ("filesize",))])
    k = rng.below(10)
    e = [("bin", "mul", ("int", 0), u), ("bin", "mul", u, ("int", 0)), ("bin", "band", u, ("int", 0)), ("bin", "bor", u, ("int", -1)),
         ("bin", "mod", u, ("int", 1)), ("bin", "shr", u, ("int", 64)), ("bin", "sub", u, u), ("bin", "xor", u, u),
         ("bin", "mul", u, ("int", 1)), ("bin", "shl", ("int", 0), u)][k]
    r = rng.below(5)
    if r == 0:
        return ("defined", e)
    if r == 1:
        return ("un", "not", ("bin", "eq", e, ("int", rng.choice([0, 1]))))
    if r == 2:
        return ("or", [("bin", "eq", e, ("int", 0)), ("bin", "neq", e, ("int", 0))])
    if r == 3:
        return ("un", "not", ("defined", ("bin", "add", e, ("int", 1))))
    return ("bin", rng.choice(["eq", "ge", "le"]), e, ("int", 0))


def regex_match(rng, nvars):
    """`<bytes> matches /re/flags` (regex ASTs and member sampling of vlib/props/c03.py) under the connectives
    and `defined`: an integer or undefined subject makes it undefined, not false."""
    from . import c03
    ci, da = rng.chance(1, 4), rng.chance(1, 3)
    node = c03.PROP.gen_alt(rng, 0, {"wide": False, "wb": rng.chance(1, 3), "anchors": rng.chance(1, 6)}, top=True)
    used = sorted(c03.node_bytes(node, set()))
    alphabet = (used * 3 + c03.LITS[:6] + [0x20, 0x2D]) if used else c03.LITS
    k = rng.below(5)
    if k <= 1:
        subj = c03.sample(rng, node, ci, da, alphabet)
        if k == 1:
            subj = rng.bytes(rng.range(0, 2), alphabet) + subj + rng.bytes(rng.range(0, 2), alphabet)
    elif k == 2:
        b = bytearray(c03.sample(rng, node, ci, da, alphabet) or b"a")
        b[rng.below(len(b))] = rng.choice(alphabet)
        subj = bytes(b)
    else:
        subj = rng.bytes(rng.range(0, 6), alphabet)
    se = rng.choice([("bytes", subj[:16]), ("bytes", subj[:16]), ("bytes", subj[:16]), ("ext", 1, "ext_s")])
    m = ("matches", se, json.dumps(node), ci, da)
    r = rng.below(6)
    if r == 0:
        return ("un", "not", m)
    if r == 1:
        return ("defined", m)
    if r == 2:
        return (rng.choice(["and", "or"]), [m, ("var", rng.below(nvars))])
    if r == 3:
        return ("for", rng.choice(["any", "all", "none"]), None, sorted(set(rng.below(nvars) for _ in range(2))),
                (rng.choice(["and", "or"]), [m, ("var", None)]))
    return m


def of_at_in(rng, mem):
    """`N of (set) at X` and `N of (set) in (A..B)` with positions taken from where the strings do match (or one
    off), so that the count against N is decided by the positions and not by absence."""
    nvars = len(STRINGS)
    occ = sorted(set(o for _, p in STRINGS for o in cond.find_all(mem, p)))
    pos = (rng.choice(occ) if occ else 0) + rng.choice([0, 0, 0, 1, -1])
    pos = max(0, pos)
    vs = sorted(set(rng.below(nvars) for _ in range(rng.range(1, nvars + 1)))) if rng.chance(2, 3) else list(range(nvars))
    k = rng.choice(["any", "all", "none", "expr", "expr", "pct"])
    se = ("int", rng.choice([1, 2, 2, 3, len(vs)])) if k == "expr" else (("int", rng.choice([50, 100, len(vs), len(vs)])) if k == "pct" else None)
    if k == "pct" and not cond.pct_exact(se[1], len(vs)):
        k, se = "any", None
    if rng.chance(1, 2):
        x = rng.choice([("int", pos), ("int", pos), ("offset", rng.below(nvars), ("int", rng.choice([1, 1, 2]))),
                        ("bin", "sub", ("filesize",), ("int", max(0, len(mem) - pos)))])
        c = ("ofat", k, se, vs, x)
    else:
        w = rng.choice([0, 0, 1, 2, 4, len(mem)])
        lo = rng.choice([("int", pos), ("int", max(0, pos - w)), ("offset", rng.below(nvars), ("int", 1))])
        hi = rng.choice([("int", pos + w), ("bin", "add", lo, ("int", w)), ("filesize",), ("int", max(0, pos - 1))])
        c = ("ofin", k, se, vs, lo, hi)
    r = rng.below(4)
    if r == 0:
        return ("un", "not", c)
    if r == 1:
        return (rng.choice(["and", "or"]), [c, ("var", rng.below(nvars))])
    return c


def tup(x):
    """JSON round-trip turns tuples into lists; rebuild tuples (bytes stay hex-encoded in JSON as lists of ints?)."""
    if isinstance(x, list):
        if x and isinstance(x[0], str):
            t = x[0]
            if t == "bytes":
                b = x[1]
                return ("bytes", bytes(b) if not isinstance(b, (bytes, bytearray)) else b)
            if t in ("and", "or"):
                return (t, [tup(y) for y in x[1]])
            if t in ("for", "of"):
                return tuple([t, x[1], tup(x[2]) if x[2] is not None else None, list(x[3])] + [tup(y) for y in x[4:]])
            if t == "forlist":
                return (t, x[1], tup(x[2]) if x[2] is not None else None, [tup(y) for y in x[3]], tup(x[4]))
            if t == "forrange":
                return (t, x[1], tup(x[2]) if x[2] is not None else None, tup(x[3]), tup(x[4]), tup(x[5]))
            if t == "forrules":
                return (t, x[1], tup(x[2]) if x[2] is not None else None, x[3], list(x[4]), x[5])
            return tuple([t] + [tup(y) if isinstance(y, list) else y for y in x[1:]])
        return [tup(y) for y in x]
    if isinstance(x, tuple):
        return tup(list(x))
    return x


PROP = C04()
