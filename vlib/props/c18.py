# C18 — the command-line tool reports exactly what the library computes.
#
# One case = one invocation of /repo/target/debug/boreal (rebuilt on every run) on generated rule files and a
# generated directory tree, compared under coqc/vm_compute with Model/Cli.v (cli_run over the library's callback
# events, computed by harness/src/bin/c18.rs with the ScanParams that params_of_flags prescribes) and with
# Spec/CliSpec.v (documented format over the library's result lists and the generator's rule declarations).
import json, os, shutil, subprocess, hashlib, threading, time, errno
from concurrent.futures import ThreadPoolExecutor
from .. import core
from ..core import gN, gZ, gbool, glist, gbytes, gopt, gpair
from ..runner import Prop

WORK = os.path.join(core.VERIF, ".work")
CLI = os.path.join(core.REPO, "target", "debug", "boreal")
CLI_TIMEOUT = 60

WORDS = [b"abc", b"hello", b"MALWARE", b"xyz123", b"needle", b"Foo", b"ab"]
FILLER = b"qwrtpsdfgjklzvnm QWRT\n\t.,;01"
TAGS = ["t1", "t2", "mal", "x", "T1"]
FILE_NAMES = ["f1", "f2", "a b.txt", "é漢.bin", "x'y", 'q"uote', "-dash", "UPPER", "z.z.z", "$a", "0x10",
              "naïve name", "d:e", "tr ", "#h", "[b]", "rule", "1234", "a=b", "semi;colon", "\\bs"]
DIR_NAMES = ["sub", "d 2", "über", "deep", "x.d", "N"]


def hx(b):
    return bytes(b).hex()


# ---------------------------------------------------------------------------------------- generation: rules
def yara_escape(b):
    out = ""
    for c in b:
        if c == 0x22:
            out += '\\"'
        elif c == 0x5c:
            out += "\\\\"
        elif 0x20 <= c < 0x7f:
            out += chr(c)
        else:
            out += "\\x%02x" % c
    return out


def gen_string(rng, idx):
    """returns (name, private, text) of one string declaration"""
    name = rng.choice(["a", "b", "c", "s1", "h", "re", "x_%d" % idx]) + ("" if idx == 0 else str(idx))
    kind = rng.below(10)
    w = rng.choice(WORDS)
    if kind < 4:
        mods = []
        if rng.chance(1, 4):
            mods.append("nocase")
        if rng.chance(1, 6):
            mods.append("wide")
            if rng.chance(1, 2):
                mods.append("ascii")
        if rng.chance(1, 6):
            mods.append("fullword")
        body = '"%s"%s' % (yara_escape(w), "".join(" " + m for m in mods))
    elif kind < 6:
        rngspec = rng.choice(["xor", "xor(1-3)", "xor(0x41)", "xor(0-255)", "xor wide"])
        body = '"%s" %s' % (yara_escape(w), rngspec)
    elif kind < 8:
        toks = ["%02X" % c for c in w]
        if len(toks) > 2 and rng.chance(1, 2):
            toks[rng.range(1, len(toks) - 2)] = "??"
        if rng.chance(1, 4):
            toks.insert(1, "[0-4]")
        body = "{ " + " ".join(toks) + " }"
    elif kind == 8:
        body = rng.choice(["/a[a-z]{2,6}z/", "/hel+o/ nocase", "/x.{0,700}y/s", "/[0-9]{3,}/", "/ne+dle|MAL[A-Z]+/"])
    else:
        body = rng.choice(['"%s"' % yara_escape(w), "/a.*z/s", '"aaaa"', '"a"'])
    private = rng.chance(1, 5)
    if private:
        body += " private"
    return name, private, "$%s = %s" % (name, body)


def gen_meta(rng, k):
    name = rng.choice(["author", "i", "b", "desc", "v_%d" % k, "n"]) + ("" if k == 0 else str(k))
    kind = rng.below(4)
    if kind == 0:
        v = rng.choice([0, 1, -1, -5, 42, 9223372036854775807, -9223372036854775807, 255, 1000000])
        return [name, "int", v], "%s = %d" % (name, v)
    if kind == 1:
        v = rng.chance(1, 2)
        return [name, "bool", v], "%s = %s" % (name, "true" if v else "false")
    n = rng.range(0, 8)
    val = bytes(rng.choice([0x41, 0x62, 0x20, 0x22, 0x5c, 0x27, 0x01, 0x09, 0x0a, 0x0d, 0x7f, 0x80, 0xff, 0xc3, 0xa9, 0x5d,
                            0x2c, 0x3d]) for _ in range(n))
    return [name, "bytes", hx(val)], '%s = "%s"' % (name, yara_escape(val))


def gen_rules(rng):
    """returns (rule_files, decls)"""
    nfiles = rng.choice([1, 1, 1, 2, 2, 3])
    # every rule decidable without looking at the strings: without -s/-L/-X the library may then skip the
    # scan, with one of them it must not (compute_full_matches)
    noscan = rng.chance(1, 6)
    files, decls = [], []
    used_ns = set()
    rule_no = 0
    for fi in range(nfiles):
        ns = None
        if fi > 0 or rng.chance(1, 4):
            ns = rng.choice(["ns1", "other", "N_2", "default"])
            if ns in used_ns and ns != "default":
                ns = ns + str(fi)
        nsname = ns or "default"
        used_ns.add(nsname)
        text = ""
        nrules = rng.range(1, 5)
        names_here = [d["name"] for d in decls if d["ns"] == nsname]
        for _ in range(nrules):
            rule_no += 1
            name = rng.choice(["r", "Alpha", "beta_rule", "R", "x"]) + str(rule_no)
            other = [d["name"] for d in decls if d["ns"] != nsname and d["name"] not in names_here]
            if other and rng.chance(1, 3):
                name = rng.choice(other)      # the same identifier in another namespace
            private = rng.chance(1, 7)
            glob = rng.chance(1, 9)
            tags = []
            for t in rng.shuffle(TAGS)[:rng.choice([0, 0, 1, 1, 2, 3])]:
                tags.append(t)
            metas, meta_txt = [], []
            for k in range(rng.choice([0, 0, 1, 2, 3])):
                m, t = gen_meta(rng, k)
                metas.append(m)
                meta_txt.append(t)
            strings, str_txt = [], []
            for k in range(rng.choice([0, 1, 1, 2, 2, 3])):
                n, p, t = gen_string(rng, k)
                if n in [s[0] for s in strings]:
                    continue
                strings.append([n, p])
                str_txt.append(t)
            if glob:
                cond = rng.choice(["true", "filesize < 5000000", "filesize > 0", "filesize < 300"])
                if strings and rng.chance(1, 3):
                    cond = "not $%s" % strings[0][0]
            elif strings:
                sn = strings[0][0]
                cond = rng.choice(["any of them", "any of them", "any of them", "all of them", "$%s" % sn, "#%s > 1" % sn, "$%s at 0" % sn,
                                   "any of them or filesize == 0", "not any of them", "#%s > 2 or filesize > 1000" % sn])
                if names_here and rng.chance(1, 4):
                    cond = "(%s) and %s" % (cond, rng.choice(names_here))
            else:
                cond = rng.choice(["true", "true", "false", "filesize > 10", "filesize == 0", "filesize < 100"])
                if names_here and rng.chance(1, 3):
                    cond = rng.choice(["%s", "not %s"]) % rng.choice(names_here)
            if noscan and not glob:
                if strings:
                    cond = rng.choice(["any of them or filesize >= 0", "$%s or true" % strings[0][0],
                                       "filesize < 100000000 or #%s > 1" % strings[0][0], "true or all of them"])
                else:
                    cond = rng.choice(["true", "filesize >= 0", "false"])
            # every string must be used
            if strings and "them" not in cond:
                used = [s[0] for s in strings if ("$" + s[0]) in cond or ("#" + s[0]) in cond]
                rest = [s for s in strings if s[0] not in used]
                if rest:
                    cond = "(%s) or (%s)" % (cond, " and ".join("$" + s[0] for s in rest))
            t = ""
            if glob:
                t += "global "
            if private:
                t += "private "
            t += "rule %s" % name
            if tags:
                t += " : " + " ".join(tags)
            t += " {\n"
            if meta_txt:
                t += "  meta:\n" + "".join("    %s\n" % x for x in meta_txt)
            if str_txt:
                t += "  strings:\n" + "".join("    %s\n" % x for x in str_txt)
            t += "  condition:\n    %s\n}\n" % cond
            text += t
            names_here.append(name)
            decls.append({"ns": nsname, "name": name, "tags": tags, "metas": metas, "private": private,
                          "global": glob, "strings": strings})
        files.append({"ns": ns, "name": "rules%d.yar" % fi, "text": text})
    return files, decls


# ---------------------------------------------------------------------------------------- generation: trees
def gen_content(rng):
    k = rng.below(20)
    if k == 0:
        return {"hex": ""}
    if k == 1:   # long run for long regex matches, beyond match_max_length
        n = rng.choice([520, 600, 700])
        return {"hex": hx(b"x" + b"a" * n + b"z y" + rng.choice(WORDS))}
    if k == 2:   # big file, token at the very end (buffered vs mapped reading)
        return {"fill": rng.choice([70000, 140000, 300000]), "byte": rng.choice([0x20, 0x00, 0x71]),
                "tail": hx(rng.choice(WORDS) + b" " + rng.choice(WORDS))}
    parts = []
    for _ in range(rng.range(1, 9)):
        parts.append(rng.bytes(rng.range(0, 12), FILLER))
        w = rng.choice(WORDS)
        form = rng.below(12)
        if form == 0:
            key = rng.choice([1, 2, 3, 0x41, 0xff, 0x20])
            w = bytes(c ^ key for c in w)
        elif form == 1:
            w = b"".join(bytes([c, 0]) for c in w)
        elif form == 2:
            w = w.lower() if rng.chance(1, 2) else w.upper()
        elif form == 3:
            w = w * rng.range(2, 4)
        parts.append(w)
    if rng.chance(1, 6):
        parts.append(bytes([rng.below(256) for _ in range(rng.range(1, 20))]))
    if rng.chance(1, 10):
        parts.append(b"123456")
    return {"hex": hx(b"".join(parts))}


def content_bytes(c):
    if "fill" in c:
        return bytes([c["byte"]]) * c["fill"] + bytes.fromhex(c["tail"])
    return bytes.fromhex(c["hex"])


def gen_nodes(rng, budget, depth, ext_files, ext_dirs, allow_links=True):
    nodes, names = [], set()
    n = rng.range(0 if depth else 2, min(budget[0], 9))
    for _ in range(n):
        if budget[0] <= 0:
            break
        k = rng.below(20)
        if k < 12 or depth >= 3:
            name = rng.choice(FILE_NAMES)
            if name in names:
                continue
            names.add(name)
            budget[0] -= 1
            nodes.append(dict({"k": "file", "name": name}, **gen_content(rng)))
        elif k < 16:
            name = rng.choice(DIR_NAMES)
            if name in names:
                continue
            names.add(name)
            nodes.append({"k": "dir", "name": name,
                          "children": gen_nodes(rng, budget, depth + 1, ext_files, ext_dirs, allow_links)})
        elif allow_links and k < 18 and ext_files:
            name = "ln" + rng.choice(FILE_NAMES)
            if name in names:
                continue
            names.add(name)
            budget[0] -= 1
            nodes.append({"k": "linkfile", "name": name, "target": rng.choice(ext_files)})
        elif allow_links and k == 18 and ext_dirs:
            name = "ld" + rng.choice(DIR_NAMES)
            if name in names:
                continue
            names.add(name)
            budget[0] -= 2
            nodes.append({"k": "linkdir", "name": name, "target": rng.choice(ext_dirs)})
        elif allow_links:
            name = "dangling%d" % rng.below(3)
            if name in names:
                continue
            names.add(name)
            nodes.append({"k": "dangling", "name": name})
    return nodes


def gen_tree(rng):
    # files outside the scanned root, reachable through symlinks only
    ext = []
    for i in range(rng.range(0, 3)):
        ext.append(dict({"k": "file", "name": "e%d" % i}, **gen_content(rng)))
    extd = []
    for i in range(rng.range(0, 2)):
        extd.append({"k": "dir", "name": "ed%d" % i, "children": gen_nodes(rng, [3], 2, [], [], False)})
    ext_files = [e["name"] for e in ext]
    ext_dirs = [e["name"] for e in extd]
    budget = [rng.choice([3, 6, 10, 20, 30])]
    tree = gen_nodes(rng, budget, 0, ext_files, ext_dirs)
    if not any(n["k"] == "file" for n in tree):
        tree.append(dict({"k": "file", "name": "only"}, **gen_content(rng)))
    return rng.choice(["t", "t", "dir with space", "rööt"]), tree, ext + extd


def files_of(nodes, prefix):
    """regular files of the generated tree (not through links): [(path, node)]"""
    out = []
    for n in nodes:
        p = prefix + "/" + n["name"]
        if n["k"] == "file":
            out.append((p, n))
        elif n["k"] == "dir":
            out += files_of(n["children"], p)
    return out


# ---------------------------------------------------------------------------------------- generation: invocations
def gen_flags(rng, decls):
    f = {}
    style = rng.below(6)
    p = (1, 2) if style else (0, 1)
    for k in "sLXmge":
        f[k] = rng.chance(*p) if style != 1 else True
    f["c"] = rng.chance(1, 6)
    f["n"] = rng.chance(1, 4)
    f["l"] = rng.choice([None, None, None, None, None, None, 1, 2, 3, 1000]) if not rng.chance(1, 40) else 0
    names = [d["name"] for d in decls if not d["private"]] or ["nothing"]
    used_tags = sorted(set(t for d in decls for t in d["tags"])) or ["t1"]
    filt = rng.below(12)
    nss = sorted(set(d["ns"] for d in decls))
    f["i"] = rng.choice([rng.choice(names)] * 5 + ["nosuchrule", rng.choice(nss)]) if filt in (0, 2) else None
    f["t"] = rng.choice([rng.choice(used_tags)] * 6 + [rng.choice(TAGS), "t"]) if filt in (1, 2, 3) else None
    f["mml"] = rng.choice([None, None, None, 0, 1, 2, 5, 511, 512, 513, 600, 100000])
    f["smax"] = rng.choice([None, None, None, 1, 2, 3, 1000])
    if f["s"] or f["L"] or f["X"]:
        # keep the printed volume (and the Coq term) small: few matches per string, or short data
        if f["mml"] is None or f["mml"] > 64:
            f["smax"] = rng.choice([1, 2, 3, 5])
        elif f["smax"] is None or f["smax"] > 20:
            f["smax"] = rng.choice([1, 2, 3, 5, 20])
    f["w"] = rng.choice(["print", "print", "print", "ignore", "fail"])
    f["timeout"] = rng.choice([None, None, None, 1000])
    f["chunk"] = rng.choice([None, None, None, 4096])
    f["maxfetch"] = rng.choice([None, None, None, 65536])
    f["mode"] = rng.choice([None, None, None, "legacy", "fast", "singlepass"])
    return f


def gen_invocation(rng, decls, root, tree, ext):
    inv = {"mode": rng.choice(["scan", "scan", "yr", "yr", "load", "yrC"]), "flags": gen_flags(rng, decls),
           "threads": rng.choice([None, 1, 1, 2, 2, 3, 4, 5, 8, 13, 16] * 3 + [0]),
           "no_mmap": rng.chance(1, 3), "recursive": rng.chance(3, 5), "no_follow": rng.chance(1, 5),
           "skip_larger": rng.choice([None] * 12 + [0, 1, 10, 50, 600, 70000, 10 ** 9])}
    k = rng.below(10)
    all_files = files_of(tree, root)
    if k < 6:
        inv["target"] = {"kind": "dir"}
    elif k < 8:
        choice = rng.below(6)
        if choice == 0:
            path = root + "/no such file"
        elif choice == 1 and any(n["k"] == "linkfile" for n in tree):
            path = root + "/" + [n for n in tree if n["k"] == "linkfile"][0]["name"]
        else:
            path = rng.choice(all_files)[0]
        inv["target"] = {"kind": "file", "path": path}
    else:
        entries = []
        # unreadable entries first: a worker that gave up after an error would leave the rest unscanned
        for i in range(rng.choice([0, 0, 1, 2, 3, 17])):
            entries.append(rng.choice(["missing%d" % i, root + "/gone %d" % i, ""]))
        picks = rng.shuffle(all_files)[:rng.range(1, 12)]
        for pth, _ in picks:
            entries.append(pth)
        if rng.chance(1, 2):
            entries.append(root)
        subdirs = [root + "/" + n["name"] for n in tree if n["k"] == "dir"]
        if subdirs and rng.chance(1, 2):
            entries.append(rng.choice(subdirs))
        if rng.chance(1, 3) and picks:
            entries.append(picks[0][0])        # the same file twice
        if rng.chance(1, 3):
            entries.insert(rng.below(len(entries) + 1), "missing-late")
        if rng.chance(1, 2):
            entries = rng.shuffle(entries)
        inv["target"] = {"kind": "list", "entries": entries, "final_newline": rng.chance(1, 2)}
    return inv


# ---------------------------------------------------------------------------------------- flags -> argv / params
def argv_flags(rng, inv):
    f = inv["flags"]
    a = []

    def flag(short, long_):
        a.append(short if rng.chance(1, 2) else long_)

    if f["s"]:
        flag("-s", "--print-strings")
    if f["L"]:
        flag("-L", "--print-string-length")
    if f["X"]:
        flag("-X", "--print-xor-key")
    if f["m"]:
        flag("-m", "--print-meta")
    if f["g"]:
        flag("-g", "--print-tags")
    if f["e"]:
        flag("-e", "--print-namespace")
    if f["c"]:
        flag("-c", "--count")
    if f["n"]:
        flag("-n", "--negate")
    if f["l"] is not None:
        a += [rng.choice(["-l", "--max-rules"]), str(f["l"])]
    if f["i"] is not None:
        a += [rng.choice(["-i", "--identifier"]), f["i"]]
    if f["t"] is not None:
        a += [rng.choice(["-t", "--tag"]), f["t"]]
    if f["mml"] is not None:
        a += ["--match-max-length", str(f["mml"])]
    if f["smax"] is not None:
        a += ["--string-max-nb-matches", str(f["smax"])]
    if f["w"] == "ignore":
        flag("-w", "--no-warnings")
    elif f["w"] == "fail":
        a.append("--fail-on-warnings")
    if f["timeout"] is not None:
        a += [rng.choice(["-a", "--timeout"]), str(f["timeout"])]
    if f["chunk"] is not None:
        a += ["--max-process-memory-chunk", str(f["chunk"])]
    if f["maxfetch"] is not None:
        a += ["--max-fetched-region-size", str(f["maxfetch"])]
    if f["mode"] is not None:
        a += ["--fragmented-scan-mode", f["mode"]]
    if inv["threads"] is not None:
        a += [rng.choice(["-p", "--threads"]), str(inv["threads"])]
    if inv["no_mmap"]:
        a.append("--no-mmap")
    if inv["recursive"]:
        flag("-r", "--recursive")
    if inv["no_follow"]:
        flag("-N", "--no-follow-symlinks")
    if inv["skip_larger"] is not None:
        a += [rng.choice(["-z", "--skip-larger"]), str(inv["skip_larger"])]
    if inv["target"]["kind"] == "list":
        a.append("--scan-list")
    return rng.shuffle_groups(a) if hasattr(rng, "shuffle_groups") else a


EV = {"match": 1, "nomatch": 2, "import": 4, "stats": 8, "limit": 16}


def params_of_flags(f):
    """Python mirror of Model/Cli.v params_of_flags; the Coq term checks `used = params_of_flags s o`."""
    ev = 0
    if f["w"] != "ignore":
        ev |= EV["limit"]
    ev |= EV["nomatch"] if f["n"] else EV["match"]
    return {"compute_full_matches": bool(f["s"] or f["L"] or f["X"]),
            "match_max_length": 512 if f["mml"] is None else f["mml"],
            "string_max_nb_matches": 1000 if f["smax"] is None else f["smax"],
            "include_not_matched": bool(f["n"]), "events": ev, "statistics": False,
            "memory_chunk_size": f["chunk"], "timeout": f["timeout"],
            "max_fetched_region_size": (1 << 30) if f["maxfetch"] is None else f["maxfetch"],
            "mode": {None: "legacy", "legacy": "legacy", "fast": "fast", "singlepass": "single_pass"}[f["mode"]]}


# ---------------------------------------------------------------------------------------- Gallina printing
def gb(s):
    return gbytes(s.encode() if isinstance(s, str) else s)


def g_info(ns, name, tags, metas):
    ms = []
    for n, t, v in metas:
        if t == "bytes":
            val = "MBytes %s" % gbytes(bytes.fromhex(v))
        elif t == "int":
            val = "MInt %s" % gZ(v)
        else:
            val = "MBool %s" % gbool(v)
        ms.append("(%s, %s)" % (gb(n), val))
    return "{| r_ns := %s; r_name := %s; r_tags := %s; r_metas := %s |}" % (gb(ns), gb(name), glist([gb(t) for t in tags]),
                                                                            glist(ms))


def g_match(m):
    return "{| m_base := %d; m_offset := %d; m_length := %d; m_key := %d; m_data := %s |}" % (
        m["base"], m["offset"], m["length"], m["key"], gbytes(bytes.fromhex(m["data"])))


def g_matches(ms):
    """runs of >= 4 matches that differ only in their offset are printed as `rep_matches …` (CliCase.v)"""
    parts, i = [], 0
    while i < len(ms):
        key = (ms[i]["base"], ms[i]["length"], ms[i]["key"], ms[i]["data"])
        j = i
        while j < len(ms) and (ms[j]["base"], ms[j]["length"], ms[j]["key"], ms[j]["data"]) == key:
            j += 1
        if j - i >= 4:
            parts.append("rep_matches %d %d %d %s %s" % (key[0], key[1], key[2], gbytes(bytes.fromhex(key[3])),
                                                         glist([gN(m["offset"]) for m in ms[i:j]])))
        else:
            parts.append(glist([g_match(m) for m in ms[i:j]]))
        i = j
    if not parts:
        return "[]"
    return parts[0] if len(parts) == 1 else "(" + " ++ ".join(parts) + ")"


def front_code(lines):
    """stdout lines coded against the previous line: (shared prefix, middle, shared suffix) — `unfront` in CliCase.v"""
    out, prev = [], b""
    for ln in lines:
        p = 0
        m = min(len(ln), len(prev))
        while p < m and ln[p] == prev[p]:
            p += 1
        sfx = 0
        while sfx < m - p and ln[len(ln) - 1 - sfx] == prev[len(prev) - 1 - sfx]:
            sfx += 1
        out.append((p, ln[p:len(ln) - sfx], sfx))
        prev = ln
    # the decoder, mirrored: refuse to emit a coding that does not give the lines back
    chk, prev = [], b""
    for p, mid, sfx in out:
        ln = prev[:p] + mid + (prev[len(prev) - sfx:] if sfx else b"")
        chk.append(ln)
        prev = ln
    assert chk == list(lines)
    return "(unfront %s)" % glist(["(%d, %s, %d)" % (p, gbytes(mid), sfx) for p, mid, sfx in out])


def g_lines(lines):
    plain = glist([gbytes(l) for l in lines])
    if len(plain) < 4000:
        return plain
    return front_code(lines)


def g_strings(strings, tbl=None, keep=True):
    """match lists of one rule; `tbl` interns equal lists (events and results carry the same data);
    keep=False: the invocation prints no string matches, neither model nor spec looks at them"""
    if not keep:
        return "[]"
    txt = glist(["(%s, %s)" % (gbytes(bytes.fromhex(s["name"])), g_matches(s["matches"])) for s in strings])
    if tbl is None or len(txt) < 40:
        return txt
    if txt not in tbl:
        tbl[txt] = "ms%d" % len(tbl)
    return tbl[txt]



# ---------------------------------------------------------------------------------------- rule arguments, defines
def rule_args_of(case):
    return [rf.get("arg") or ((rf["ns"] + ":" if rf["ns"] else "") + rf["name"]) for rf in case["rule_files"]]


def py_parse_i64(v):
    body = v[1:] if v[:1] in ("-", "+") else v
    if not body or not all("0" <= c <= "9" for c in body):
        return None
    z = int(body) * (-1 if v[:1] == "-" else 1)
    return z if -2 ** 63 <= z <= 2 ** 63 - 1 else None


def py_parses_as_float(v):
    import re
    return re.fullmatch(r"[+-]?([0-9]+\.[0-9]*|\.[0-9]+)([eE][+-]?[0-9]+)?", v) is not None


def py_parse_define(arg):
    """Python mirror of Model/Cli.v parse_define (the Coq term checks that they agree)"""
    name, value = arg.split("=", 1)
    if value == "true":
        return name, "bool", True
    if value == "false":
        return name, "bool", False
    if "." in value:
        return (name, "float", value) if py_parses_as_float(value) else (name, "bytes", value)
    z = py_parse_i64(value)
    return (name, "int", z) if z is not None else (name, "bytes", value)


DEFINE_VALUES = ["5", "+5", "-0", "007", "-17", "9223372036854775807", "-9223372036854775808", "9223372036854775808",
                 "1.5", "1.", ".5", "-2.25", "1.5e3", "1.2.3", "1e5", "1.e", "true", "false", "True", "", "x=y", "0x10",
                 "-", "+", " 5", "abc", "a.b", ".", "inf", "héllo", "3.0"]


def gen_defines(rng, rf, decls):
    """external symbols: (-d args, rules that are true exactly when the symbol has the value the model derives)"""
    defs = []
    ns0 = rf[0]["ns"] or "default"
    for k in range(rng.choice([1, 2, 3])):
        name = "ext_%d" % k
        value = rng.choice(DEFINE_VALUES)
        arg = "%s=%s" % (name, value)
        _, kind, v = py_parse_define(arg)
        if kind == "bool":
            cond = name if v else "not %s" % name
        elif kind == "int":
            cond = "%s == %d" % (name, v) if v > -2 ** 63 else "%s < -9223372036854775807" % name
        elif kind == "float":
            fv = float(v)
            cond = "%s > %r and %s < %r" % (name, fv - 0.25, name, fv + 0.25)
            cond = cond.replace("e+", "e")
        else:
            cond = '%s == "%s"' % (name, yara_escape(v.encode()))
        rname = "uses_%s" % name
        rf[0]["text"] += "rule %s { condition: %s }\n" % (rname, cond)
        decls.append({"ns": ns0, "name": rname, "tags": [], "metas": [], "private": False, "global": False, "strings": []})
        defs.append({"arg": arg, "name": name, "kind": kind, "value": v})
    return defs


def variant_rule_files(rng, rf, decls):
    """file names with a colon; a decoy file next to a `ns:file` argument. Returns extra files to create."""
    extra = []
    for i, r in enumerate(rf):
        k = rng.below(10)
        if k == 0:
            r["name"] = "r:%d.yar" % i                      # a colon in the file name itself
        elif k == 1 and r["ns"] is None:
            r["name"] = "x:rules%d.yar" % i                 # exists as a whole: not a namespace prefix
            extra.append({"name": "rules%d.yar" % i, "text": "rule decoy_%d { condition: true }\n" % i})
        elif k == 2:
            r["name"] = "my rules %d.yar" % i
    return extra


class C18(Prop):
    ID = "C18"
    LEVEL = "proof"
    COQ_TARGETS = ["theories/Properties/C18.vo"]
    MODEL_TARGETS = ["theories/Spec/CliSpec.vo", "theories/Model/Cli.vo", "theories/Model/Pool.vo",
                     "theories/Model/CliCase.vo"]
    CASE_HEADER = "From Boreal Require Import Base.Prelude Spec.CliSpec Model.Cli Model.CliCase."
    HARNESS_BINS = ("c18",)
    KF = {}
    RULE = ("one case = one invocation of target/debug/boreal (rebuilt from /repo) on generated rule files (1-3 files, "
            "namespaces, private/global rules, tags, metadata of every type, text/xor/hex/regex strings, private "
            "strings) and a generated tree (<= 30 files, nested directories, names with spaces/unicode/quotes, empty "
            "files, a 70-300 KB file with the token at its end, runs longer than match_max_length, symlinks to files and "
            "directories, dangling links): subcommands scan / yr / save+load / save+yr -C, random subsets of "
            "-s -L -X -m -g -e -c -n -l -i -t --match-max-length --string-max-nb-matches -w --fail-on-warnings, threads "
            "none/0/1..16, --no-mmap, -r, -N, -z, targets directory / single file / --scan-list (missing entries first, "
            "duplicates, directories), -d defines over boundary values, rule-file names containing ':' with decoys, rules "
            "that do not compile. Every ninth case is a controlled schedule: a scan list of named pipes under --no-mmap, "
            "the driver observes how many workers read concurrently and chooses the completion order; stdout must then "
            "be the exact sequence the model predicts. For uncontrolled runs stdout must be the model's multiset and an "
            "interleaving of whole per-event blocks. Non-trivial: at least two files scanned and at least two stdout "
            "lines; distinct by (options, target, rules, tree).")
    TRUSTED = ["Coq 8.16.1 kernel + vm_compute", "harness/src/bin/c18.rs (reads each file itself, scan_mem / "
               "scan_mem_with_callback)", "vlib/props/c18.py (materialises files, builds argv, splits stdout/stderr "
               "into lines, prints the case as a Gallina term; classifies list entries as file/directory; os.walk for "
               "the flat file list of the specification)",
               "clap's argv parsing is exercised, not modelled"]
    ASSUMPTIONS = ["crossbeam bounded channel: every sent item is received by exactly one receiver, FIFO; send blocks "
                   "while the channel is full; recv fails only when closed and empty (Model/Pool.v is a transition "
                   "system with exactly these steps)",
                   "termination: proved for the model only (every schedule is finite and deadlock-free, given that each "
                   "scan delivers finitely many events); that real scans, the OS and the walk terminate is not",
                   "the library's callback API and result-list API agree (C05/C15); C18_render assumes it, the "
                   "correspondence checks model and specification separately against the two APIs' actual answers",
                   "real thread schedules and mmap vs read are exercised at run time only: OS scheduling with 1..16 "
                   "workers, plus driver-controlled completion orders through named pipes",
                   "-D, --scan-stats, process targets, console module output, compile diagnostics, the numeric value of "
                   "a float -d define: not modelled; stderr is compared only for the four message kinds the model knows"]

    # ---------------------------------------------------------------- build the executable under test
    def repo_fingerprint(self):
        rc, head = core.sh(["git", "-C", core.REPO, "rev-parse", "HEAD"])
        rc2, diff = core.sh(["git", "-C", core.REPO, "diff", "HEAD", "--", "boreal", "boreal-cli", "boreal-parser"])
        return head.strip() + ":" + hashlib.sha256(diff.encode()).hexdigest()[:16]

    def build_cli(self):
        with core.Lock("cargo"):
            self.cli_fp = self.repo_fingerprint()
            rc, out = core.cargo_build(["cargo", "build", "--offline", "--quiet", "-p", "boreal-cli"], core.REPO, "debug",
                                       ("boreal", "boreal-parser", "boreal-cli"), timeout=1500,
                                       env={"CARGO_NET_OFFLINE": "true"})
        return rc, out

    def translators(self, ctx):
        probs = []
        rc, out = self.build_cli()
        if rc != 0 or not os.path.exists(CLI):
            probs.append("boreal-cli does not build: " + out[-1200:])
        # defaults of ScanParams the model copies (Model/Cli.v default_params)
        try:
            src = open(os.path.join(core.REPO, "boreal/src/scanner/params.rs")).read()
            i = src.index("impl Default for ScanParams")
            blk = "".join(src[i:i + 900].split())
            for want in ["compute_full_matches:false", "match_max_length:512", "string_max_nb_matches:1_000",
                         "timeout_duration:None", "compute_statistics:false", "max_fetched_region_size:1024*1024*1024",
                         "memory_chunk_size:None", "fragmented_scan_mode:FragmentedScanMode::legacy()",
                         "callback_events:CallbackEvents::RULE_MATCH", "include_not_matched_rules:false"]:
                if want not in blk:
                    probs.append("ScanParams::default changed: expected `%s`" % want)
        except Exception as e:
            probs.append("cannot read defaults: %r" % (e,))
        return probs

    # ---------------------------------------------------------------- generation
    def gen_case(self, rng, shared=None):
        if shared is None:
            rf, decls = gen_rules(rng.fork("rules"))
            root, tree, ext = gen_tree(rng.fork("tree"))
            shared = (rf, decls, root, tree, ext)
        rf, decls, root, tree, ext = shared
        rf = [dict(r) for r in rf]
        decls = list(decls)
        r2 = rng.fork("compile")
        extra = variant_rule_files(r2, rf, decls) if r2.chance(1, 3) else []
        defines = gen_defines(r2, rf, decls) if r2.chance(1, 4) else []
        if r2.chance(1, 50):
            rf[-1]["text"] += "rule broken { condition: $undeclared }\n"
        inv = gen_invocation(rng.fork("inv"), decls, root, tree, ext)
        inv["argv_flags"] = argv_flags(rng.fork("argv"), inv)
        return {"rule_files": rf, "decls": decls, "root": root, "tree": tree, "ext": ext, "inv": inv,
                "extra_files": extra, "defines": defines}

    def gen_big(self, rng, size):
        """large events: one rule with hundreds of matches per file, printed with -s/-L/-X, a directory scanned by
        several workers.  size 0: > 8 KiB per event; 1: > 16 KiB; 2: > 64 KiB (the buffer sizes of std's LineWriter /
        BufWriter and of a pipe).  What C18_interleaving says — one event, one uninterrupted block — seen from outside."""
        unit = rng.choice([b"ab", b"ab", b"abc", b"hello "])
        nfiles = rng.range(3, 7)
        tree = []
        for i in range(nfiles):
            reps = rng.choice([1000, 1300, 2000]) if i < nfiles - 1 else rng.choice([450, 1000])
            body = unit * reps + rng.bytes(rng.range(0, 9), FILLER)
            tree.append({"k": "file", "name": FILE_NAMES[i], "hex": hx(body)})
        for i in range(rng.range(1, 4)):          # and a few ordinary files in between
            tree.append(dict({"k": "file", "name": "small%d" % i}, **gen_content(rng)))
        tree = rng.shuffle(tree)
        if size == 2:
            strdecl = '$b = /%s.{70}/s' % unit.decode().strip()
        else:
            strdecl = rng.choice(['$b = "%s"' % unit.decode(), '$b = { %s }' % " ".join("%02X" % c for c in unit)])
        text = ("rule many_matches : t1 {\n  meta:\n    n = 1\n  strings:\n    %s\n  condition:\n    #b > 2\n}\n"
                "rule other { strings: $x = \"hello\" condition: $x or filesize > 0 }\n" % strdecl)
        rf = [{"ns": None, "name": "rules0.yar", "text": text}]
        decls = [{"ns": "default", "name": "many_matches", "tags": ["t1"], "metas": [["n", "int", 1]], "private": False,
                  "global": False, "strings": [["b", False]]},
                 {"ns": "default", "name": "other", "tags": [], "metas": [], "private": False, "global": False,
                  "strings": [["x", False]]}]
        f = {k: False for k in "sLXmgecn"}
        f.update({"l": None, "i": None, "t": None, "w": rng.choice(["print", "ignore"]), "timeout": None, "chunk": None,
                  "maxfetch": None, "mode": None})
        if size == 0:
            show = rng.choice(["L", "s", "X", "sL"])
            f["mml"] = rng.choice([0, 1, 2])
        elif size == 1:
            show = rng.choice(["sL", "sX", "LX", "sLX"])
            f["mml"] = rng.choice([2, 4, 8])
        else:
            show = rng.choice(["s", "sL"])
            f["mml"] = rng.choice([None, 72, 100])
        for k in show:
            f[k] = True
        f["smax"] = rng.choice([None, None, 1000, 2000 if size < 2 else None])
        f["g"] = rng.chance(1, 3)
        f["e"] = rng.chance(1, 3)
        inv = {"mode": rng.choice(["scan", "scan", "yr", "load"]), "flags": f,
               "threads": rng.choice([2, 2, 3, 4, 8, 16, None]), "no_mmap": rng.chance(1, 3), "recursive": rng.chance(1, 2),
               "no_follow": False, "skip_larger": None, "target": {"kind": "dir"}, "big": size}
        inv["argv_flags"] = argv_flags(rng.fork("argv"), inv)
        return {"rule_files": rf, "decls": decls, "root": "t", "tree": tree, "ext": [], "inv": inv}

    def gen_shrink(self, rng):
        """buffered reading (--no-mmap) of files of decreasing sizes by few workers: every file has its own token in its
        last bytes and rules look at filesize, so anything a worker keeps from the previous (larger) file shows as a
        spurious rule line, string-match line or a wrong filesize verdict.  In a scan list the order is the list's."""
        k = rng.range(3, 7)
        sizes = sorted(set([rng.choice([0, 0, 1, 7, 40, 300]), rng.range(60, 400), rng.range(500, 3000),
                            rng.range(3000, 9000), rng.choice([70000, 20000, 9000])][:k] + [rng.range(10, 60)]), reverse=True)
        tree, text, decls = [], "", []
        for i, sz in enumerate(sizes):
            tok = ("TAIL%dEND" % i).encode()
            body = rng.bytes(max(0, sz - len(tok)), FILLER) + tok if sz >= len(tok) else b"z" * sz
            tree.append({"k": "file", "name": "f%d_%s" % (i, rng.choice(["a", "b c", "é"])), "hex": hx(body)})
            text += 'rule tail%d { strings: $t = "%s" condition: $t }\n' % (i, tok.decode())
            decls.append({"ns": "default", "name": "tail%d" % i, "tags": [], "metas": [], "private": False, "global": False,
                          "strings": [["t", False]]})
            text += "rule size%d { condition: filesize == %d }\n" % (i, len(body))
            decls.append({"ns": "default", "name": "size%d" % i, "tags": [], "metas": [], "private": False, "global": False,
                          "strings": []})
        text += "rule small { condition: filesize < 50 }\nrule ends { strings: $e = /END$/ condition: $e }\n"
        for nm, strs in (("small", []), ("ends", [["e", False]])):
            decls.append({"ns": "default", "name": nm, "tags": [], "metas": [], "private": False, "global": False,
                          "strings": strs})
        f = {x: False for x in "sLXmgecn"}
        f.update({"l": None, "i": None, "t": None, "mml": rng.choice([None, 4]), "smax": None, "w": "print", "timeout": None,
                  "chunk": None, "maxfetch": None, "mode": None})
        for x in rng.choice(["", "s", "sL", "c", "n", "ns"]):
            f[x] = True
        if rng.chance(2, 3):
            entries = ["t/" + n["name"] for n in tree]           # decreasing sizes, in this order
            if rng.chance(1, 3):
                entries = entries + entries[:2]
            target = {"kind": "list", "entries": entries, "final_newline": True}
        else:
            target = {"kind": "dir"}
        inv = {"mode": rng.choice(["scan", "yr", "load"]), "flags": f, "threads": rng.choice([1, 1, 1, 2, 3]),
               "no_mmap": not rng.chance(1, 6), "recursive": False, "no_follow": False, "skip_larger": None,
               "target": target, "shrink": True}
        inv["argv_flags"] = argv_flags(rng.fork("argv"), inv)
        return {"rule_files": [{"ns": None, "name": "rules0.yar", "text": text}], "decls": decls, "root": "t",
                "tree": tree, "ext": [], "inv": inv}

    def gen_probe(self, rng):
        """controlled schedule: a scan list of named pipes, --no-mmap, n workers; the driver picks the completion order"""
        for k in range(20):
            rf, decls = gen_rules(rng.fork("rules%d" % k))
            if not any(d["global"] for d in decls):
                break
        else:
            rf, decls = [{"ns": None, "name": "rules0.yar", "text": ""}], []
        rf = [dict(r) for r in rf]
        rf[-1]["text"] += "rule zz_always { condition: true }\nrule zz_never { condition: false }\n"
        ns = rf[-1]["ns"] or "default"
        for nm in ("zz_always", "zz_never"):
            decls = decls + [{"ns": ns, "name": nm, "tags": [], "metas": [], "private": False, "global": False, "strings": []}]
        threads = rng.choice([1, 2, 2, 3, 4, 5, 8, 16])
        m = rng.range(1, min(threads + 4, 12)) if not rng.chance(1, 3) else threads + rng.range(1, 3)
        names = rng.shuffle(FILE_NAMES)[:m]
        fifos = [{"name": nm, "hex": gen_content(rng).get("hex", hx(b"abc hello"))} for nm in names]
        f = gen_flags(rng.fork("flags"), decls)
        f["i"] = f["t"] = f["l"] = None
        if f["w"] == "fail":
            f["w"] = "print"
        f["c"] = rng.chance(1, 2)
        inv = {"mode": rng.choice(["scan", "yr", "load"]), "flags": f, "threads": threads, "no_mmap": True,
               "recursive": rng.chance(1, 2), "no_follow": False, "skip_larger": None,
               "target": {"kind": "list", "entries": ["t/" + x["name"] for x in fifos], "final_newline": True},
               "probe": {"fifos": fifos, "choices": [rng.below(1000) for _ in fifos]}}
        inv["argv_flags"] = argv_flags(rng.fork("argv"), inv)
        return {"rule_files": rf, "decls": decls, "root": "t", "tree": [], "ext": [], "inv": inv}

    def gen_specials(self, rng):
        """other entry points of the executable: yr argument errors, module listing, save onto an existing file"""
        out = [{"special": "modules", "cmd": ["list-modules"], "module_names": True, "load": False, "positional": []},
               {"special": "modules", "cmd": ["yr", rng.choice(["-M", "--module-names"])], "module_names": True,
                "load": False, "positional": []},
               {"special": "modules", "cmd": ["yr", "-M", "-C", "a", "b"], "module_names": True, "load": True,
                "positional": ["a", "b"]}]
        # r.yar, c1.bin, c2.bin (saved rules) and target exist: a tool that went on would print a match
        for pos, load in [(["r.yar"], False), (["target"], True), (["c1.bin", "c2.bin", "target"], True),
                          (["c1.bin"], True), (["target"], False)]:
            flags = rng.choice([[], ["-s"], ["-r", "-p", "2"], ["-n", "-c"]])
            out.append({"special": "yr-args", "cmd": ["yr"] + (["-C"] if load else []) + flags + ["--"] + pos,
                        "module_names": False, "load": load, "positional": pos})
        out.append({"special": "save-twice", "text": 'rule a { strings: $a = "abc" condition: $a }\n'})
        # targets that are no file: a pid if it parses as u32 (pids above the kernel's maximum cannot exist)
        for arg in ["4194999", "+4200001", "4294967295", "4294967296", "99999999999", "12ab", "-5x", "0x10", "4194999 "]:
            out.append({"special": "input", "arg": arg, "cmd": [rng.choice(["scan", "yr"])]})
        for arg in ["4195000", "77"]:
            out.append({"special": "input", "arg": arg, "cmd": [rng.choice(["scan", "yr"])], "exists": True})
        return out

    def generate(self, ctx, rng, n):
        cases = []
        i = 0
        while len(cases) < n:
            r = rng.fork("g%d" % i)
            i += 1
            rf, decls = gen_rules(r.fork("rules"))
            root, tree, ext = gen_tree(r.fork("tree"))
            for k in range(4):
                cases.append(self.gen_case(r.fork("k%d" % k), (rf, decls, root, tree, ext)))
            if i % 2 == 0:
                cases.append(self.gen_probe(r.fork("probe")))
        # large events: at least one of each size class, one more per 80 cases
        big = [self.gen_big(rng.fork("big%d" % k), k % 3) for k in range(max(3, n // 80))]
        shrink = [self.gen_shrink(rng.fork("shrink%d" % k)) for k in range(max(4, n // 40))]
        return self.gen_specials(rng.fork("specials")) + big + shrink + cases[:n]

    def budget(self, tier):
        return 240 if tier == "quick" else 2400

    def extra_search(self, ctx, rng, around):
        return self.generate(ctx, rng, 48)

    def corpus(self, ctx):
        out = []
        d = os.path.join(core.VERIF, "corpus", "C18")
        if os.path.isdir(d):
            for f in sorted(os.listdir(d)):
                if f.endswith(".json"):
                    out.append(core.load_case_file(os.path.join(d, f))["case"])
        return out

    # ---------------------------------------------------------------- execution
    def materialise_nodes(self, d, nodes, ext_root):
        for n in nodes:
            p = os.path.join(d, n["name"])
            if n["k"] == "file":
                with open(p, "wb") as f:
                    f.write(content_bytes(n))
            elif n["k"] == "dir":
                os.makedirs(p, exist_ok=True)
                self.materialise_nodes(p, n["children"], ext_root)
            elif n["k"] in ("linkfile", "linkdir"):
                os.symlink(os.path.join(ext_root, n["target"]), p)
            else:
                os.symlink(os.path.join(ext_root, "does-not-exist"), p)

    def materialise(self, d, case):
        os.makedirs(d)
        for rf in case["rule_files"] + case.get("extra_files", []):
            open(os.path.join(d, rf["name"]), "w").write(rf["text"])
        ext_root = os.path.join(d, "ext")
        os.makedirs(ext_root)
        self.materialise_nodes(ext_root, case["ext"], ext_root)
        os.makedirs(os.path.join(d, case["root"]))
        self.materialise_nodes(os.path.join(d, case["root"]), case["tree"], ext_root)
        t = case["inv"]["target"]
        if t["kind"] == "list":
            txt = "\n".join(t["entries"]) + ("\n" if t.get("final_newline") else "")
            open(os.path.join(d, "list.txt"), "w").write(txt)

    def target_arg(self, case):
        t = case["inv"]["target"]
        return case["root"] if t["kind"] == "dir" else t["path"] if t["kind"] == "file" else "list.txt"

    def list_entries(self, case):
        """entries as BufRead::lines yields them"""
        t = case["inv"]["target"]
        txt = "\n".join(t["entries"]) + ("\n" if t.get("final_newline") else "")
        lines = txt.split("\n")
        if lines and lines[-1] == "":
            lines.pop()
        return lines

    def run_cli(self, d, case):
        inv = case["inv"]
        env = dict(os.environ, RUST_BACKTRACE="0", NO_COLOR="1")
        if inv["mode"] in ("load", "yrC"):
            pre = subprocess.run(self.save_cmd(case), cwd=d, env=env, stdout=subprocess.PIPE, stderr=subprocess.PIPE,
                                 timeout=self.cur_limit())
            if pre.returncode != 0:
                return {"save_failed": pre.returncode, "stdout": pre.stdout.hex(),
                        "stderr": pre.stderr.decode("utf-8", "replace")[-800:]}
        cmd = self.cli_cmd(case)
        try:
            p = subprocess.run(cmd, cwd=d, env=env, stdout=subprocess.PIPE, stderr=subprocess.PIPE, timeout=self.cur_limit())
        except subprocess.TimeoutExpired as ex:
            return {"timeout": True, "cmd": cmd[1:], "stdout": (ex.stdout or b"")[-2000:].hex()}
        return {"rc": p.returncode, "stdout": p.stdout.hex(), "stderr": p.stderr.hex(), "cmd": cmd[1:]}

    def found_below(self, d, start):
        """regular files below directory `start` (relative to d), as the specification sees them:
        (path, depth, size, reached through a symlink)"""
        out = []

        def rec(rel, depth, via):
            full = os.path.join(d, rel)
            try:
                names = sorted(os.listdir(full))
            except OSError:
                return
            for nm in names:
                r = rel + "/" + nm
                f = os.path.join(d, r)
                link = os.path.islink(f)
                if link and not os.path.exists(f):
                    continue
                v = via or link
                if os.path.isdir(f):
                    rec(r, depth + 1, v)
                elif os.path.isfile(f):
                    out.append({"path": r, "depth": depth + 1, "size": os.path.getsize(f), "via": v})

        rec(start, 0, False)
        return out

    def define_args(self, case):
        return sum([["-d", x["arg"]] for x in case.get("defines", [])], [])

    def save_cmd(self, case):
        return ([CLI, "save"] + self.define_args(case) + sum([["-f", r] for r in rule_args_of(case)], [])
                + ["--", "compiled.bin"])

    def cli_cmd(self, case):
        inv = case["inv"]
        rule_args = rule_args_of(case)
        tgt = self.target_arg(case)
        if inv["mode"] == "scan":
            return ([CLI, "scan"] + inv["argv_flags"] + self.define_args(case) + sum([["-f", r] for r in rule_args], [])
                    + ["--", tgt])
        if inv["mode"] == "yr":
            return [CLI, "yr"] + inv["argv_flags"] + self.define_args(case) + ["--"] + rule_args + [tgt]
        if inv["mode"] == "load":
            return [CLI, "load"] + inv["argv_flags"] + ["--", "compiled.bin", tgt]
        return [CLI, "yr", "-C"] + inv["argv_flags"] + ["--", "compiled.bin", tgt]

    def run_probe(self, d, case):
        """named pipes as scan-list entries; returns the cli result plus the observed schedule"""
        inv = case["inv"]
        pr = inv["probe"]
        env = dict(os.environ, RUST_BACKTRACE="0", NO_COLOR="1")
        if inv["mode"] in ("load", "yrC"):
            pre = subprocess.run(self.save_cmd(case), cwd=d, env=env,
                                 stdout=subprocess.PIPE, stderr=subprocess.PIPE, timeout=self.cur_limit())
            if pre.returncode != 0:
                return {"save_failed": pre.returncode, "stdout": pre.stdout.hex(),
                        "stderr": pre.stderr.decode("utf-8", "replace")[-800:]}
        paths = ["t/" + f["name"] for f in pr["fifos"]]
        content = {"t/" + f["name"]: bytes.fromhex(f["hex"]) for f in pr["fifos"]}
        for pth in paths:
            os.mkfifo(os.path.join(d, pth))
        cmd = self.cli_cmd(case)
        proc = subprocess.Popen(cmd, cwd=d, env=env, stdout=subprocess.PIPE, stderr=subprocess.PIPE)
        bufs = {"o": b"", "e": b""}

        def pump(stream, key):
            while True:
                chunk = stream.read1(65536) if hasattr(stream, "read1") else stream.read(4096)
                if not chunk:
                    break
                bufs[key] += chunk

        th = [threading.Thread(target=pump, args=(proc.stdout, "o"), daemon=True),
              threading.Thread(target=pump, args=(proc.stderr, "e"), daemon=True)]
        for t in th:
            t.start()
        deadline = time.time() + self.cur_limit()
        held, released, held_counts, order = {}, set(), [], []
        n = max(1, inv["threads"])
        ok = True
        ok_conc = True
        pipe_closed = False

        def poll_held():
            for pth in paths:
                if pth in held or pth in released:
                    continue
                try:
                    held[pth] = os.open(os.path.join(d, pth), os.O_WRONLY | os.O_NONBLOCK)
                except OSError as ex:
                    if ex.errno != errno.ENXIO:
                        raise

        count_mode = bool(inv["flags"]["c"])

        def has_marker(pth):
            """the *last* line the worker writes for this file has appeared: the count line, or the line of
            the last rule event (zz_always / zz_never are declared last; with -n only zz_never is reported)"""
            pb = pth.encode()
            last_rule = b"zz_never" if inv["flags"]["n"] else b"zz_always"
            for ln in bufs["o"].split(b"\n")[:-1]:
                if count_mode:
                    if ln.startswith(pb + b": "):
                        return True
                elif ln.endswith(b" " + pb) and ln.split(b" ")[0].split(b":")[-1] == last_rule:
                    return True
            return False

        for k in range(len(paths)):
            want = min(n, len(paths) - k)
            # wait until the expected number of workers is blocked reading; then look once more
            # after a short pause so that *more* concurrent readers than expected would be seen too
            # fewer readers than expected for this long: record what is there (and do not wait again)
            settle = time.time() + (max(20, self.cur_limit() / 3) if ok_conc else 0.3)
            while time.time() < min(deadline, settle) and proc.poll() is None:
                poll_held()
                if len(held) >= want:
                    break
                time.sleep(0.002)
            time.sleep(0.02 if k == 0 else 0.002)
            poll_held()
            held_counts.append(len(held))
            if len(held) < want:
                ok_conc = False
            if not held:
                ok = False
                break
            cands = [pth for pth in paths if pth in held]
            pick = cands[pr["choices"][k] % len(cands)]
            fd = held.pop(pick)
            os.set_blocking(fd, True)
            data = content[pick]
            try:
                while data:
                    w = os.write(fd, data)
                    data = data[w:]
            except BrokenPipeError:
                # the tool opened the pipe and closed it without reading to end of file (e.g. it sizes its
                # read by stat): the schedule cannot be controlled through pipes, the probe says nothing
                pipe_closed = True
            finally:
                os.close(fd)
            if pipe_closed:
                break
            released.add(pick)
            order.append(pick)
            while time.time() < deadline and proc.poll() is None and not has_marker(pick):
                time.sleep(0.001)
            if not has_marker(pick):
                # the process may have exited already with the marker still in the pipe
                time.sleep(0.05)
        for fd in held.values():
            os.close(fd)
        if pipe_closed:
            # let the tool run out (every remaining pipe gets a writer that closes at once), then give up
            end = time.time() + 20
            while proc.poll() is None and time.time() < end:
                for pth in paths:
                    try:
                        os.close(os.open(os.path.join(d, pth), os.O_WRONLY | os.O_NONBLOCK))
                    except OSError:
                        pass
                time.sleep(0.01)
            if proc.poll() is None:
                proc.kill()
            return {"inconclusive": "the tool closes a named pipe without reading it to end of file", "cmd": cmd[1:]}
        try:
            proc.wait(timeout=max(1, deadline - time.time()))
        except subprocess.TimeoutExpired:
            proc.kill()
            return {"timeout": True, "cmd": cmd[1:], "stdout": bufs["o"][-2000:].hex()}
        for t in th:
            t.join(timeout=5)
        # regular files with the same content for the harness
        for pth in paths:
            os.unlink(os.path.join(d, pth))
            open(os.path.join(d, pth), "wb").write(content[pth])
        return {"rc": proc.returncode, "stdout": bufs["o"].hex(), "stderr": bufs["e"].hex(), "cmd": cmd[1:],
                "order": order, "held": held_counts, "driver_ok": ok}

    def run_special(self, d, case):
        os.makedirs(d)
        env = dict(os.environ, RUST_BACKTRACE="0", NO_COLOR="1")

        def run(cmd):
            p = subprocess.run([CLI] + cmd, cwd=d, env=env, stdout=subprocess.PIPE, stderr=subprocess.PIPE,
                               timeout=self.cur_limit())
            return {"rc": p.returncode, "stdout": p.stdout.hex(), "stderr": p.stderr.hex(), "cmd": cmd}
        if case["special"] == "save-twice":
            open(os.path.join(d, "r.yar"), "w").write(case["text"])
            first = run(["save", "-f", "r.yar", "out.bin"])
            h1 = hashlib.sha256(open(os.path.join(d, "out.bin"), "rb").read()).hexdigest() if first["rc"] == 0 else None
            second = run(["save", "-f", "r.yar", "out.bin"])
            h2 = hashlib.sha256(open(os.path.join(d, "out.bin"), "rb").read()).hexdigest() if first["rc"] == 0 else None
            return {"first": first, "second": second, "unchanged": h1 is not None and h1 == h2, "rc": second["rc"],
                    "stdout": second["stdout"], "stderr": second["stderr"], "cmd": second["cmd"]}
        if case["special"] == "input":
            open(os.path.join(d, "r.yar"), "w").write("rule a { condition: true }\n")
            if case.get("exists"):
                open(os.path.join(d, case["arg"]), "w").write("some content")
            if case["cmd"][0] == "scan":
                return run(["scan", "-f", "r.yar", "--", case["arg"]])
            return run(["yr", "--", "r.yar", case["arg"]])
        if case["special"] == "yr-args":
            open(os.path.join(d, "r.yar"), "w").write('rule a { strings: $a = "abc" condition: $a }\n')
            open(os.path.join(d, "target"), "w").write("xx abc")
            for nm in ("c1.bin", "c2.bin"):
                run(["save", "-f", "r.yar", nm])
        return run(case["cmd"])

    def cur_limit(self):
        return getattr(self.tl, "limit", CLI_TIMEOUT)

    def one(self, ix_case):
        """One case, with the time limit handled here: a run that exceeds the limit says nothing about the tool on a
        loaded machine, so it is repeated in a fresh directory with a 4x longer limit (twice).  Only when every attempt
        times out is the case reported — as a *hang* of that command line, not as an output mismatch.  After the first
        confirmed hang later time-outs are not retried (a tool that really deadlocks must not cost hours)."""
        limits = [self.base_limit] if self.hang_confirmed else [self.base_limit, 4 * self.base_limit, 4 * self.base_limit]
        last_cmd = None
        for k, lim in enumerate(limits):
            self.tl.limit = lim
            self.tl.suffix = "" if k == 0 else "_retry%d" % k
            try:
                res = self.one_inner(ix_case)
            except subprocess.TimeoutExpired as ex:
                last_cmd = list(ex.cmd)[1:] if isinstance(ex.cmd, (list, tuple)) else str(ex.cmd)
                continue
            except Exception as ex:      # a driver failure is reported on its case, with the case as replay
                import traceback
                return {"dir": os.path.join(self.base, "%d" % ix_case[0]), "candidates": [],
                        "cli": {"driver_exception": "%r\n%s" % (ex, traceback.format_exc()[-1500:])}}
            if res["cli"].get("timeout"):
                last_cmd = res["cli"].get("cmd")
                continue
            if k > 0:
                res["cli"]["retries"] = k
                self.retried += 1
            return res
        self.hang_confirmed = True
        return {"dir": os.path.join(self.base, "%d" % ix_case[0]), "candidates": [],
                "cli": {"hang": True, "cmd": last_cmd, "limits_s": limits,
                        "what": "the executable did not terminate within any of these limits on this command line"}}

    def calibrate(self):
        """time limit from the machine's present speed: the slowest of three trivial invocations, x400, at least 60 s"""
        worst = 0.0
        for _ in range(3):
            t = time.time()
            try:
                subprocess.run([CLI, "list-modules"], stdout=subprocess.PIPE, stderr=subprocess.PIPE, timeout=300)
            except Exception:
                pass
            worst = max(worst, time.time() - t)
        return min(600.0, max(float(CLI_TIMEOUT), 400.0 * worst)), worst

    def pipes_readable(self):
        """capability check, once per round: does the tool read a named pipe given as a scan-list entry to end of
        file (std::fs::read does)?  If not, schedules cannot be controlled through pipes and the probes are skipped."""
        d = os.path.join(self.base, "preflight")
        os.makedirs(d)
        open(os.path.join(d, "r.yar"), "w").write('rule pf { strings: $a = "PIPETOKEN" condition: $a }\n')
        open(os.path.join(d, "list.txt"), "w").write("p\n")
        os.mkfifo(os.path.join(d, "p"))
        env = dict(os.environ, RUST_BACKTRACE="0", NO_COLOR="1")
        proc = subprocess.Popen([CLI, "scan", "--no-mmap", "-p", "1", "--scan-list", "-f", "r.yar", "list.txt"], cwd=d, env=env,
                                stdout=subprocess.PIPE, stderr=subprocess.PIPE)
        end = time.time() + 30
        fd = None
        while fd is None and time.time() < end and proc.poll() is None:
            try:
                fd = os.open(os.path.join(d, "p"), os.O_WRONLY | os.O_NONBLOCK)
            except OSError:
                time.sleep(0.005)
        if fd is not None:
            try:
                os.set_blocking(fd, True)
                os.write(fd, b"xx PIPETOKEN yy")
            except OSError:
                pass
            os.close(fd)
        try:
            so, _ = proc.communicate(timeout=30)
        except subprocess.TimeoutExpired:
            proc.kill()
            return False
        return b"pf p" in so.split(b"\n")

    def one_inner(self, ix_case):
        ix, case = ix_case
        d = os.path.join(self.base, "%d%s" % (ix, getattr(self.tl, "suffix", "")))
        if "special" in case:
            return {"dir": d, "cli": self.run_special(d, case), "candidates": []}
        self.materialise(d, case)
        if "probe" in case["inv"]:
            if not self.probes_enabled:
                return {"dir": d, "candidates": [],
                        "cli": {"inconclusive": "the tool does not read named pipes to end of file (preflight)"}}
            res = {"dir": d, "cli": self.run_probe(d, case)}
            res["candidates"] = ["t/" + f["name"] for f in case["inv"]["probe"]["fifos"]]
            if "inconclusive" in res["cli"]:
                res["candidates"] = []
            return res
        res = {"dir": d, "cli": self.run_cli(d, case)}
        t = case["inv"]["target"]
        if t["kind"] == "dir":
            res["found"] = self.found_below(d, case["root"])
            res["candidates"] = [f["path"] for f in res["found"]]
        elif t["kind"] == "file":
            res["candidates"] = [t["path"]]
        else:
            ents, cands = [], []
            for e in self.list_entries(case):
                if e != "" and os.path.isdir(os.path.join(d, e)):
                    fs = self.found_below(d, e)
                    ents.append({"dir": e, "found": fs})
                    cands += [f["path"] for f in fs]
                else:
                    ents.append({"file": e})
                    cands.append(e)
            res["entries"] = ents
            res["candidates"] = cands
        seen, uniq = set(), []
        for c in res["candidates"]:
            if c not in seen:
                seen.add(c)
                uniq.append(c)
        res["candidates"] = uniq
        return res

    def execute(self, ctx, cases):
        # the executable and the harness must come from the same source tree: another agent may have
        # committed to /repo between the two builds
        if getattr(self, "cli_fp", None) != self.repo_fingerprint():
            self.build_cli()
            core.harness_build(self.HARNESS_BINS)
            ctx.notes.append("/repo changed between the CLI build and the harness build: both rebuilt")
        if not hasattr(ctx, "c18_round"):
            ctx.c18_round = 0
        ctx.c18_round += 1
        self.base = os.path.join(WORK, "c18_%d_%d" % (os.getpid(), ctx.c18_round))
        ctx.workdirs = getattr(ctx, "workdirs", []) + [self.base]
        shutil.rmtree(self.base, ignore_errors=True)
        os.makedirs(self.base)
        self.tl = threading.local()
        self.retried = 0
        self.hang_confirmed = False
        self.base_limit, cal = self.calibrate()
        if os.environ.get("C18_BASE_LIMIT"):          # test hook for the retry / hang path only
            self.base_limit = float(os.environ["C18_BASE_LIMIT"])
        if self.base_limit > CLI_TIMEOUT:
            ctx.notes.append("loaded machine: a trivial invocation took %.2fs, time limit per invocation %.0fs" % (cal, self.base_limit))
        self.probes_enabled = True
        if any("inv" in c and "probe" in c["inv"] for c in cases):
            try:
                self.probes_enabled = self.pipes_readable()
            except Exception as ex:
                self.probes_enabled = False
                ctx.notes.append("pipe preflight failed: %r" % (ex,))
            if not self.probes_enabled:
                ctx.notes.append("controlled-schedule probes skipped: the tool does not read a named pipe to end of file")
        with ThreadPoolExecutor(max_workers=6) as ex:
            pre = list(ex.map(self.one, list(enumerate(cases))))
        if self.retried:
            ctx.notes.append("%d invocation(s) exceeded the time limit once and were repeated (load)" % self.retried)
            ctx.count("repeated-after-timeout", self.retried)
        hc = []
        for case, r in zip(cases, pre):
            if "special" in case:
                h = {"special": "modules"}
                if case["special"] == "input":
                    a = case["arg"]
                    body = a[1:] if a[:1] == "+" else a
                    if body.isdigit() and body.isascii() and int(body) <= 4294967295:
                        h["pid"] = int(body)
                    h["path"] = os.path.join(r["dir"], a)
                hc.append(h)
                continue
            syms = []
            for x in case.get("defines", []):
                if x["kind"] == "bytes":
                    syms.append({"name": x["name"], "bytes": hx(x["value"].encode())})
                elif x["kind"] == "float":
                    syms.append({"name": x["name"], "float": float(x["value"])})
                else:
                    syms.append({"name": x["name"], x["kind"]: x["value"]})
            hc.append({"cwd": r["dir"], "rules": [{"ns": rf["ns"], "file": rf["name"]} for rf in case["rule_files"]],
                       "csymbols": syms,
                       "params": params_of_flags(case["inv"]["flags"]), "files": r["candidates"]})
        libs = core.harness_run(ctx.binp, "c18", hc)
        outs = []
        for case, r, lib in zip(cases, pre, libs):
            o = {"cli": r["cli"], "lib": lib, "found": r.get("found"), "entries": r.get("entries")}
            outs.append(o)
            if "special" in case:
                ctx.count("special=" + case["special"])
                continue
            inv = case["inv"]
            if "shrink" in inv:
                ctx.count("decreasing-sizes" + ("-no-mmap" if inv["no_mmap"] else "") + "-p%s" % inv["threads"])
            if "big" in inv:
                try:
                    ctx.count("large-events")
                    mx = max([len(e["rule"]["strings"][0]["matches"]) for fe in lib["files"] for e in fe["events"]
                              if e["ev"] == "rule" and e["rule"]["strings"]] or [0])
                    ctx.count("large-events-max-matches-per-event>=%d" % (1000 if mx >= 1000 else 400 if mx >= 400 else 0))
                    mlines = [len(l) + 1 for l in bytes.fromhex(r["cli"]["stdout"]).split(b"\n") if l.startswith(b"0x") and b"$b" in l]
                    ev_bytes = mx * (min(mlines) if mlines else 0)
                    ctx.count("large-events-bytes-per-event>=%s" % (
                        "64KiB" if ev_bytes >= 65536 else "16KiB" if ev_bytes >= 16384 else "8KiB" if ev_bytes >= 8192 else "0"))
                    ctx.count("large-events-stdout-KiB>=%d" % (
                        512 if len(r["cli"]["stdout"]) // 2 >= 512 * 1024 else 64 if len(r["cli"]["stdout"]) // 2 >= 65536
                        else 8 if len(r["cli"]["stdout"]) // 2 >= 8192 else 0))
                except Exception:
                    pass
            if "probe" in inv and "inconclusive" in r["cli"]:
                ctx.count("controlled-schedule-inconclusive")
                continue
            if "probe" in inv:
                ctx.count("controlled-schedule")
            def kinds(nodes):
                out = set()
                for nd in nodes:
                    out.add(nd["k"])
                    if nd["k"] == "file" and "fill" in nd:
                        out.add("big-file")
                    if nd["k"] == "file" and nd.get("hex") == "":
                        out.add("empty-file")
                    if nd["k"] == "dir":
                        out |= kinds(nd["children"])
                return out
            if inv["target"]["kind"] != "file" and "probe" not in inv:
                for kd in sorted(kinds(case["tree"]) - {"file", "dir"}):
                    ctx.count("tree-has-" + kd)
            if case.get("defines"):
                ctx.count("defines")
            if any(":" in rf["name"] for rf in case["rule_files"]):
                ctx.count("colon-in-rules-file-name")
            if isinstance(lib, dict) and "compile_error" in lib:
                ctx.count("compile-error")
            ctx.count("mode=" + inv["mode"])
            ctx.count("target=" + inv["target"]["kind"])
            ctx.count("threads=%s" % inv["threads"])
            for k in "sLXmgecn":
                if inv["flags"][k]:
                    ctx.count("flag-" + k)
            for k in ("l", "i", "t", "mml", "smax"):
                if inv["flags"][k] is not None:
                    ctx.count("flag-" + k)
            if inv["no_mmap"]:
                ctx.count("no-mmap")
            if inv["recursive"]:
                ctx.count("recursive")
            try:
                nl = len(bytes.fromhex(r["cli"]["stdout"]).split(b"\n")) - 1
                ctx.count("stdout-lines=" + ("0" if nl == 0 else "1-9" if nl < 10 else "10-99" if nl < 100 else ">=100"))
                ctx.count("candidate-files=" + ("0-1" if len(lib["files"]) < 2 else "2-9" if len(lib["files"]) < 10 else ">=10"))
                if any(e["ev"] == "limit" for fe in lib["files"] for e in fe["events"]):
                    ctx.count("string-limit-warning")
                if any(fe["error"] for fe in lib["files"]):
                    ctx.count("unreadable-entry")
                if r["cli"]["rc"] != 0:
                    ctx.count("exit=%d" % r["cli"]["rc"])
            except Exception:
                ctx.count("cli-failed")
        return outs

    def cleanup(self, ctx):
        for d in getattr(ctx, "workdirs", []):
            shutil.rmtree(d, ignore_errors=True)

    # ---------------------------------------------------------------- Coq term
    STDERR_PREFIXES = (b"warning: string $", b"Cannot scan ", b"skipping ", b"IO error for operation on ")

    def g_node(self, case, n):
        if n["k"] == "file":
            return "NFile %s %d" % (gb(n["name"]), len(content_bytes(n)))
        if n["k"] == "dir":
            return "NDir %s %s" % (gb(n["name"]), glist([self.g_node(case, c) for c in n["children"]]))
        if n["k"] == "linkfile":
            tgt = [e for e in case["ext"] if e["name"] == n["target"]][0]
            return "NLinkFile %s %d" % (gb(n["name"]), len(content_bytes(tgt)))
        if n["k"] == "linkdir":
            tgt = [e for e in case["ext"] if e["name"] == n["target"]][0]
            return "NLinkDir %s %s" % (gb(n["name"]), glist([self.g_node(case, c) for c in tgt["children"]]))
        return "NDangling %s" % gb(n["name"])

    def find_dir(self, case, path):
        """children of the generated directory `path` (root-relative lookup), following generated structure"""
        parts = path.split("/")
        root_parts = case["root"].split("/")
        assert parts[:len(root_parts)] == root_parts, path
        nodes = case["tree"]
        for p in parts[len(root_parts):]:
            nxt = None
            for n in nodes:
                if n["name"] == p and n["k"] == "dir":
                    nxt = n["children"]
                elif n["name"] == p and n["k"] == "linkdir":
                    nxt = [e for e in case["ext"] if e["name"] == n["target"]][0]["children"]
            assert nxt is not None, path
            nodes = nxt
        return nodes

    def g_found(self, fs):
        return glist(["{| f_path := %s; f_depth := %d; f_size := %d; f_via_link := %s |}" % (
            gb(f["path"]), f["depth"], f["size"], gbool(f["via"])) for f in fs])

    def g_event(self, e):
        if e["ev"] == "rule":
            r = e["rule"]
            info = g_info(bytes.fromhex(r["ns"]), bytes.fromhex(r["name"]), [bytes.fromhex(t) for t in r["tags"]],
                          [(bytes.fromhex(m["name"]), m["t"], m["v"]) for m in r["metas"]])
            return "EvRule %s %s %s" % (gbool(r["matched"]), info, g_strings(r["strings"], self._ms, self._keep))
        if e["ev"] == "limit":
            return "EvLimit %s %s %s" % (gbytes(bytes.fromhex(e["ns"])), gbytes(bytes.fromhex(e["rule"])),
                                         gbytes(bytes.fromhex(e["string"])))
        return "EvOther"

    def g_rres(self, r):
        return "{| rr_ns := %s; rr_name := %s; rr_matched := %s; rr_strings := %s |}" % (
            gbytes(bytes.fromhex(r["ns"])), gbytes(bytes.fromhex(r["name"])), gbool(r["matched"]),
            g_strings(r["strings"], self._ms, self._keep))

    def g_args_ok(self, case):
        existing = [rf["name"] for rf in case["rule_files"] + case.get("extra_files", [])]
        compiled = ["(%s, %s)" % (gopt(rf["ns"], gb), gb(rf["name"])) for rf in case["rule_files"]]
        defined = []
        for x in case.get("defines", []):
            v = {"bool": lambda v: "XBool %s" % gbool(v), "int": lambda v: "XInt %s" % gZ(v),
                 "float": lambda v: "XFloat %s" % gb(v), "bytes": lambda v: "XBytes %s" % gb(v)}[x["kind"]](x["value"])
            defined.append("(%s, %s)" % (gb(x["name"]), v))
        return "C18_compile_args_ok %s %s %s %s %s" % (
            glist([gb(e) for e in existing]), glist([gb(a) for a in rule_args_of(case)]), glist(compiled),
            glist([gb(x["arg"]) for x in case.get("defines", [])]), glist(defined))

    def term(self, ctx, case, out):
        cli, lib = out["cli"], out["lib"]
        if "inconclusive" in cli:
            return (True, True, 0)          # schedule probe not applicable to this build of the tool; counted
        if "driver_exception" in cli or "hang" in cli:
            return (False, False, 0)
        if "special" in case:
            if not isinstance(lib, dict) or "modules" not in lib or "rc" not in cli:
                return (False, False, 0)
            so = bytes.fromhex(cli["stdout"])
            lines = so.split(b"\n")[:-1] if so else []
            if case["special"] == "input" and case.get("exists"):
                return "C18_input_exists_case %s %s %d" % (gb(case["arg"]), glist([gbytes(l) for l in lines]), cli["rc"])
            if case["special"] == "input":
                errl = [l for l in bytes.fromhex(cli["stderr"]).split(b"\n") if l]
                return "C18_input_case %s %s %s %s %s %d" % (
                    gb(case["arg"]), gb(lib.get("process_error", "")), gb(lib.get("file_error", "")),
                    glist([gbytes(l) for l in lines]), glist([gbytes(l) for l in errl]), cli["rc"])
            if case["special"] == "save-twice":
                return "C18_save_case %d %d %s" % (cli["first"]["rc"], cli["second"]["rc"], gbool(cli["unchanged"]))
            return "C18_yr_case %s %s %s %s %s %d" % (
                gbool(case["module_names"]), gbool(case["load"]), glist([gb(x) for x in case["positional"]]),
                glist([gbytes(bytes.fromhex(m)) for m in lib["modules"]]), glist([gbytes(l) for l in lines]), cli["rc"])
        if isinstance(lib, dict) and "compile_error" in lib:
            # the library rejects the rules: the tool must fail the same way, before scanning anything
            if "save_failed" in cli:
                so, rc = bytes.fromhex(cli.get("stdout", "")), cli["save_failed"]
            elif "rc" in cli:
                so, rc = bytes.fromhex(cli["stdout"]), cli["rc"]
            else:
                return (False, False, 0)
            lines = so.split(b"\n")[:-1] if so else []
            return "C18_compile_fail_case %s %d" % (glist([gbytes(l) for l in lines]), rc)
        p = self.parts(case, out)
        if p is None:
            return (False, False, 0)
        if "probe" not in case["inv"]:
            return p["lets"] + "with_args (%s) (C18_case (%s) (%s) (%s) (%s) %s (%s) (%s) %s %s %s %d)" % (
                self.g_args_ok(case),
                p["s"], p["o"], p["i"], p["used"], p["decls"], p["target"], p["starget"], p["tbl"], p["out"], p["err"], p["rc"])
        if "probe" in case["inv"]:
            cli = out["cli"]
            if not cli.get("driver_ok"):
                return (False, False, 0)
            return p["lets"] + "C18_probe_case (%s) (%s) (%s) (%s) %s %s %s %s %s %s %s %d" % (
                p["s"], p["o"], p["i"], p["used"], p["decls"], p["tbl"],
                glist([gb(e) for e in self.list_entries(case)]), glist([gb(e) for e in cli["order"]]),
                glist([gN(h) for h in cli["held"]]), p["out_exact"], p["err"], p["rc"])
        return p["lets"] + "C18_case (%s) (%s) (%s) (%s) %s (%s) (%s) %s %s %s %d" % (
            p["s"], p["o"], p["i"], p["used"], p["decls"], p["target"], p["starget"], p["tbl"], p["out"], p["err"], p["rc"])

    def parts(self, case, out):
        cli, lib = out["cli"], out["lib"]
        if not isinstance(lib, dict) or "files" not in lib or "rc" not in cli:
            return None
        inv = case["inv"]
        f = inv["flags"]
        self._ms = {}
        self._keep = bool(f["s"] or f["L"] or f["X"])
        used = params_of_flags(f)
        mode_n = {"legacy": 0, "fast": 1, "single_pass": 2}
        s_opts = ("{| s_memory_chunk_size := %s; s_timeout := %s; s_max_fetched_region_size := %s; s_frag_mode := %s; "
                  "s_string_max_nb_matches := %s |}") % (
            gopt(f["chunk"], gN), gopt(f["timeout"], gN), gopt(f["maxfetch"], gN),
            gopt(None if f["mode"] is None else {"legacy": 0, "fast": 1, "singlepass": 2}[f["mode"]], gN),
            gopt(f["smax"], gN))
        o_opts = ("{| o_strings := %s; o_length := %s; o_xor := %s; o_meta := %s; o_ns := %s; o_tags := %s; "
                  "o_count := %s; o_stats := false; o_module_data := false; o_match_max_length := %s; o_limit := %s; "
                  "o_ident := %s; o_tag := %s; o_negate := %s; o_warning := %s |}") % (
            gbool(f["s"]), gbool(f["L"]), gbool(f["X"]), gbool(f["m"]), gbool(f["e"]), gbool(f["g"]), gbool(f["c"]),
            gopt(f["mml"], gN), gopt(f["l"], gN), gopt(f["i"], gb), gopt(f["t"], gb), gbool(f["n"]),
            {"print": "WPrint", "ignore": "WIgnore", "fail": "WFail"}[f["w"]])
        i_opts = ("{| i_scan_list := %s; i_no_follow := %s; i_recursive := %s; i_skip_larger := %s; i_no_mmap := %s; "
                  "i_threads := %s |}") % (
            gbool(inv["target"]["kind"] == "list"), gbool(inv["no_follow"]), gbool(inv["recursive"]),
            gopt(inv["skip_larger"], gN), gbool(inv["no_mmap"]), gopt(inv["threads"], gN))
        g_used = ("{| p_full_matches := %s; p_match_max_length := %d; p_string_max_nb_matches := %d; "
                  "p_include_not_matched := %s; p_events := %d; p_statistics := %s; p_memory_chunk_size := %s; "
                  "p_timeout := %s; p_max_fetched_region_size := %d; p_frag_mode := %d |}") % (
            gbool(used["compute_full_matches"]), used["match_max_length"], used["string_max_nb_matches"],
            gbool(used["include_not_matched"]), used["events"], gbool(used["statistics"]),
            gopt(used["memory_chunk_size"], gN), gopt(used["timeout"], gN), used["max_fetched_region_size"],
            mode_n[used["mode"]])
        decls = glist(["{| d_info := %s; d_private := %s; d_global := %s; d_strings := %s |}" % (
            g_info(d["ns"], d["name"], d["tags"], [tuple(m) for m in d["metas"]]), gbool(d["private"]), gbool(d["global"]),
            glist(["(%s, %s)" % (gb(n), gbool(p)) for n, p in d["strings"]])) for d in case["decls"]])
        t = inv["target"]
        if t["kind"] == "dir":
            target = "TDir %s %s" % (gb(case["root"]), glist([self.g_node(case, n) for n in case["tree"]]))
            starget = "STree %s" % self.g_found(out["found"])
        elif t["kind"] == "file":
            target = "TFile %s" % gb(t["path"])
            starget = "SFile %s" % gb(t["path"])
        else:
            es, ss = [], []
            for e in (out.get("entries") or []):
                if "dir" in e:
                    es.append("LDir %s %s" % (gb(e["dir"]), glist([self.g_node(case, n) for n in self.find_dir(case, e["dir"])])))
                    ss.append("inr %s" % self.g_found(e["found"]))
                else:
                    es.append("LFile %s" % gb(e["file"]))
                    ss.append("inl %s" % gb(e["file"]))
            target = "TList %s" % glist(es)
            starget = "SList %s" % glist(ss)
        tbl = []
        for fe in lib["files"]:
            if fe["error"] is not None:
                evs, res = "inl %s" % gb(fe["error"]), "None"
            else:
                evs = "inr %s" % glist([self.g_event(e) for e in fe["events"]])
                res = "Some %s" % glist([self.g_rres(r) for r in fe["results"]])
            tbl.append("{| le_path := %s; le_events := %s; le_results := %s |}" % (gb(fe["path"]), evs, res))
        stdout = bytes.fromhex(cli["stdout"])
        stderr = bytes.fromhex(cli["stderr"])
        out_lines = stdout.split(b"\n")
        if out_lines and out_lines[-1] == b"":
            out_lines.pop()
        elif stdout:
            return None                    # output does not end with a newline
        err_lines = [l for l in stderr.split(b"\n") if l.startswith(self.STDERR_PREFIXES)]
        out_exact = g_lines(out_lines)
        lets = "".join("let %s := %s in " % (name, txt) for txt, name in self._ms.items())
        return {"lets": lets, "out_exact": out_exact, "s": s_opts, "o": o_opts, "i": i_opts, "used": g_used, "decls": decls, "target": target,
                "starget": starget, "tbl": glist(tbl), "out": out_exact,
                "err": glist([gbytes(l) for l in sorted(err_lines)]), "rc": cli["rc"],
                "out_lines": out_lines, "err_lines": sorted(err_lines)}

    def nontrivial(self, case, out):
        if "special" in case:
            return None
        try:
            cli = out["cli"]
            n_lines = len(bytes.fromhex(cli["stdout"]).split(b"\n")) - 1
            n_files = len(out["lib"]["files"])
        except Exception:
            return None
        if n_lines >= 2 and n_files >= 2:
            return hashlib.sha256(json.dumps(case, sort_keys=True).encode()).hexdigest()
        return None

    def sample(self, case, out):
        cli = out.get("cli", {}) if isinstance(out, dict) else {}
        if "special" in case:
            return {"special": case["special"], "cmd": cli.get("cmd"), "rc": cli.get("rc")}
        return {"cmd": cli.get("cmd"), "rc": cli.get("rc"),
                "stdout_head": bytes.fromhex(cli.get("stdout", "")).decode("utf-8", "replace")[:600],
                "rules": [rf["text"][:400] for rf in case["rule_files"]],
                "n_candidate_files": len((out.get("lib") or {}).get("files", [])) if isinstance(out, dict) else None}


PROP = C18()
