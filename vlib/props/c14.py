# C14 — match records are faithful to the input and respect the limits.
import json, os
from .. import core
from ..core import gN, gbool, glist, gbytes, gopt, gpair
from ..runner import Prop
from . import c01
from .c01 import decl_yara, g_decl, g_smatch, string_matches, encodings, gen_decl

UNLIMITED = 1000000


def g_regions(regions):
    return glist("{| f_start := %d; f_mem := %s; f_fail := %s; f_described := %d |}" % (
        r["start"], gbytes(bytes.fromhex(r["hex"])), gbool(bool(r.get("fail"))),
        r.get("described", len(r["hex"]) // 2)) for r in regions)


def case_regions(case):
    """the region list the Coq side sees: a direct scan is one region at 0"""
    if "mem" in case["input"]:
        return [{"start": 0, "hex": case["input"]["mem"], "fail": False}]
    return case["input"]["regions"]


def gen_string(rng):
    """(kind, yara declaration text, text decl or None, seeds to splice)"""
    k = rng.below(10)
    if k < 5:
        d = gen_decl(rng)
        # keep the literal sets small here: the limits are the subject
        if d["xor"] is not None and d["xor"][1] - d["xor"][0] > 8:
            d["xor"][1] = d["xor"][0] + rng.range(0, 8)
        if len(d["text"]) > 24:
            d["text"] = d["text"][:24]
        return "text", decl_yara("a", d), d, [e for e, _ in encodings(d)] or [bytes.fromhex(d["text"])]
    if k == 4 and rng.chance(1, 2):
        # several literals whose atoms sit at different positions: a smaller start is confirmed AFTER a larger one
        # (out-of-order insertion while the list is at its limit)
        which = rng.below(3)
        if which == 0:
            return "other", "$a = /(abcd|xyabcdef)/", None, [b"xyabcdef", b"abcd", b"xyabcdef xyabcdef", b"xyabcd"]
        if which == 1:
            return "other", "$a = { ( 61 62 63 64 | 78 79 61 62 63 64 65 66 ) }", None, [b"xyabcdef", b"abcd ", b"xyabcdefabcd"]
        d = {"text": b"\x00\x00\x00\x00ab".hex(), "ascii": True, "wide": False, "nocase": False, "fullword": False,
             "xor": [0, 1], "b64": None}
        return "text", decl_yara("a", d), d, [b"\x01\x01\x01\x01\x60\x63\x00\x00\x00\x00ab", b"\x00\x00\x00\x00ab",
                                              b"\x01\x01\x01\x01\x60\x63"]
    if k == 5:      # Atomized, ONE atom hit yields a BATCH of matches (AcMatchStatus::Multiple): the limit
        # can be crossed inside the batch
        which = rng.below(4)
        if which == 0:
            return "other", "$a = /a.{0,2}bb/", None, [b"aaabb", b"aabb", b"aaabb ", b"abb", b"aaabb.aaabb"]
        if which == 1:
            return "other", "$a = { 61 [0-2] 62 62 }", None, [b"aaabb", b"aabb", b"aaabb-", b"abb"]
        if which == 2:
            return "other", "$a = /x[a-z]{0,3}yy/", None, [b"xxxxyy", b"xxxyy", b"xxyy ", b"xyy"]
        return "other", "$a = { 41 [0-3] 42 43 44 }", None, [b"AAAABCD", b"AAABCD ", b"AABCD", b"ABCD"]
    if k < 7:       # Atomized, one fixed-length match per atom hit
        which = rng.below(4)
        if which == 0:
            return "other", "$a = { 61 62 ?? 64 }", None, [b"abcd", b"abxd", b"ab\x00d"]
        if which == 1:
            return "other", "$a = /ab[cd]e/", None, [b"abce", b"abde"]
        if which == 2:
            return "other", "$a = { 41 42 43 [1-2] 44 }", None, [b"ABCxD", b"ABCxyD"]
        return "other", "$a = /xy+z/", None, [b"xyz", b"xyyz", b"xyyyyz"]
    if k == 9 and rng.chance(1, 2):     # Raw and NULLABLE: inside the known-finding class C14-nullable-regex-zero-length
        which = rng.below(3)
        if which == 0:
            return "rawnull", "$a = /b*/", None, [b"aab", b"bb", b"a", b"abba"]
        if which == 1:
            return "rawnull", "$a = /[0-9]*x?/", None, [b"12x", b"x", b"ab", b"7"]
        return "rawnull", "$a = /a?b?/", None, [b"ab", b"ba", b"cc", b"a"]
    if k == 8 and rng.chance(1, 2):
        # Raw (anchors): WIDE regexes with word boundaries, the match preceded by a wide character
        which = rng.below(3)
        if which == 0:
            return "raw", "$a = /\\bab$/ wide", None, [b"<\x00a\x00b\x00", b"<\x00a\x00b\x00\n\x00", b"a\x00b\x00\n\x00", b"x\x00a\x00b\x00"]
        if which == 1:
            return "raw", "$a = /^ab\\b/ wide", None, [b"a\x00b\x00.\x00", b"\n\x00a\x00b\x00 \x00", b"a\x00b\x00c\x00"]
        return "raw", "$a = /\\Bcd$/ wide", None, [b"b\x00c\x00d\x00", b"-\x00c\x00d\x00", b"b\x00c\x00d\x00\n\x00"]
    which = rng.below(4)    # Raw: no literal can be extracted
    if which == 0:
        return "raw", "$a = /[a-c]{2}/", None, [b"ab", b"ca", b"bbb", b"abcabc"]
    if which == 1:
        return "raw", "$a = /[0-9]+/", None, [b"1", b"22", b"333", b"4x5"]
    if which == 2:
        return "raw", "$a = /^[a-z]/", None, [b"\nq", b"\nab", b"z"]
    return "raw", "$a = /[xX][yY]?/", None, [b"x", b"xy", b"XY", b"xX"]


def gen_mem(rng, seeds, reps):
    m = bytearray()
    for _ in range(reps):
        m += rng.choice(seeds)
        if rng.chance(1, 3):
            m += rng.bytes(rng.range(1, 3), b" .\x00-Z")
    return bytes(m[:260])


CTX_NEEDLES = [b"QZQZ", b"q9Z", b"ZZtop", b"\x01\x02\x03QQ"]


def gen_context(rng):
    """other rules around the rule under test: namespaces, global (true / false) and private rules, with
    strings of their own that occur in the input; the rule under test stays in an enabled namespace"""
    k = rng.below(8)
    if k < 3:
        return None
    needle = rng.choice(CTX_NEEDLES)
    nq = c01.yara_quote(needle)
    priv = 'private rule c_priv { strings: $x = %s $w = "never-there" condition: $x or $w }' % nq
    pub = 'rule c_pub { strings: $x = %s private condition: #x >= 0 }' % nq
    gfalse = "global rule c_gf { condition: filesize > 100000000 }"
    gtrue = "global rule c_gt { strings: $g = %s condition: #g >= 0 }" % nq
    if k == 3:      # a disabled namespace holding a private rule with strings, before the rule under test
        before = [{"ns": "ns_a", "src": gfalse + " " + priv}]
        after = []
    elif k == 4:    # private rule with strings in the same namespace, before
        before = [{"ns": None, "src": priv}]
        after = [{"ns": "ns_z", "src": pub}]
    elif k == 5:    # true global with a string + private rule, same namespace; disabled namespace after
        before = [{"ns": None, "src": gtrue + " " + priv}]
        after = [{"ns": "ns_a", "src": gfalse + " " + priv.replace("c_priv", "c_priv2")}]
    elif k == 6:    # public rules with private strings before and after
        before = [{"ns": "ns_a", "src": pub}]
        after = [{"ns": None, "src": pub.replace("c_pub", "c_pub2")}]
    else:           # two disabled namespaces with private rules, before
        before = [{"ns": "ns_a", "src": gfalse + " " + priv},
                  {"ns": "ns_b", "src": gfalse.replace("c_gf", "c_gf2") + " " + priv.replace("c_priv", "c_priv2")}]
        after = []
    return {"before": before, "after": after, "needle": needle.hex(), "ns": rng.choice([None, "ns_main"])}


class C14(Prop):
    ID = "C14"
    LEVEL = "proof"
    COQ_TARGETS = ["theories/Properties/C14.vo"]
    MODEL_TARGETS = ["theories/Model/Limits.vo", "theories/Model/TextCase.vo"]
    CASE_HEADER = ("From Boreal Require Import Base.Prelude Base.ListX Base.Bytes Model.Literals Model.AcScan "
                   "Model.Limits.")
    HARNESS_BINS = ("c14",)
    KF = {1: "C14-nullable-regex-zero-length"}
    RULE = ("the string under test is scanned ALONE without limit (reference list U, N = |U|) and then, under the "
            "limit, INSIDE a rule set (5/8 of the cases: other namespaces, true / false global rules, private rules "
            "and private strings with their own matching strings before and after it); atomized hex / regex strings "
            "include patterns whose single atom hit yields a batch of matches (`/a.{0,2}bb/`, `{ 61 [0-2] 62 62 }`) "
            "so that the limit (1, 2, N-1 ...) is crossed inside one batch; for text strings every reported record "
            "must be an occurrence of one of THAT string's encodings (Spec/TextSpec.v), for the other kinds a member "
            "of U. 1/8 of the cases run the limited scan in fast fragmented mode with the rule decidable without its "
            "strings (`true or $a`, nothing else needing strings): the list must still coincide with the unlimited one "
            "when it fits; strings with several literals whose atoms sit at different positions "
            "(`/(abcd|xyabcdef)/`, xor texts) give out-of-order insertions at the limit. "
            "ScanParams::callback_events is a generated dimension (RULE_MATCH, RULE_NO_MATCH, "
            "MODULE_IMPORT, STRING_REACHED_MATCH_LIMIT subsets) with both the list and the callback API for the run "
            "under the limit (at most one limit event per string). Layouts include the same page mapped several times (matches at equal "
            "region-relative offsets in consecutive regions); for text strings the unlimited list must be complete "
            "(the specified offsets of every fetched region). Nullable raw regexes (`/b*/` ...) are generated inside "
            "the known-finding class C14-nullable-regex-zero-length. Per matcher kind (text strings under all modifier shapes = MatcherKind::Literals, fully modelled; raw "
            "regexes = scan_single_variable loop modelled, the regex read off the unlimited run; atomized hex/regex "
            "strings = checked against the specification only): repetitive inputs with N true matches, direct and "
            "fragmented (1-4 regions, failing fetches), match_max_length in {0, 1, len-1, len, len+1, 2|m|}, "
            "string_max_nb_matches in {1, N-1, N, N+1, N+2} (N from an unlimited run of the implementation), plus a "
            "probe rule `#a == min(N, lim)`. Checked: every record inside one fetched region, positive length, "
            "data = first min(length, max) bytes; count <= limit; limited list is a sub-list of the unlimited one and "
            "equal to it when it fits. Non-trivial: N >= 2 and the limit is within N+-2; distinct by (string, input, "
            "params).")
    TRUSTED = ["Coq 8.16.1 kernel + vm_compute", "harness/src/bin/c14.rs + harness/src/scan.rs",
               "vlib/props/c14.py, c01.py (case printer)", "hook Scanner::verif_describe_strings (matcher kind only)",
               "contract of aho-corasick find_overlapping_iter (Model/Ac.v)"]
    ASSUMPTIONS = ["regex and hex matchers are not modelled here (C02/C03): their unlimited match list is taken from the "
                   "implementation and only the limit/record contract is checked on it",
                   "string_max_nb_matches = 0 is excluded (degenerate)",
                   "whether a regex is nullable is declared by the generator (fixed list of patterns); the class also "
                   "requires a zero-length match in the output and every other clause of the property to hold"]

    def translators(self, ctx):
        from translators import consts
        return consts.run(core.REPO, core.VERIF)

    def corpus(self, ctx):
        out = []
        d = os.path.join(core.VERIF, "corpus", "C14")
        if os.path.isdir(d):
            for f in sorted(os.listdir(d)):
                if f.endswith(".json"):
                    out.append(core.load_case_file(os.path.join(d, f))["case"])
        return out

    def gen_case(self, rng):
        kind, decl, d, seeds = gen_string(rng)
        reps = rng.choice([1, 2, 3, 5, 8, 12])
        lay = rng.below(8)
        if lay < 3:
            inp = {"mem": gen_mem(rng, seeds, reps).hex()}
        elif lay == 3:
            # the same page mapped several times: matches at equal region-relative offsets in consecutive regions
            page = (rng.bytes(rng.range(0, 3), b" .-") + rng.choice(seeds) + rng.bytes(rng.range(0, 3), b" .-"))[:60]
            addr = rng.choice([0, 16, 4096])
            regs = []
            for i in range(rng.range(2, 4)):
                regs.append({"start": addr, "hex": page.hex(), "fail": False})
                addr += len(page) + rng.choice([0, 0, 7, 100])
            inp = {"regions": regs}
        else:
            regs, addr = [], rng.choice([0, 0, 16, 4096, 1 << 32])
            for i in range(rng.range(1, 4)):
                addr += rng.choice([0, 0, 1, 7, 100])
                mem = gen_mem(rng, seeds, rng.choice([0, 1, 2, 3, 5]))
                regs.append({"start": addr, "hex": mem.hex(), "fail": rng.chance(1, 6)})
                addr += len(mem)
            inp = {"regions": regs}
        ctxt = gen_context(rng)
        if ctxt is not None:        # the context strings occur in the input too
            nd = bytes.fromhex(ctxt["needle"])
            if "mem" in inp:
                inp = {"mem": (bytes.fromhex(inp["mem"]) + b" " + nd + b" ").hex()}
            else:
                for r in inp["regions"]:
                    if rng.chance(1, 2):
                        r["hex"] = (nd + b" " + bytes.fromhex(r["hex"])).hex()
                inp["regions"][-1]["hex"] = (bytes.fromhex(inp["regions"][-1]["hex"]) + b" " + nd).hex()
                # keep the layout disjoint
                addr = inp["regions"][0]["start"]
                for r in inp["regions"]:
                    r["start"] = max(r["start"], addr)
                    addr = r["start"] + len(r["hex"]) // 2
        # ScanParams::callback_events as a dimension (RULE_MATCH 1, RULE_NO_MATCH 2, MODULE_IMPORT 4,
        # STRING_REACHED_MATCH_LIMIT 16), list and callback APIs
        noscan = rng.chance(1, 8)
        if noscan:
            # fast fragmented mode, the rule under test decidable without its strings (`true or $a`), nothing else in
            # the rule set needs strings: with full matches requested the list must still be there
            if "mem" in inp:
                inp = {"regions": [{"start": rng.choice([0, 4096]), "hex": inp["mem"], "fail": False}]}
            ctxt = None
        ev = rng.choice([None, None, 1, 1 | 16, 1 | 16, 1 | 2 | 16, 1 | 4 | 16, 1 | 2])
        api = "callback" if (ev is not None and rng.chance(1, 2)) else "list"
        return {"kind": kind, "decl": decl, "tdecl": d, "input": inp, "context": ctxt, "events": ev, "api": api, "noscan_shape": noscan,
                "maxlen_sel": rng.below(7), "lim_rel": rng.choice([-2, -1, 0, 1, 2, None, "one", "two"]),
                "profile": rng.choice(["speed", "memory"]),
                "mode": "fast" if noscan else rng.choice([None, "fast", "single_pass"])}

    def generate(self, ctx, rng, n):
        return [self.gen_case(rng.fork("c%d" % i)) for i in range(n)]

    def budget(self, tier):
        return 700 if tier == "quick" else 12000

    # ---------------------------------------------------------------- execution: unlimited run, then the limited one
    @staticmethod
    def normalise(out):
        """callback API: rebuild the rule list from the delivered events; at most one limit event per string"""
        if not isinstance(out, dict) or "events" not in out:
            return out
        rules = [e["rule"] for e in out["events"] if e.get("ev") in ("match", "nomatch")]
        lim = [(e.get("ns"), e.get("rule"), e.get("string"), e.get("index")) for e in out["events"] if e.get("ev") == "limit"]
        res = {"rules": rules, "kinds": out.get("kinds"), "error": out.get("error"),
               "limit_events_once": len(lim) == len(set(lim))}
        return res

    def hcase(self, case, params, probe=None, context=False):
        """the string alone (reference runs), or inside its rule set (the run under test)"""
        ns_shape = context and case.get("noscan_shape")
        rules = "rule r { strings: %s condition: %s }" % (case["decl"], "true or $a" if ns_shape else "#a >= 0")
        if probe is not None and not ns_shape:
            rules += " rule probe { strings: %s condition: #a == %d }" % (case["decl"], probe)
        p = dict(params)
        p["compute_full_matches"] = True
        if case.get("mode"):
            p["mode"] = case["mode"]
        entries = [{"ns": None, "src": rules}]
        ctxt = case.get("context")
        if context and ctxt:
            entries = list(ctxt["before"]) + [{"ns": ctxt.get("ns"), "src": rules}] + list(ctxt["after"])
        hc = {"rules": entries, "profile": case.get("profile", "speed"), "params": p, "input": case["input"]}
        if context and case.get("events") is not None:      # the run under test only
            p["events"] = case["events"]
            hc["api"] = case.get("api", "list")
        return hc

    def resolve(self, case, n_true, first_len, total):
        sel = case["maxlen_sel"]
        maxlen = [0, 1, max(0, first_len - 1), first_len, first_len + 1, 2 * total, 512][sel]
        rel = case["lim_rel"]
        if rel is None:
            lim = 1000
        elif rel == "one":
            lim = 1
        elif rel == "two":
            lim = 2
        else:
            lim = max(1, n_true + rel)
        return maxlen, lim

    def execute(self, ctx, cases):
        # phase 0: N and the length of the first match (maxlen does not change them)
        o0 = core.harness_run(ctx.binp, "c14", [self.hcase(c, {"string_max_nb_matches": UNLIMITED}) for c in cases])
        ph1, ph2, meta = [], [], []
        for c, o in zip(cases, o0):
            ms = string_matches(o, "r", "a") if isinstance(o, dict) and "rules" in o else []
            total = sum(len(r["hex"]) // 2 for r in ([{"hex": c["input"]["mem"]}] if "mem" in c["input"]
                                                      else c["input"]["regions"]))
            maxlen, lim = self.resolve(c, len(ms), ms[0]["length"] if ms else 3, total)
            meta.append((maxlen, lim))
            ph1.append(self.hcase(c, {"string_max_nb_matches": UNLIMITED, "match_max_length": maxlen}))
            ph2.append(self.hcase(c, {"string_max_nb_matches": lim, "match_max_length": maxlen},
                                  probe=min(len(ms), lim), context=True))
        o1 = core.harness_run(ctx.binp, "c14", ph1)
        o2 = [self.normalise(o) for o in core.harness_run(ctx.binp, "c14", ph2)]
        outs = []
        for c, a, b, (maxlen, lim) in zip(cases, o1, o2, meta):
            outs.append({"unlimited": a, "limited": b, "maxlen": maxlen, "lim": lim})
            ctx.count("kind=%s" % c["kind"])
            ctx.count("input=%s" % ("direct" if "mem" in c["input"] else "regions=%d" % len(c["input"]["regions"])))
            ctx.count("lim_rel=%s" % (c["lim_rel"],))
            ctx.count("maxlen_sel=%d" % c["maxlen_sel"])
            ctx.count("context=%s" % ("none" if not c.get("context") else "rule set"))
            ctx.count("events=%s api=%s" % (c.get("events"), c.get("api", "list")))
            ctx.count("shape=%s" % ("decidable-without-strings (fast mode)" if c.get("noscan_shape") else "needs-strings"))
        return outs

    def term(self, ctx, case, out):
        a, b = out["unlimited"], out["limited"]
        if not (isinstance(a, dict) and isinstance(b, dict) and "rules" in a and "rules" in b):
            return (False, False, 0)
        kinds = a.get("kinds") or []      # the run of the string alone: its own matcher kind
        kind = case["kind"]
        actual = kinds[0] if kinds else "?"
        expected = {"text": "Literals", "raw": "Raw", "rawnull": "Raw", "other": "Atomized"}[kind]
        ctx.count("actual_kind=%s" % actual)
        if actual != expected:
            # the generator's guess about the matcher kind is wrong: fall back to spec-only checking
            ctx.count("kind-mismatch")
            kind = "other"
        u = string_matches(a, "r", "a")
        t = string_matches(b, "r", "a")
        probe = (case.get("noscan_shape") or any(r["name"] == "probe" and r.get("matched", True) for r in b["rules"])) \
            and b.get("limit_events_once", True)
        gk = ("(KText %s)" % g_decl(case["tdecl"]) if kind == "text" else "KRaw" if kind == "raw"
              else "KRawNullable" if kind == "rawnull" else "KOther")
        prm = "{| p_match_max_length := %d; p_max_nb_matches := %d |}" % (out["maxlen"], out["lim"])
        return "C14_case %s %s %s %d %s %s %s" % (gk, g_regions(case_regions(case)), prm, UNLIMITED,
                                                  glist(g_smatch(m) for m in u), glist(g_smatch(m) for m in t),
                                                  gbool(probe))

    def nontrivial(self, case, out):
        try:
            n = len(string_matches(out["unlimited"], "r", "a"))
        except Exception:
            return None
        if n >= 2 and (abs(out["lim"] - n) <= 2 or out["lim"] <= 2):
            return json.dumps([case["decl"], case["input"], out["maxlen"], out["lim"], case.get("context")],
                              sort_keys=True)
        return None

    def sample(self, case, out):
        return {"decl": case["decl"], "input": case["input"], "maxlen": out.get("maxlen"), "lim": out.get("lim"),
                "n_unlimited": len(string_matches(out["unlimited"], "r", "a")) if isinstance(out.get("unlimited"), dict) else None,
                "limited": string_matches(out["limited"], "r", "a")[:4] if isinstance(out.get("limited"), dict) else None}


PROP = C14()
