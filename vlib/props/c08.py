# C08 — compiling untrusted rule text never crashes or hangs.
# Proof part: stack-depth bound from the call graph + recursion guards extracted from /repo (translators/callgraph.py,
# verified checker in Coq).  Exploration part (this file + harness/src/bin/c08.rs): generated / mutated / pathological
# rule texts compiled in child processes with a reduced stack and a wall-clock cap.
import os, re, json, hashlib
from .. import core
from ..runner import Prop

KEYWORDS = ["rule", "condition", "strings", "meta", "and", "or", "not", "true", "false", "for", "any", "all", "of", "them",
            "in", "at", "filesize", "entrypoint", "uint8", "uint16", "int32be", "defined", "global", "private", "import",
            "include", "contains", "matches", "startswith", "iequals", "none", "ascii", "wide", "nocase", "fullword",
            "xor", "base64", "(", ")", "{", "}", "[", "]", ":", "=", "$a", "#a", "@a", "!a", "$", "*", "-", "~", "+",
            "\\", "/", "|", "..", ",", "\"", "0x10", "1KB", "1.5", "18446744073709551616", "é", "漢", "\U0001F600",
            "//", "/*", "*/", "\n", "\t", "$a*", "?", "??", "[1-2]", "[-]", "{ AB }", "/a/", "=="]
MULTI = ["é", "ß", "漢", "字", "\U0001F600", "​", "́", "﻿"]


# ------------------------------------------------------------------ grammar
class Gen:
    def __init__(self, rng):
        self.r = rng

    def int_expr(self, d):
        r = self.r
        k = r.below(9 if d > 0 else 3)
        if k == 0:
            return str(r.choice([0, 1, 2, 10, 255, 4096, "0x10", "1KB"]))
        if k == 1:
            return "filesize"
        if k == 2:
            return "#s0" if self.nstr else "3"
        if k == 3:
            return "(%s %s %s)" % (self.int_expr(d - 1), r.choice(["+", "-", "*", "\\", "%", "&", "|", "^", "<<", ">>"]),
                                   self.int_expr(d - 1))
        if k == 4:
            return "-%s" % self.int_expr(d - 1)
        if k == 5:
            return "~%s" % self.int_expr(d - 1)
        if k == 6:
            return "%s(%s)" % (r.choice(["uint8", "uint16", "uint32be", "int8", "int16be"]), self.int_expr(d - 1))
        if k == 7:
            return "@s0[%s]" % self.int_expr(d - 1) if self.nstr else "7"
        return "(%s)" % self.int_expr(d - 1)

    def bool_expr(self, d):
        r = self.r
        k = r.below(16 if d > 0 else 6)
        if k == 0:
            return r.choice(["true", "false"])
        if k == 1:
            return "$s%d" % r.below(self.nstr) if self.nstr else "true"
        if k == 2:
            return "%s %s %s" % (self.int_expr(d), r.choice(["<", ">", "<=", ">=", "==", "!="]), self.int_expr(d))
        if k == 3:
            return "$s0 at %s" % self.int_expr(d) if self.nstr else "false"
        if k == 4:
            return "$s0 in (%s..%s)" % (self.int_expr(d), self.int_expr(d)) if self.nstr else "true"
        if k == 5:
            return r.choice(["any of them", "all of them", "1 of them", "none of them", "any of ($s*)"]) if self.nstr \
                else "filesize > 0"
        if k in (6, 7):
            return "%s and %s" % (self.bool_expr(d - 1), self.bool_expr(d - 1))
        if k == 8:
            return "%s or %s" % (self.bool_expr(d - 1), self.bool_expr(d - 1))
        if k == 9:
            return "not %s" % self.bool_expr(d - 1)
        if k == 10:
            return "(%s)" % self.bool_expr(d - 1)
        if k == 11:
            return "for any i%d in (0..%s) : (%s)" % (d, self.int_expr(d - 1), self.bool_expr(d - 1))
        if k == 12:
            return "for all of them : ($)" if self.nstr else "true"
        if k == 13:
            return "defined %s" % self.int_expr(d - 1)
        if k == 14:
            return '"abc" %s "b"' % r.choice(["contains", "icontains", "startswith", "iendswith", "iequals"])
        return "for 1 j%d in (1, 2, %s) : (j%d == %s)" % (d, self.int_expr(d - 1), d, self.int_expr(d - 1))

    def hex_tokens(self, d, in_alt=False):
        r = self.r
        out = [r.choice(["AB", "00", "ff", "A?", "?B", "~12"])]
        for _ in range(r.below(4)):
            k = r.below(6 if d > 0 else 4)
            if k == 0:
                out.append("??")
            elif k == 1:
                out.append(r.choice(["[1-3]", "[2]", "[0-2]"]))
            elif k in (2, 3):
                out.append(r.choice(["CD", "01", "E?"]))
            else:
                out.append("( %s | %s )" % (self.hex_tokens(d - 1, True), self.hex_tokens(d - 1, True)))
        out.append(r.choice(["EF", "10", "9?"]))
        return " ".join(out)

    def regex(self, d):
        r = self.r
        parts = []
        for _ in range(r.range(1, 4)):
            k = r.below(8 if d > 0 else 5)
            if k == 0:
                parts.append(r.choice(["abc", "x", "foo", "\\x41", "\\."]))
            elif k == 1:
                parts.append(r.choice([".", "\\d", "\\w", "[a-z]", "[^0-9]", "\\s"]))
            elif k == 2:
                parts.append(r.choice(["a*", "b+?", "c?", "d{2}", "e{1,3}", "f{2,}?"]))
            elif k == 3:
                parts.append(r.choice(["\\b", "^a", "z$"]) if False else "q")
            elif k == 4:
                parts.append("yz")
            else:
                parts.append("(%s|%s)%s" % (self.regex(d - 1), self.regex(d - 1), r.choice(["", "", "*", "+", "?", "{1,2}"])))
        return "".join(parts)

    def string_decl(self, i):
        r = self.r
        k = r.below(3)
        if k == 0:
            mods = " ".join(m for m in ["ascii", "wide", "nocase", "fullword", "private"] if r.chance(1, 4))
            if not mods and r.chance(1, 6):
                mods = r.choice(["xor", "xor(1-3)", "base64", "base64wide"])
            txt = r.choice(["abcdef", "GET /index", "x\\x00y\\n", "hello world", "\\\\path\\\\to", "é漢"])
            return '$s%d = "%s" %s' % (i, txt, mods)
        if k == 1:
            return "$s%d = { %s }" % (i, self.hex_tokens(2))
        mods = " ".join(m for m in ["nocase", "wide", "ascii", "fullword"] if r.chance(1, 5))
        return "$s%d = /%s/%s %s" % (i, self.regex(2), r.choice(["", "", "i", "s", "is"]), mods)

    def rule(self, idx):
        r = self.r
        self.nstr = r.below(4)
        s = "%srule r%d%s {\n" % (r.choice(["", "", "", "private ", "global "]) if False else "", idx,
                                   r.choice(["", "", " : tag1", " : t1 t2"]))
        if r.chance(1, 4):
            s += '  meta:\n    author = "x"\n    n = %d\n    b = true\n' % r.below(100)
        if self.nstr:
            s += "  strings:\n" + "".join("    %s\n" % self.string_decl(i) for i in range(self.nstr))
        cond = self.bool_expr(r.range(0, 4))
        if self.nstr:
            cond = "(%s) or any of them" % cond
        s += "  condition:\n    %s\n}\n" % cond
        return s

    def file(self):
        return "".join(self.rule(i) for i in range(self.r.range(1, 3)))


def nest(kind, n):
    """pathological nesting of depth n"""
    if kind == "paren":
        return "rule a { condition: %strue%s }" % ("(" * n, ")" * n)
    if kind == "not":
        return "rule a { condition: %strue }" % ("not " * n)
    if kind == "neg":
        return "rule a { condition: %s1 == 1 }" % ("-" * n)
    if kind == "bitnot":
        return "rule a { condition: %s1 == 1 }" % ("~" * n)
    if kind == "defined":
        return "rule a { condition: %s true }" % ("defined " * n)
    if kind == "for":
        return "rule a { condition: %strue%s }" % ("".join("for any i%d in (0..1) : (" % i for i in range(n)), ")" * n)
    if kind == "uint":
        return "rule a { condition: %s0%s == 0 }" % ("uint8(" * n, ")" * n)
    if kind == "intparen":
        return "rule a { condition: %s1%s == 1 }" % ("(" * n, ")" * n)
    if kind == "subscript":
        return 'rule a { strings: $a = "a" condition: %s0%s == 0 }' % ("@a[" * n, "]" * n)
    if kind == "regex_group":
        return "rule a { strings: $a = /%sa%s/ condition: $a }" % ("(" * n, ")" * n)
    if kind == "regex_alt":
        return "rule a { strings: $a = /%sz%s/ condition: $a }" % ("(a|" * n, ")" * n)
    if kind == "regex_cond":
        return 'rule a { condition: "x" matches /%sa%s/ }' % ("(" * n, ")" * n)
    if kind == "hex_alt":
        return "rule a { strings: $a = { 00 %sAB%s 11 } condition: $a }" % ("( " * n, " )" * n)
    if kind == "hex_alt2":
        return "rule a { strings: $a = { 00 %sAB%s 11 } condition: $a }" % ("( CD | " * n, " )" * n)
    if kind == "of_nest":
        return "rule a { condition: %strue%s }" % ("(1 of (" * 0 + "(" * n, ")" * n)
    raise ValueError(kind)


OPS = ["|", "&", "^", "<<", ">>", "+", "-", "*", "\\", "%"]
INT = 'rule a { strings: $a = "a" condition: %s == 1 }'
BOOL = 'rule a { strings: $a = "a" condition: %s }'
def templates():
    """Every position at which the expression / regex / hex grammar re-enters itself: (prefix, suffix) pairs such
    that prefix^n core suffix^n is syntactically valid for every n and is n levels deep.  Validated against the
    parser: all of them parse for small n; with the limit at L every one is rejected for some n <= L."""
    T = []
    def add(name, pre, suf, core, ctx, cls="expr"):
        T.append({"name": name, "pre": pre, "suf": suf, "core": core, "ctx": ctx, "cls": cls})
    wr = {"uint8": ("uint8(", ")"), "at_index": ("@a[", "]"), "paren": ("(", ")")}
    for w, (wp, ws) in wr.items():
        for op in OPS:
            if w == "paren" and op not in ("|", "+", "%"):
                continue
            add("%s_right_%s" % (w, op), "%s1 %s " % (wp, op), ws, "1", INT)
            add("%s_left_%s" % (w, op), wp, " %s 1%s" % (op, ws), "1", INT)
    for nm, wp, ws in [("uint8", "uint8(", ")"), ("int32be", "int32be(", ")"), ("at_index", "@a[", "]"),
                       ("len_index", "!a[", "]"), ("count_in_hi", "#a in (0..", ")"), ("count_in_lo", "#a in (", "..9)"),
                       ("call_arg", "f(", ")"), ("call_arg2", "f(1, ", ")"), ("subscript", "f[", "]"),
                       ("field_call", "f.g[1].h(", ")"), ("subscript_field", "f[", "].x"), ("neg_paren", "-(", ")"),
                       ("bitnot_paren", "~(", ")"), ("int_paren", "(", ")"), ("neg_uint", "-uint8(", ")"),
                       ("bitnot_index", "~@a[", "]")]:
        add(nm, wp, ws, "1", INT)
    for nm, wp, ws, core in [
            ("bool_paren", "(", ")", "true"), ("not_paren", "not (", ")", "true"), ("and_right", "(true and ", ")", "true"),
            ("and_left", "(", " and true)", "true"), ("or_right", "(false or ", ")", "true"), ("or_left", "(", " or false)", "true"),
            ("cmp_right", "(1 == ", ")", "1"), ("cmp_left", "(", " == 1)", "1"), ("lt_right", "(1 < ", ")", "1"),
            ("for_body", "for any i in (0..1) : (", ")", "true"), ("for_of_body", "for all of them : (", ")", "true"),
            ("for_of_set_body", "for 1 of ($a) : (", ")", "true"),
            ("for_iter_range_lo", "for any i in ((", ")..2) : (true)", "1"),
            ("for_iter_range_hi", "for any i in (0..(", ")) : (true)", "1"),
            ("for_iter_list", "for any i in (1, (", ")) : (true)", "1"),
            ("for_iter_list_first", "for any i in ((", "), 2) : (true)", "1"),
            ("for_iter_ident", "for any i in f(", ") : (true)", "1"),
            ("for_selection", "for (", ") of them : ($)", "1"), ("expr_of", "(", ") of them", "1"),
            ("of_in_range", "any of them in (0..(", "))", "1"),
            ("at", "$a at (", ")", "1"), ("in_hi", "$a in (0..(", "))", "1"), ("in_lo", "$a in ((", ")..9)", "1"),
            ("defined_paren", "defined (", ")", "true"),
            ("contains_left", "(f(", ') contains "a")', "1"), ("matches_left", "(f(", ") matches /a/)", "1"),
            ("not_for", "not for any i in (0..1) : (", ")", "true"),
            ("percent_of", "(", ") % of them", "1")]:
        add(nm, wp, ws, core, BOOL)
    S = 'rule a { strings: $a = %s condition: $a }'
    for nm, wp, ws, core, ctx in [
            ("regex_group", "(", ")", "a", "/%s/"), ("regex_alt_right", "(a|", ")", "z", "/%s/"),
            ("regex_alt_left", "(", "|a)", "z", "/%s/"), ("regex_group_star", "(", ")*", "a", "/%s/"),
            ("regex_group_range", "(", "){1,2}", "a", "/x%s/"), ("regex_noncap", "(", ")?b", "a", "/%s/"),
            ("hex_alt", "( ", " )", "AB", "{ 00 %s 11 }"), ("hex_alt_right", "( CD | ", " )", "AB", "{ 00 %s 11 }"),
            ("hex_alt_left", "( ", " | CD )", "AB", "{ 00 %s 11 }"), ("hex_alt_mid", "( 01 | ", " 02 | 03 )", "AB", "{ 00 %s 11 }")]:
        add(nm, wp, ws, core, S % ctx, "string")
    add("regex_in_condition", "(", ")", "a", 'rule a { condition: "x" matches /%s/ }', "string")
    return T
def template_text(t, n):
    return t["ctx"] % (t["pre"] * n + t["core"] + t["suf"] * n)


# ------------------------------------------------------------------ string sections
def string_runs():
    """hex and regex strings whose alternation branches are runs of classes / masks / negations of growing length
    (the literal extractor multiplies the sizes of the classes of a run), and runs outside alternations"""
    out = []
    R = 'rule a { strings: $a = %s condition: $a }'
    rx_cls = ["\\S", "\\w", "[a-z]", ".", "[^a]", "\\d", "[\\x00-\\xfe]", "\\W"]
    for k in range(1, 13):
        for c in rx_cls:
            run = c * k
            out.append(("rx_alt_first:" + c, R % ("/ab(%s|cd)ef/" % run)))
            out.append(("rx_alt_last:" + c, R % ("/ab(cd|%s)ef/" % run)))
        out.append(("rx_alt_both", R % ("/(%s|%s)xyz/" % ("\\S" * k, "\\w" * k))))
        out.append(("rx_alt_nested", R % ("/ab((%s|c)|d)ef/" % ("\\S" * k))))
        out.append(("rx_run", R % ("/abcd%sefgh/" % ("\\S" * k))))
        out.append(("rx_alt_wide", R % ("/ab(%s|cd)ef/ wide ascii nocase" % ("\\S" * k))))
        masks = " ".join("?%X" % (i % 16) for i in range(1, k + 1))
        masks2 = " ".join("%X?" % (i % 16) for i in range(1, k + 1))
        negs = " ".join("~%02X" % i for i in range(1, k + 1))
        unk = " ".join(["??"] * k)
        for nm, run in (("mask_lo", masks), ("mask_hi", masks2), ("neg", negs), ("unknown", unk),
                        ("mixed", " ".join([masks, negs][i % 2].split()[i // 2] for i in range(k)) if k > 1 else masks)):
            out.append(("hex_alt_first:" + nm, R % ("{ AB ( %s | CD ) EF 01 }" % run)))
            out.append(("hex_alt_last:" + nm, R % ("{ AB ( CD | %s ) EF 01 }" % run)))
            out.append(("hex_alt_only:" + nm, R % ("{ ( %s | CD ) }" % run)))
            out.append(("hex_run:" + nm, R % ("{ AB CD %s EF 01 }" % run)))
        out.append(("hex_alt_nested", R % ("{ AB ( ( %s | 01 ) | CD ) EF }" % masks)))
    return out


def regex_shapes():
    """regex / hex strings assembled from the pieces the literal extraction and the pre/post validators treat
    specially: empty groups, alternations (narrow, wide-class branches, empty branch, nested), a class, a literal
    good enough to be the atom, a tail that needs a validator; all combinations, modifiers rotating"""
    R = 'rule a { strings: $a = %s condition: $a }'
    empties = ["", "()", "()()"]
    prefixes = ["", "k.", "ab"]
    alts = ["(x|y)", "(....|....)", "(....|[^a]...)", "(ab|cd|)", "([pq]x|yz)", "((x|y)|z)", "(...|\\S\\S\\S|\\w\\w\\w\\w)"]
    mids = ["", "[pq]"]
    lits = ["abcd", "abcdefgh"]
    tails = ["", ".z", ".*z", "\\d+$", "(e|f)", "()"]
    mods = ["", " nocase", " wide", " wide ascii", " fullword"]
    out, i = [], 0
    for e in empties:
        for pf in prefixes:
            for a in alts:
                for m in mids:
                    for l in (lits if not m else lits[:1]):
                        for t in tails:
                            out.append(("rx_shape", R % ("/%s%s%s%s%s%s/%s" % (pf, e, a, m, l, t, mods[i % len(mods)]))))
                            i += 1
                            if e and i % 3 == 0:      # the empty group elsewhere: after / inside the alternation
                                out.append(("rx_shape", R % ("/%s%s%s%s%s%s/" % (pf, a, e, m, l, t))))
                                out.append(("rx_shape", R % ("/%s%s%s%s/" % (pf, a.replace("|", "|()", 1), l, t))))
    # alternations whose branches are all wide: the per-alternation literal count is a sum of large products
    cls = [".", "\\S", "[^a]", "\\w", "[\\x00-\\xfe]"]
    for k in range(1, 7):
        for c1 in cls:
            for c2 in cls[:3]:
                out.append(("rx_wide_alt", R % ("/(%s|%s)/" % (c1 * k, c2 * k))))
            out.append(("rx_wide_alt", R % ("/abc(%s|%s|%s)def/ nocase" % (c1 * k, c1 * k, c1 * k))))
            out.append(("rx_wide_alt", R % ("/(%s|a)/" % (c1 * k))))
    for k in range(1, 6):
        for nb in (2, 3, 16, 256):
            branch = " ".join(["??"] * k)
            out.append(("hex_wide_alt", R % ("{ AB ( %s ) CD }" % " | ".join([branch] * nb))))
            out.append(("hex_wide_alt", R % ("{ ( %s ) }" % " | ".join(["?%X %s" % (j % 16, branch) for j in range(nb)]))))
    return out


def assertion_groups():
    """groups whose only content is an assertion, with and without a quantifier, in regexes that go down the raw
    matcher path (class-only bodies, anchors) and the literal path, plain / wide / ascii wide / nocase wide"""
    R = 'rule a { strings: $a = %s condition: $a }'
    groups = ["(\\b)", "(\\B)", "(^)", "($)", "(\\b)?", "(\\B)?", "(\\b)*", "(\\B)+", "(\\b){2}", "((\\b))",
              "(\\b|\\B)", "(\\b\\B)", "(\\b)(\\B)?", "(^)?", "($)*"]
    shapes = ["/%s[a-z]+/", "/^[a-z]+%s[0-9]/", "/^%s\\w+/", "/[a-z]+%s/", "/\\w+%s\\d+$/", "/%sabcd.z/", "/ab%scd/",
              "/[a-z]%s[a-z]%s[0-9]/"]
    mods = ["", " wide", " ascii wide", " nocase wide", " wide fullword"]
    out = []
    for g in groups:
        for sh in shapes:
            for m in mods:
                out.append(("rx_assert_group", R % ((sh % ((g,) * sh.count("%s"))) + m)))
    return out


def time_families():
    """compile time must stay modest: repeated groups with empty branches, nested optional groups, ..."""
    R = 'rule a { strings: $a = /%s/ condition: $a }'
    out = []
    for n in (8, 16, 24, 60, 200):
        out.append(("empty_branch2", R % ("(a|)" * n + "x")))
        out.append(("empty_branch3", R % ("(a|b|)" * n + "x")))
        out.append(("empty_first", R % ("(|a)" * n + "x")))
        out.append(("opt_group", R % ("(ab)?" * n + "xyz")))
        out.append(("opt_alt", R % ("(a|)?" * n + "x")))
        out.append(("alt2", R % ("(a|b)" * n + "x")))
        out.append(("cls_alt", R % ("([ab]|)" * n + "x")))
        m = min(n, 28)
        out.append(("nested_empty", R % ("(" * m + "a" + "|)" * m + "x")))
        out.append(("nested_opt", R % ("(" * m + "a" + ")?" * m + "x")))
        out.append(("hex_alts", 'rule a { strings: $a = { %s DD } condition: $a }' % ("( AA | BB CC | ?? ) " * min(n, 60))))
        out.append(("matches_empty_branch", 'rule a { condition: "x" matches /%sx/ }' % ("(a|)" * n)))
    return out


# texts whose every prefix is handed to the parser (with and without trailing blanks / comment)
TRUNCATION_TEXTS = [
    'import "math"\nglobal private rule r0 : t1 t2 {\n  meta:\n    a = "x"\n    b = 3\n    c = true\n  strings:\n'
    '    $a = "abc" wide ascii nocase fullword\n    $b = { AB ( ?1 | CD [1-2] ~EF ) 01 }\n'
    '    $c = /a(b|c)+[^x]\\d{1,2}/is\n    $d = "q" xor(1-3) private\n    $e = "z" base64 base64wide\n'
    '  condition:\n    #a in (0..10) > 1 and 1 of them in (10 .. filesize) and $a at 3 and @b[1] < !c[2]\n}\n',
    'rule r1 {\n  strings:\n    $a = "a"\n  condition:\n    for any i in (1..#a) : ( @a[i] == uint8(i + 1) ) or\n'
    '    for all of ($a*) : ( $ in (0..100) ) or any of them in (0 .. 5) or\n'
    '    for 2 i in (1, 2, 3) : ( i \\ 2 == -1 ) or not defined math.abs(~1 | 2) or "a" contains "b" or\n'
    '    "x" matches /y/ or 50% of them or none of ($a) or r0 and pe.sections[0].name == "t"\n}\n',
    'include "x.yar"\nrule r2 { condition: #a in (0',
]


# every token kind with an escape or a number in it: non-ASCII characters are inserted at every offset
ESCAPE_TEXT = ('rule e_1 : t {\n  meta:\n    m = "a\\x41\\n"\n  strings:\n    $a = "a\\x41\\n\\t\\\\\\"b" xor(0x01-0x1F)\n'
               '    $b = /\\x41[\\x00-\\x1f\\d]\\.\\/a{2,3}\\bz\\x7e/\n    $c = { 4A ?? [2-3] ~0F ( 01 | 02 ) }\n'
               '  condition:\n    $a and 0x1F + 1KB > 2MB \\ 3 and 1.5 < 2.0 and $b and #c == 1 and "\\x41" matches /[\\x41-\\x5a]\\x41/\n}\n')
NON_ASCII = ["\u00e9", "\u20ac", "\U0001F600"]      # 2, 3 and 4 bytes of UTF-8


def sessions():
    """several texts added to ONE compiler, some refused, then finalize + scan: [(name, steps, expect_steps,
    expect_matched)]; a step is (text, ns)"""
    defs = "rule a { condition: true }\nrule a2 { condition: true }\nrule b { condition: true }\n"
    deep = "rule z { condition: %strue%s }" % ("(" * 60, ")" * 60)
    fails = [
        ("dup_rule", "rule a { condition: false }"),
        ("dup_rule_global", "global rule a { condition: true }"),
        ("dup_rule_private", "private rule b { condition: false }"),
        ("dup_after_ok", "rule n1 { condition: true }\nrule a { condition: false }\nrule n3 { condition: true }"),
        ("dup_in_text", "rule n1 { condition: true }\nrule n1 { condition: true }"),
        ("dup_string", 'rule z { strings: $s = "x" $s = "y" condition: any of them }'),
        ("unknown_ident", "rule z { condition: nosuch }"),
        ("self_ref", "rule z { condition: z }"),
        ("syntax", "rule z { condition: "),
        ("too_deep", deep),
        ("unknown_import", 'import "nosuchmodule"\nrule z { condition: true }'),
        ("unused_string", 'rule z { strings: $s = "x" condition: true }'),
        ("bad_regex", "rule z { strings: $s = /a{2,1}/ condition: $s }"),
        ("wildcard_then_name", "rule w { condition: any of (a*) }\nrule a3 { condition: true }"),
        ("missing_include", 'rule n1 { condition: true }\ninclude "nosuch_c08.yar"'),
    ]
    refs = [
        ("ref_a", "rule c { condition: a }", True),
        ("ref_a_b", "rule c { condition: a and b and a2 }", True),
        ("ref_set", "rule c { condition: any of (a*) }", True),
        ("ref_count", "rule c { condition: 2 of (a, b) }", True),
        ("ref_all_set", "rule c { condition: all of (a*) and b }", True),
        ("ref_rejected", "rule c { condition: z }", False),
    ]
    out = []
    for fname, ftext in fails:
        for rname, rtext, ok in refs:
            for ns in (None, "ns1"):
                steps = [(defs, ns), (ftext, ns), (rtext, ns)]
                out.append(("%s/%s/%s" % (fname, rname, ns or "default"), steps, ["ok", "err", "ok" if ok else "err"],
                            [[ns or "default", "c"]] if ok else []))
        # the failure happens in another namespace: nothing of it may be seen from ours
        out.append((fname + "/other_ns", [(defs, None), (defs, "ns2"), (ftext, "ns2"), ("rule c { condition: a and b }", None),
                                           ("rule d { condition: a and b }", "ns2")],
                    ["ok", "ok", "err", "ok", None], [["default", "c"]]))
        # twice the same refusal, then a rule using the names, then more definitions and another user
        out.append((fname + "/twice", [(defs, None), (ftext, None), (ftext, None), ("rule c { condition: a }", None),
                                        ("rule e1 { condition: c and a2 }", None)], ["ok", "err", "err", "ok", "ok"],
                    [["default", "c"], ["default", "e1"]]))
    # a refusal before anything is defined, definitions afterwards
    for fname, ftext in fails:
        out.append((fname + "/first", [(ftext, None), ("rule q { condition: true }\nrule c { condition: q }", None)],
                    [None, "ok"], [["default", "c"]]))
    return out


NEST_KINDS = ["paren", "not", "neg", "bitnot", "defined", "for", "uint", "intparen", "subscript", "regex_group",
              "regex_alt", "regex_cond", "hex_alt", "hex_alt2"]
EXPR_KINDS = {"paren", "not", "neg", "bitnot", "defined", "for", "uint", "intparen", "subscript"}


def flat(kind, n):
    """long but not nested: must compile"""
    if kind == "and":
        return "rule a { condition: %s }" % " and ".join(["true"] * n)
    if kind == "or":
        return "rule a { condition: %s }" % " or ".join(["false"] * n + ["true"])
    if kind == "sum":
        return "rule a { condition: %s > 0 }" % " + ".join(["1"] * n)
    if kind == "bitor":
        return "rule a { condition: %s > 0 }" % " | ".join(["1"] * n)
    if kind == "rules":
        return "".join("rule r%d { condition: true }\n" % i for i in range(n))
    if kind == "seq_paren":
        return "rule a { condition: %s }" % " and ".join(["(true)"] * n)
    if kind == "seq_calls":
        return "rule a { condition: %s > 0 }" % " + ".join(["uint8(0)"] * n)
    if kind == "hex_long":
        return "rule a { strings: $a = { %s } condition: $a }" % " ".join(["AB", "??", "CD"] * n)
    if kind == "hex_seq_alt":
        return "rule a { strings: $a = { 00 %s 11 } condition: $a }" % " ".join(["( AB | CD )"] * min(n, 60))
    if kind == "regex_seq_group":
        return "rule a { strings: $a = /%s/ condition: $a }" % ("(ab)" * min(n, 200))
    if kind == "strings":
        return "rule a { strings: %s condition: any of them }" % " ".join('$s%d = "str%05d"' % (i, i) for i in range(n))
    raise ValueError(kind)


FLAT_KINDS = ["and", "or", "sum", "bitor", "rules", "seq_paren", "seq_calls", "hex_long", "hex_seq_alt",
              "regex_seq_group", "strings"]


class C08(Prop):
    ID = "C08"
    LEVEL = "proof"
    LEVEL_DETAIL = "proof (recursion depth) + exploration (runtime behaviour)"
    COQ_TARGETS = ["theories/Properties/C08.vo"]
    MODEL_TARGETS = ["theories/Base/ConstsParser.vo", "theories/Model/CallGraphCheck.vo", "theories/Model/CallGraph.vo"]
    CASE_HEADER = ""
    HARNESS_BINS = ("c08",)
    KF = {1: "C08-ast-drop-recursion"}
    RULE = ("EXPLORATION: rule texts from a grammar (valid by construction: must compile, finalize and scan), token- and "
            "byte-mutated variants (multi-byte characters, truncation, NUL/0xff bytes), every recursive re-entry "
            "position of the grammars (right and left operand of each binary operator inside uintN()/@a[]/(), call and "
            "subscript arguments, #a in / $a at / $a in bounds, for bodies, iterators and selections, `of` "
            "expressions, regex groups / alternation branches / repetitions, hex alternatives) with the limit at 5 "
            "and at its default, 1 .. 10x the limit deep (deeper than the limit must be refused by the parser, a "
            "quarter of it must be accepted), chains of 1000 / 40000 unary operators, nested for iterators under the "
            "wall-clock cap, pathological nestings "
            "(parentheses, not/-/~/defined chains, for, uintN(), @a[], regex groups and alternations in strings and in "
            "`matches`, hex alternatives) at limit-1 / limit / limit+1 / 2x / 10x the relevant limit, long flat "
            "sequences (must compile), all under parameter settings limits 1..255, max_condition_depth 1..200, "
            "max_strings_per_rule, fail_on_warnings, both profiles; each compiled in a child process (optimised build with "
            "debug assertions and overflow checks) on a thread whose stack is 1 MiB for the default limits (scaled with "
            "raised limits), 20 s wall clock.  Pass = outcome Ok or "
            "Err, no panic/abort/timeout, error and warning spans inside the input on character boundaries, "
            "descriptions render, parser and compiler agree, accepted sets finalize and scan.  PROOF: the call graph "
            "and guards are re-extracted and checked by coqc on every run.  Non-trivial: distinct (text, parameters).")
    TRUSTED = ["Coq 8.16.1 kernel + vm_compute (checker evaluation)", "translators/callgraph.py + translators/guardflow.py "
               "(function, edge and guard control-flow extraction from Rust source text; rules in their headers)", "translators/consts_parser.py",
               "harness/src/bin/c08.rs", "vlib/props/c08.py"]
    ASSUMPTIONS = ["counter balance is CHECKED (C08_counter_balanced: every path of the extracted control-flow graph of "
                   "each counter-guarded function hands back the entry counter on Ok and never goes below it); what is "
                   "trusted there is the reading of the Rust text into that graph (translators/guardflow.py: statement "
                   "subset listed in its header, anything else in a guarded function is rejected with the site named; "
                   "flat expressions and closures handed to combinators are accepted by pattern and listed at the end "
                   "of the generated Model/CallGraph.v)",
                   "unguarded functions pass the carrier on unchanged: checked as far as 'no function outside the "
                   "guards writes a counter' and 'no function reachable from a parser guard builds a fresh Input'",
                   "functions outside the translator's scope (nom, std, regex-syntax, module compile hooks) do not call "
                   "back into the scope except through the edges found",
                   "bytes of stack per frame are not modelled: the theorem bounds the number of frames",
                   "everything except the depth bound and the counter balance is exploration"]

    def translators(self, ctx):
        from translators import consts_parser, callgraph
        return consts_parser.run(core.REPO, core.VERIF) + callgraph.run(core.REPO, core.VERIF)

    # ---------------------------------------------------------------- generation
    def params(self, rng, plain=False):
        if plain:
            return {}
        p = {}
        if rng.chance(1, 3):
            p["expr_limit"] = rng.choice([1, 2, 3, 5, 10, 49, 50, 51, 100, 255])
        if rng.chance(1, 3):
            p["string_limit"] = rng.choice([1, 2, 3, 10, 29, 30, 31, 100, 255])
        if rng.chance(1, 3):
            p["max_condition_depth"] = rng.choice([1, 2, 3, 10, 39, 40, 41, 200])
        if rng.chance(1, 6):
            p["max_strings_per_rule"] = rng.choice([0, 1, 2, 10000])
        if rng.chance(1, 6):
            p["fail_on_warnings"] = True
        if rng.chance(1, 6):
            p["profile"] = "memory"
        return p

    def mk(self, kind, text, p, expect=None):
        if isinstance(text, str):
            b = text.encode("utf-8", "surrogatepass") if False else text.encode("utf-8")
        else:
            b = text
        c = {"kind": kind, "text_hex": b.hex(), "expect": expect}
        c.update(p)
        return c

    def mutate_tokens(self, rng, text):
        toks = re.findall(r"\w+|\s+|.", text, flags=re.S)
        for _ in range(rng.range(1, 3)):
            if not toks:
                break
            i = rng.below(len(toks))
            op = rng.below(5)
            if op == 0:
                del toks[i]
            elif op == 1:
                toks.insert(i, toks[i])
            elif op == 2 and i + 1 < len(toks):
                toks[i], toks[i + 1] = toks[i + 1], toks[i]
            elif op == 3:
                toks[i] = rng.choice(KEYWORDS)
            else:
                toks.insert(i, rng.choice(KEYWORDS))
        return "".join(toks)

    def mutate_bytes(self, rng, b):
        b = bytearray(b)
        for _ in range(rng.range(1, 3)):
            op = rng.below(6)
            i = rng.below(len(b) + 1)
            if op == 0 and b:
                b[min(i, len(b) - 1)] ^= 1 << rng.below(8)
            elif op == 1:
                b[i:i] = bytes([rng.choice([0, 0xff, 0x80, 0xc3, 0x22, 0x5c, 0x2f, 0x7b, 0x28, rng.below(256)])])
            elif op == 2 and b:
                del b[min(i, len(b) - 1)]
            elif op == 3:
                b[i:i] = rng.choice(MULTI).encode()
            elif op == 4:
                b = b[:i]
            else:
                j = rng.below(len(b) + 1)
                b[i:i] = b[j:j + rng.range(1, 20)]
        return bytes(b)

    def generate(self, ctx, rng, n):
        out = []
        # pathological nestings: every kind at the boundary levels of the limit that applies
        for kind in NEST_KINDS:
            for setting in range(3):
                p = {}
                if kind in EXPR_KINDS:
                    lim = [50, 10, 255][setting]
                    if setting:
                        p["expr_limit"] = lim
                    if setting == 2:
                        p["max_condition_depth"] = 200 if rng.chance(1, 2) else 40
                else:
                    lim = [30, 5, 255][setting]
                    if setting:
                        p["string_limit"] = lim
                for lv in sorted({max(1, lim // 2 - 1), lim // 2, lim // 2 + 1, lim - 1, lim, lim + 1, 2 * lim, 10 * lim}):
                    out.append(self.mk("nest:" + kind, nest(kind, lv), p, "err" if lv >= 10 * lim else None))
        # every recursive re-entry position, small and default limits: beyond the limit the parser must refuse
        for t in templates():
            key = "expr_limit" if t["cls"] == "expr" else "string_limit"
            default = 50 if t["cls"] == "expr" else 30
            for lim, levels in ((5, (1, 3, 5, 6, 12, 60)), (default, (default // 4, default - 1, default + 1, 10 * default))):
                for lv in levels:
                    p = {} if lim == default else {key: lim}
                    c = self.mk("reentry:" + t["name"], template_text(t, lv), p)
                    if lv > lim:
                        c["parse_expect"] = "too_deep"
                    elif lim == default and lv <= default // 4:
                        c["parse_expect"] = "ok"
                    out.append(c)
        # operator chains (known finding C08-ast-drop-recursion) and the wall-clock cap for nested for iterators
        for tok, body in (("- ", "%s1 == 1"), ("~ ", "%s1 == 1"), ("not ", "%strue"), ("defined ", "%strue")):
            for m in (1000, 40000):
                out.append(self.mk("chain:" + tok.strip(), "rule a { condition: " + body % (tok * m) + " }", {}))
        for k in (12, 20, 24):
            out.append(self.mk("time:for_iter", "rule a { condition: %s1%s }" % ("for any i in ((" * k, ")..2) : (true)" * k), {}))
            out.append(self.mk("time:for_iter_list", "rule a { condition: %s1%s }" % ("for any i in ((" * k, "), 2) : (true)" * k), {}))
        # string sections: runs of classes / masks / negations in and around alternation branches
        for nm, t in string_runs():
            out.append(self.mk("strrun:" + nm, t, {}))
        for nm, t in regex_shapes() + assertion_groups():
            out.append(self.mk("strshape:" + nm, t, {}))
        # long flat chains of every folded operator: beyond max_condition_depth they must be refused ("condition
        # is too complex"), never accepted and never a crash; and / or chains are n-ary and must be accepted
        for op in ("+", "-", "*", "\\", "%", "&", "|", "^", "<<", ">>"):
            for m in (39, 41, 100, 1000, 3000):
                c = self.mk("opchain:" + op, "rule a { condition: %s > 0 }" % (" %s " % op).join(["1"] * m), {})
                c["expect"] = "err" if m >= 41 else None
                out.append(c)
        for op in ("and", "or"):
            for m in (100, 3000, 30000):
                out.append(self.mk("opchain:" + op, "rule a { condition: %s }" % (" %s " % op).join(["true"] * m), {}, "ok"))
        for m in (100, 3000):
            out.append(self.mk("opchain:mixed", "rule a { condition: %s > 0 }" % " ".join(
                ["1"] + ["%s 1" % ["+", "|", "*", "-", "^"][i % 5] for i in range(m)]), {}))
            out[-1]["expect"] = "err" if m >= 3000 else None     # precedence makes the 100-operand tree shallow
            out.append(self.mk("opchain:contains", 'rule a { condition: %s }' % " and ".join(['"ab" contains "b"'] * m), {}, "ok"))
        # compile time families (wall-clock cap; the time measured in the child must stay below 15 s)
        for nm, t in time_families():
            out.append(self.mk("time:" + nm, t, {}))
        # systematic truncation: every byte prefix of the reference texts, and every token boundary with trailing
        # blanks / comments
        for ti, t in enumerate(TRUNCATION_TEXTS):
            b = t.encode()
            for cut in range(len(b) + 1):
                out.append(self.mk("trunc:%d" % ti, b[:cut], {}))
            if ti < 2:
                out[-1]["parse_expect"] = "ok"      # the whole reference text parses
            pos = [m.end() for m in re.finditer(r"\w+|\S", t)]
            for cut in pos:
                pre = t[:cut].encode()
                for tail in (b" ", b"\n\t ", b" // c", b" /* c */ ", b" /* open"):
                    out.append(self.mk("trunc_ws:%d" % ti, pre + tail, {}))
        # non-ASCII characters at every offset: all three in the escape text, one (rotating) in the reference texts
        for ti, t in enumerate([ESCAPE_TEXT] + TRUNCATION_TEXTS[:2]):
            for off in range(len(t) + 1):
                for ci, ch in enumerate(NON_ASCII):
                    if ti == 0 or ci == off % 3:
                        out.append(self.mk("utf8ins:%d" % ti, t[:off] + ch + t[off:], {}))
        out.append(self.mk("utf8ins:ref", ESCAPE_TEXT, {}, "ok"))
        # sessions on one compiler with refused texts in the middle
        for nm, steps, exp, matched in sessions():
            c = {"kind": "session:" + nm.split("/")[0], "text_hex": "", "expect": None,
                 "steps": [{"text_hex": t.encode().hex(), "ns": ns} for t, ns in steps],
                 "expect_steps": exp, "expect_matched": matched, "session": nm}
            out.append(c)
        for kind in FLAT_KINDS:
            for m in (10, 300, 3000):
                # chains of binary operators build a left-deep tree: beyond max_condition_depth they are an error
                deep = kind in ("sum", "bitor", "seq_calls") and m > 30
                out.append(self.mk("flat:" + kind, flat(kind, m), {}, None if deep else "ok"))
        for kind in ("sum", "bitor", "and"):
            out.append(self.mk("flat:" + kind, flat(kind, 40000), {}, "ok" if kind == "and" else None))
        out.append(self.mk("regex_size", "rule a { strings: $a = /(a{1000}){1000}/ condition: $a }", {}))
        out.append(self.mk("regex_size", "rule a { strings: $a = /((a{100}){100}){100}/ condition: $a }", {}))
        out.append(self.mk("regex_size", 'rule a { condition: "x" matches /(\\w{1000}){1000}/ }', {}))
        base = len(out)
        i = 0
        extra = 0
        while len(out) - base - extra < n:
            r = rng.fork("t%d" % i)
            i += 1
            txt = Gen(r).file()
            k = r.below(10)
            if k < 4:
                out.append(self.mk("valid", txt, self.params(r, plain=True), "ok"))
                if i % 25 == 0:
                    for m_ in re.finditer(r"\w+|\S", txt):
                        out.append(self.mk("trunc_gen", txt[:m_.end()] + r.choice(["", " ", " // c"]), {}))
                        extra += 1
            elif k < 5:
                out.append(self.mk("valid+params", txt, self.params(r)))
            elif k < 8:
                out.append(self.mk("token-mutated", self.mutate_tokens(r, txt), self.params(r)))
            else:
                out.append(self.mk("byte-mutated", self.mutate_bytes(r, txt.encode()), self.params(r)))
        return out

    def budget(self, tier):
        return 400 if tier == "quick" else 12000

    def corpus(self, ctx):
        out = []
        d = os.path.join(core.VERIF, "corpus", "C08")
        if os.path.isdir(d):
            for f in sorted(os.listdir(d)):
                if f.endswith(".json"):
                    out.append(core.load_case_file(os.path.join(d, f))["case"])
        return out

    # ---------------------------------------------------------------- execution
    def stack_kb(self, c):
        """1 MiB (`ulimit -s 1024`) for the default limits; raised limits get proportionally more.  Measured on the
        optimised build: default limits need < 512 KiB, limit 255 needs < 2 MiB (an unoptimised build needs about
        8 times as much: see notes/C08.md)."""
        f = max(1.0, (c.get("expr_limit") or 50) / 50.0, (c.get("string_limit") or 30) / 30.0,
                (c.get("max_condition_depth") or 40) / 40.0)
        return int(1024 * f * 1.5) if f > 1.0 else 1024

    def build_checked(self):
        ok, out, bind = core.harness_build(("c08",), profile="checked")
        if not ok:
            raise RuntimeError("checked build of the C08 harness failed: " + out[-1500:])
        return bind

    def execute(self, ctx, cases):
        if not getattr(ctx, "bind_checked", None):
            ctx.bind_checked = self.build_checked()
        hc = []
        for c in cases:
            h = {k: v for k, v in c.items() if k not in ("kind", "expect", "parse_expect", "expect_steps",
                                                          "expect_matched", "session")}
            if "steps" in h:
                h.pop("text_hex", None)
            h.setdefault("stack_kb", self.stack_kb(c))
            h.setdefault("wall_s", 20)
            hc.append(h)
            ctx.count("kind=" + c["kind"].split(":")[0])
        outs = core.harness_run(ctx.bind_checked, "c08", hc, shards=12)
        # a wall-clock timeout can be the machine, not the code: such a case is run again, alone, with a larger cap
        slow = [i for i, o in enumerate(outs) if isinstance(o, dict) and o.get("crash") == "timeout"]
        for i in slow:
            h = dict(hc[i])
            h["wall_s"] = 120
            o2 = core.harness_run(ctx.bind_checked, "c08", [h], shards=1, timeout=300)[0]
            if isinstance(o2, dict):
                o2["first_attempt"] = "timeout after %ss" % hc[i]["wall_s"]
                outs[i] = o2
        # a crash: is it the recorded one (recursive drop of a left-deep tree)?  Re-run the parser alone, leaking
        # the tree instead of dropping it.
        redo = [i for i, o in enumerate(outs) if isinstance(o, dict) and "crash" in o
                and "overflowed its stack" in o.get("stderr", "") and self.op_chain(cases[i]) >= 1000]
        if redo:
            h2, h3 = [], []
            for i in redo:
                h = dict(hc[i])
                h["parse_only"] = True
                h3.append(dict(h))              # parser only, result dropped: must die the same way
                h["forget_ast"] = True
                h2.append(h)                    # parser only, result leaked: must return
            r2 = core.harness_run(ctx.bind_checked, "c08", h2, shards=12)
            r3 = core.harness_run(ctx.bind_checked, "c08", h3, shards=12)
            for i, o2, o3 in zip(redo, r2, r3):
                if isinstance(o2, dict) and o2.get("parse") == "ok" and isinstance(o3, dict) \
                        and "overflowed its stack" in o3.get("stderr", ""):
                    outs[i]["kf"] = 1
        for c, o in zip(cases, outs):
            if isinstance(o, dict) and "compile" in o:
                ctx.count("compile=" + ("ok" if o["compile"] == "ok" else "err"))
                if o["compile"] != "ok":
                    ctx.count("error=" + o["compile"][4:44])
            else:
                ctx.count("compile=CRASH")
        return outs

    def op_chain(self, case):
        """number of operator tokens the parser folds in a loop (binary arithmetic / bitwise operators, unary
        `-` `~` `not` `defined`): class predicate of the known finding C08-ast-drop-recursion"""
        try:
            t = bytes.fromhex(case["text_hex"]).decode("utf-8", "replace")
        except ValueError:
            return 0
        return len(re.findall(r"[0-9a-z_\)\]]\s*(\+|-|\*|\\|%|&|\||\^|<<|>>)\s*[0-9a-z_\(~-]", t)) + \
            len(re.findall(r"(?:-|~|\bnot\b|\bdefined\b)\s*(?=-|~|not\b|defined\b)", t))

    def verdict(self, case, o):
        if not isinstance(o, dict) or "compile" not in o:
            return "crash/panic/timeout: %s" % json.dumps(o)[:200]
        if not o.get("spans_ok"):
            return "span: " + o.get("span_problem", "")
        if not o.get("rendered"):
            return "an error does not render"
        if o["compile"] == "ok" and o["scan"] != "ok":
            return "accepted rule set does not scan: " + o["scan"]
        if o["scan"].startswith("err"):
            return "the finalized scanner does not scan: " + o["scan"]
        if "steps" in case:
            got = o.get("steps", [])
            for i, e in enumerate(case.get("expect_steps", [])):
                if e and (i >= len(got) or (got[i] == "ok") != (e == "ok")):
                    return "session %s: step %d expected %s, got %s" % (case.get("session"), i, e,
                                                                        got[i][:60] if i < len(got) else "nothing")
            for m in case.get("expect_matched", []):
                if m not in o.get("matched", []):
                    return "session %s: rule %s should match after the refused texts" % (case.get("session"), m)
            return None
        if case.get("expect") == "ok" and o["compile"] != "ok":
            return "text valid by construction rejected: " + o["compile"]
        if case.get("expect") == "err" and o["compile"] == "ok":
            return "a text that must be refused (depth or chain beyond the limit) was accepted"
        if case.get("parse_expect") == "too_deep" and not o["parse"].startswith("err:"):
            # (the refusal is usually "too many imbricated ...", but where the parser tries an alternative after
            # a failed branch it can surface as a plain syntax error: refused is what matters)
            return "text nested deeper than the recursion limit accepted by the parser"
        if case.get("parse_expect") == "ok" and o["parse"] != "ok":
            return "nesting well below the limit refused: " + o["parse"][:60]
        if o.get("ms", 0) > 15000:
            return "took %d ms" % o["ms"]
        return None

    def term(self, ctx, case, out):
        bad = self.verdict(case, out)
        if bad:
            if isinstance(out, dict):
                out["why"] = bad
                if out.get("kf") == 1:
                    # fails exactly as recorded: the parser returns, dropping the tree overflows the stack
                    return (True, False, 1)
            return (False, False, 0)
        return (True, True, 0)

    def nontrivial(self, case, out):
        if not isinstance(out, dict):
            return None
        return hashlib.sha1(json.dumps({k: v for k, v in case.items() if k != "kind"}, sort_keys=True).encode()).hexdigest()

    def sample(self, case, out):
        try:
            t = bytes.fromhex(case["text_hex"]).decode("utf-8", "replace")[:300]
        except Exception:
            t = ""
        return {"kind": case["kind"], "text": t, "params": {k: v for k, v in case.items()
                                                              if k not in ("kind", "text_hex", "expect")}, "out": out}

    def extra_search(self, ctx, rng, around):
        return self.generate(ctx, rng, 1500)


PROP = C08()
