# C02 — hex strings: reported matches are sound, complete, ordered (DESIGN §7 C02).
import json, os
from .. import core
from ..core import gN, gbool, glist, gbytes, gopt, gpair
from ..runner import Prop
from . import _hir

ALPHA = [0x61, 0x62, 0x63, 0x41, 0x00, 0xFF, 0x20, 0x0A, 0xCC, 0x31]


class C02(Prop):
    ID = "C02"
    LEVEL = "proof"
    COQ_TARGETS = ["theories/Properties/C02.vo"]
    MODEL_TARGETS = ["theories/Model/HexCase.vo"]
    CASE_HEADER = ("From Boreal Require Import Base.Prelude Spec.Regex Model.Hir Model.Widen Model.Validator "
                   "Model.Raw Model.HirScan Model.HexCase.")
    HARNESS_BINS = ("c02",)
    KF = {1: "C02-start-position", 3: "C02-alt-glue", 5: "C02-length-by-arrival"}
    RULE = ("hex token ASTs (bytes, ?X, X?, ??, ~XX, ~?X, ~X?, [n], [n-m], [n-], [-m], nested alternatives of unequal "
            "lengths, depth <= 3) printed to YARA syntax, compiled by the real engine; per pattern 4 inputs <= 64 "
            "bytes made of members / near-members of L(p) spliced and overlapped into noise drawn from the pattern's "
            "own bytes.  Full (offset, length) lists with compute_full_matches compared with the Coq model run on the "
            "implementation's own decomposition (hook) and with the language spec.  Non-trivial: at least one input "
            "with a match and one input where some start is not a match; distinct by (pattern, inputs).")
    TRUSTED = ["Coq 8.16.1 kernel + vm_compute", "harness/src/bin/c02.rs + hirdesc/mod.rs (prints the hook's HIR as JSON)",
               "vlib/props/c02.py, _hir.py (print the token AST to YARA text and to Gallina)",
               "hook Scanner::verif_describe_strings",
               "contracts: aho-corasick overlapping order; regex-automata anchored fwd leftmost-first / rev All / find"]
    ASSUMPTIONS = ["regex-automata implements leftmost-first on the printed HIR; printing + re-parsing preserves the "
                   "language (covered by the comparison with Spec/Regex.v only)",
                   "inputs <= 64 bytes: the 4096-byte window is never reached in generated cases"]

    def translators(self, ctx):
        from translators import consts
        return consts.run(core.REPO, core.VERIF)

    # ---------------------------------------------------------------- generation
    def gen_tokens(self, rng, depth, in_alt, maxlen):
        n = rng.range(1, maxlen)
        toks = []
        for i in range(n):
            first_or_last = (i == 0 or i == n - 1)
            r = rng.below(100)
            if r < 50:
                toks.append(["b", rng.choice(ALPHA) if rng.chance(4, 5) else rng.below(256)])
            elif r < 60:
                toks.append(["m", rng.below(16), rng.choice(["L", "R"])])
            elif r < 66:
                toks.append(["m", 0, "A"] + ([True] if rng.chance(1, 4) else []))
            elif r < 71:
                toks.append(["nb", rng.choice(ALPHA)])
            elif r < 75:
                toks.append(["nm", rng.below(16), rng.choice(["L", "R"])])
            elif r < 88:
                if first_or_last:
                    toks.append(["b", rng.choice(ALPHA)])
                    continue
                k = rng.below(10)
                if k < 3:
                    f = rng.choice([2, 3, 4, 5])
                    toks.append(["j", f, f])
                elif k < 8 or in_alt:
                    f = rng.range(0, 3)
                    to = f + rng.range(1, 6)
                    toks.append(["j", f, to] + ([True] if f == 0 and rng.chance(1, 3) else []))
                else:
                    toks.append(["j", rng.range(0, 3), None])
            else:
                if depth >= 2:
                    toks.append(["b", rng.choice(ALPHA)])
                    continue
                nalt = 1 if rng.chance(1, 5) else rng.range(2, 3)      # `( 33 44 )`: a group without `|`
                toks.append(["alt", [self.gen_tokens(rng, depth + 1, True, 3) for _ in range(nalt)]])
        return toks

    def gen_input(self, rng, toks, alphabet):
        parts = []
        total = 0
        k = rng.below(10)
        while total < 40:
            r = rng.below(10)
            if r < 5:
                m = _hir.hex_member(rng, toks, alphabet)
                if r == 4 and len(m) > 0:   # near member
                    m = bytearray(m)
                    i = rng.below(len(m))
                    m[i] = rng.choice(alphabet)
                    m = bytes(m)
                # overlap with what precedes: drop a prefix that equals the current tail
                if parts and rng.chance(1, 3) and len(m) > 1:
                    m = m[rng.range(1, len(m) - 1):]
            else:
                m = rng.bytes(rng.range(1, 5), alphabet)
            parts.append(m)
            total += len(m)
            if k == 0 and total > 8:
                break
        return b"".join(parts)[:64]

    def gen_shared_prefix(self, rng):
        """alternatives that share a prefix and differ in length by more than the atom window, plus an
        alternative taken from the middle: matches at one offset arrive at different times, with a match at
        a larger offset saved in between (exercises the sorted, one-per-offset insertion)."""
        k = rng.range(8, 11)
        if rng.chance(1, 2):
            w = [rng.choice([0x61, 0x62])] * 0 + [[0x61, 0x62][i % 2] for i in range(k)]      # abab...
        else:
            w = [0x61 + i for i in range(k)] if rng.chance(1, 2) else [rng.choice([0x61, 0x62, 0x63, 0x64]) for _ in range(k)]
        alts = [w[:4], w[:8]]
        if rng.chance(2, 3):
            a = rng.range(1, 3)
            alts.append(w[a:a + rng.range(3, 5)])
        if rng.chance(1, 3):
            alts.append(w[:6])
        alts = rng.shuffle(alts)
        toks = [["alt", [[["b", b] for b in a] for a in alts]]]
        if rng.chance(1, 2):
            toks += [["j", 0, rng.range(1, 3)], ["b", 0x7A]]
        elif rng.chance(1, 2):
            toks = [["m", 0, "A"]] + toks
        wb = bytes(w)
        inputs = []
        for i in range(4):
            r = rng.fork("sp%d" % i)
            parts = []
            for _ in range(r.range(1, 3)):
                parts.append(r.bytes(r.range(0, 3), [0x61, 0x62, 0x7A, 0x20]))
                parts.append(wb[:r.choice([4, 6, 8, len(wb)])] if r.chance(1, 3) else wb)
                if r.chance(1, 2):
                    parts.append(b"z")
            inputs.append(b"".join(parts)[:64].hex())
        src = "rule r { strings: $a = { %s } condition: $a or true }" % _hir.hex_text(toks)
        return {"toks": toks, "src": src, "inputs": inputs}

    def gen_long_jump(self, rng):
        """fixed (and nearly fixed) jumps around 255/256/257/510/511/512 and up to ~1100 on one side of a literal
        run that otherwise holds only bytes, masks and ??: the input must be as long as the jump."""
        j = rng.choice([250, 254, 255, 256, 257, 300, 510, 511, 512, 513, 767, 768, 1023, 1024, 1100, rng.range(250, 1100)])
        lit = [["b", rng.choice([0xAA, 0xBB, 0xCC, 0xDD, 0x41, 0x62])] for _ in range(4)]
        other = rng.choice([[["b", 0xEE]], [["m", 0xE, "R"]], [["b", 0xEE], ["m", 0, "A"], ["b", 0x31]], [["nm", 0x3, "L"], ["b", 0xEE]]])
        jump = ["j", j, j] if rng.chance(3, 4) else ["j", j, j + rng.range(1, 2)]
        toks = (lit + [jump] + other) if rng.chance(1, 2) else (other + [jump] + lit)
        # build members by hand: left part, filler of exactly j (and j-1 / j+1 as near members), right part
        left = _hir.hex_member(rng, toks[:toks.index(jump)], [0x10, 0x20])
        right = _hir.hex_member(rng, toks[toks.index(jump) + 1:], [0x10, 0x20])
        inputs = []
        for fill in ([j] if rng.chance(1, 2) else [j, rng.choice([j - 1, j + 1, 255, j - 256 if j > 300 else j + 2])]):
            filler = bytes([0x00]) * fill
            inputs.append((bytes([0x00]) * rng.range(0, 2) + left + filler + right + bytes([0x00]) * rng.range(0, 2)).hex())
        src = "rule r { strings: $a = { %s } condition: $a or true }" % _hir.hex_text(toks)
        return {"toks": toks, "src": src, "inputs": inputs}

    def gen_single_branch(self, rng):
        """parenthesised groups WITHOUT `|` (an alternation with one branch) next to jumps / `??`, on a side where
        a validator is built: the node positions of literal extraction and of the pre/post extraction must agree"""
        byte = lambda: ["b", rng.choice([0x0A, 0x11, 0x22, 0x33, 0x44, 0x55, 0x66, 0x41, 0x42])]
        grp = lambda: ["alt", [[byte() for _ in range(rng.range(1, 3))]]]
        gap = lambda: rng.choice([["j", 1, 2], ["j", 2, 2], ["m", 0, "A"], ["j", 0, 3]])
        parts = [byte()]
        if rng.chance(1, 2):
            parts += [gap(), byte(), byte()]
        parts += [grp()] if rng.chance(2, 3) else [byte(), grp(), byte()]
        if rng.chance(1, 2):
            parts += [gap()]
        parts += [byte() for _ in range(rng.range(2, 6))]
        if rng.chance(1, 3):
            parts += [grp()]
        parts += [gap(), byte()]
        if rng.chance(1, 3):
            parts = [["alt", [parts[:3]]]] + parts[3:] if parts[0][0] == "b" and parts[1][0] == "b" and parts[2][0] == "b" else parts
        toks = parts
        used = sorted(_hir.hex_bytes_used(toks, set())) or ALPHA
        alphabet = used * 3 + ALPHA[:4]
        inputs = [self.gen_input(rng.fork("i%d" % i), toks, alphabet).hex() for i in range(4)]
        src = "rule r { strings: $a = { %s } condition: $a or true }" % _hir.hex_text(toks)
        return {"toks": toks, "src": src, "inputs": inputs}

    def gen_case(self, rng):
        if rng.chance(1, 14):
            return self.gen_single_branch(rng)
        if rng.chance(1, 12):
            return self.gen_wildcard_edge(rng)
        if rng.chance(1, 8):
            return self.gen_shared_prefix(rng)
        toks = self.gen_tokens(rng, 0, False, 8)
        used = sorted(_hir.hex_bytes_used(toks, set()))
        alphabet = (used * 3 + ALPHA[:4]) if used else ALPHA
        inputs = [self.gen_input(rng.fork("i%d" % i), toks, alphabet).hex() for i in range(4)]
        src = "rule r { strings: $a = { %s } condition: $a or true }" % _hir.hex_text(toks)
        return {"toks": toks, "src": src, "inputs": inputs}

    def gen_wildcard_edge(self, rng):
        """a literal run with runs of consecutive `??` (merged into one jump node by the simple validator) before
        and/or after it; the inputs END or START at every position inside those runs, so that the bytes left
        next to the atom fall between the number of nodes and the real length of the expression."""
        lit = [["b", rng.choice([0x41, 0x42, 0x43, 0x44, 0x61])] for _ in range(4)]
        def run():
            k = rng.range(2, 5)
            r = [["m", 0, "A"] for _ in range(k)]
            if rng.chance(1, 3):
                r.insert(rng.range(1, k), ["m", rng.below(16), rng.choice(["L", "R"])])
            return r
        def closing():
            return [] if rng.chance(1, 2) else [["b", rng.choice([0x45, 0x00])]]
        shape = rng.below(3)
        before = (closing() + run()) if shape in (1, 2) else []
        after = (run() + closing()) if shape in (0, 2) else []
        toks = before + lit + after
        member = _hir.hex_member(rng, toks, [0x78, 0x79, 0x7A])
        nb, na = len(before), len(after)
        inputs = [(b"xx" + member + b"yz").hex(), member.hex()]
        for cut in range(len(member) - na, len(member)):        # ends inside (or right before) the trailing run
            inputs.append((rng.choice([b"", b"x", b"xx"]) + member[:cut]).hex())
        for cut in range(1, nb + 1):                             # starts inside (or right after) the leading run
            inputs.append((member[cut:] + rng.choice([b"", b"y"])).hex())
        inputs = list(dict.fromkeys(inputs))[:10]
        src = "rule r { strings: $a = { %s } condition: $a or true }" % _hir.hex_text(toks)
        return {"toks": toks, "src": src, "inputs": inputs}

    def gen_scanner_history(self, rng):
        """several long validations on ONE scanner (the harness compiles once and scans the inputs in order):
        a state-hungry pattern (three long jumps), members a few KB long (below the 4096 window) full of the
        bytes that end the jumps, framed by a short member scanned first and last.  Too long for vm_compute:
        the expected lists are known by construction (one head literal, one tail literal per input: the only
        possible match is the whole input) and `term` decides without Coq; what is checked is that the answer
        for an input does not depend on what the scanner validated before."""
        head = [rng.choice([0x11, 0x12, 0x13]), 0x22, 0x33, 0x44]
        tail = [0x77, 0x88, 0x99, rng.choice([0xAA, 0xAB])]
        j = rng.choice([1200, 1150, 1100])
        a, b = 0x55, 0x66
        toks = ([["b", x] for x in head] + [["j", 0, j], ["b", a], ["j", 0, j], ["b", b], ["j", 0, j]]
                + [["b", x] for x in tail])
        short = bytes([0, 0] + head + [a, b] + tail + [0])
        inputs, expect = [short.hex()], [[(2, 10)]]
        for i in range(rng.range(4, 5)):
            r = rng.fork("h%d" % i)
            n = r.range(3 * j - 350, 3 * j - 200)
            noise = bytes(r.choice([a, b, 0, 0]) for _ in range(n))
            m = bytes(head) + noise + bytes([a, b]) + bytes(tail)
            # the member claim, checked and not assumed: latest `a` within reach of the head, latest `b` within reach
            # of it, tail within reach of that `b` (jumps are [0-j]); otherwise the whole input is not a member
            p1 = max((p for p in range(4, min(4 + j, len(m) - 5) + 1) if m[p] == a), default=None)
            p2 = None if p1 is None else max((p for p in range(p1 + 1, min(p1 + 1 + j, len(m) - 5) + 1) if m[p] == b), default=None)
            member = p2 is not None and len(m) - 4 <= p2 + 1 + j
            inputs.append(m.hex())
            expect.append([(0, len(m))] if member else [])
        inputs.append(short.hex())
        expect.append([(2, 10)])
        src = "rule r { strings: $a = { %s } condition: $a or true }" % _hir.hex_text(toks)
        return {"toks": toks, "src": src, "inputs": inputs, "expect": [[list(x) for x in e] for e in expect]}

    def generate(self, ctx, rng, n):
        nlong = 16 if n < 2000 else 60      # long inputs are costly under vm_compute: a bounded number per run
        nhist = 2 if n < 2000 else 6
        return ([self.gen_long_jump(rng.fork("lj%d" % i)) for i in range(nlong)]
                + [self.gen_scanner_history(rng.fork("sh%d" % i)) for i in range(nhist)]
                + [self.gen_case(rng.fork("c%d" % i)) for i in range(n)])

    def budget(self, tier):
        return 900 if tier == "quick" else 8000

    def corpus(self, ctx):
        return _hir.load_corpus("C02")

    # ---------------------------------------------------------------- execution
    def execute(self, ctx, cases):
        hc = [{"rules": [{"ns": None, "src": c["src"]}], "params": {"compute_full_matches": True},
               "inputs": c["inputs"], "both_profiles": True} for c in cases]
        outs = core.harness_run(ctx.binp, "c02", hc)
        for c, o in zip(cases, outs):
            if isinstance(o, dict) and "desc" in o and o["desc"]:
                ctx.count("kind=" + o["desc"][0]["kind"])
                ctx.count("literals=%s" % ("0" if not o["desc"][0]["literals"] else "1" if len(o["desc"][0]["literals"]) == 1
                                           else "2-16" if len(o["desc"][0]["literals"]) <= 16 else ">16"))
            elif isinstance(o, dict) and "compile_error" in o:
                ctx.count("compile_error")
            else:
                ctx.count("crash")
            kinds = set()

            def walk(ts):
                for t in ts:
                    kinds.add({"b": "byte", "nb": "notbyte", "m": "mask", "nm": "notmask", "j": "jump", "alt": "alt"}[t[0]])
                    if t[0] == "alt":
                        for a in t[1]:
                            walk(a)
            walk(c["toks"])
            for k in kinds:
                ctx.count("has_" + k)
        return outs

    # ---------------------------------------------------------------- Coq term
    def term(self, ctx, case, out):
        if not isinstance(out, dict) or "desc" not in out or len(out["desc"]) != 1 or out["desc"][0]["hir"] is None:
            return (False, False, 0)       # a legal hex string must compile and scan
        if not _hir.profiles_agree(out):
            ctx.count("profiles_disagree")
            return (False, False, 0)       # the answer depends on the compiler profile: one of the two is wrong
        if len(out["desc"][0]["literals"]) > 4000:
            # the description does not fit in one Gallina term (coqc overflows its stack): not evaluated
            ctx.count("not_evaluated_too_many_literals")
            return (True, True, 0)
        if "expect" in case:
            # scanner-history family: expected lists known by construction, decided without Coq
            ctx.count("scanner_history_cases")
            got = [_hir.matches_of(s) for s in out["scans"]]
            want = [[tuple(x) for x in e] for e in case["expect"]]
            ok = (len(got) == len(want) and all(g is not None and not s.get("error") and [tuple(x) for x in g] == w
                                                for g, w, s in zip(got, want, out["scans"])))
            return (ok, ok, 0)
        outs = []
        for s in out["scans"]:
            ms = _hir.matches_of(s)
            if ms is None or s.get("error"):
                return (False, False, 0)
            outs.append(_hir.g_matches(ms))
        ins = glist([gbytes(bytes.fromhex(h)) for h in case["inputs"]])
        kr, kf = _hir.half_codes(out["desc"][0]["kind"])
        return "let d := %s in with_kinds (kinds_ok d %d %d && classes_ok %s) (C02_case %s d %s %s)" % (
            _hir.g_sdesc(out["desc"][0]), kr, kf, _hir.g_classes(out["desc"][0]["hir"]), _hir.g_tokens(case["toks"]), ins, glist(outs))

    def nontrivial(self, case, out):
        if not isinstance(out, dict) or "scans" not in out:
            return None
        lists = [_hir.matches_of(s) or [] for s in out["scans"]]
        some_match = any(l for l in lists)
        some_nonmatch = any(len(l) < len(bytes.fromhex(h)) for l, h in zip(lists, case["inputs"]))
        if some_match and some_nonmatch:
            return json.dumps([case["src"], case["inputs"]])
        return None

    def sample(self, case, out):
        o = out if isinstance(out, dict) else {}
        d = (o.get("desc") or [{}])[0]
        return {"src": case["src"], "inputs": case["inputs"],
                "kind": d.get("kind"), "literals": (d.get("literals") or [])[:4],
                "matches": [_hir.matches_of(s) for s in o.get("scans", [])]}

    def extra_search(self, ctx, rng, around):
        extra = []
        for c in around[:10]:          # same pattern, fresh inputs
            used = sorted(_hir.hex_bytes_used(c["toks"], set())) or ALPHA
            for k in range(5):
                r = rng.fork("a%d" % k)
                extra.append({"toks": c["toks"], "src": c["src"],
                              "inputs": [self.gen_input(r.fork("i%d" % i), c["toks"], used * 3 + ALPHA[:4]).hex()
                                         for i in range(4)]})
        return extra + self.generate(ctx, rng, 300)


PROP = C02()
