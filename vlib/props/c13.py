# C13 — scans are pure: repeatable, thread-safe, clones are isolated.
#
# Three kinds of cases (harness/src/bin/c13.rs):
#   hist  histories of clone / define_symbol / set_scan_params / set_module_data / scan over a family of clones,
#         every member observed after every operation; compared in Coq with the family model (corr) and with the
#         clone-by-clone lineage fold (spec)                                                           [proof level]
#   hash  one scanner, several inputs, rules logging hash.* calls over ranges; sequential (same scanner, repeated)
#         and concurrent on clones; compared in Coq with the memoised model (corr) and the reference (spec) [proof]
#   conc  multisets of jobs on 1..16 threads, shared scanner or clones; every job's result must equal the result
#         of running it alone (oracle of the same binary, computed before and after), and the verdicts known by
#         construction (planted strings, python re / hashlib)                                        [exploration]
#   seq   sequences of DIFFERENT inputs on one scanner (inputs decided without the string scan mixed with inputs that
#         need it, default parameters; many large inputs thrashing the validators' lazy-DFA caches); every scan —
#         on the scanner, on a clone made before the sequence (other thread), on a clone made after, and once more
#         at the end — must give the FULL result (match details included) of a scanner compiled for that scan alone
#                                                                                                    [exploration]
#   nest  re-entrancy on one thread: a scan started from inside the RuleMatch callback of another scan (same scanner,
#         a clone, another scanner), rules reading per-scan caches after the callback; references = each scan alone
#         on a scanner compiled for it                                                                [exploration]
#   script one thread, several scanners with their own parameters (timeouts), set_scan_params between scans, scans that
#         return early, waits, a logger that panics once; references computed first, each on its own thread
#                                                                                                    [exploration]
import hashlib, json, os, re
from .. import core
from ..core import gN, gZ, gbool, glist, gbytes, gopt, gpair, gstr
from ..runner import Prop

ASSETS = os.path.join(core.REPO, "boreal", "tests", "assets")
PE_PROBE = os.path.join(ASSETS, "libyara", "data", "mtxex.dll")
MODULE_FILES = [
    os.path.join(ASSETS, "libyara", "data", "mtxex.dll"),
    os.path.join(ASSETS, "pe", "resources_only.dll"),
    os.path.join(ASSETS, "pe", "signed", "rsa_sha256.exe"),
    os.path.join(ASSETS, "elf", "elf_with_imports"),
    os.path.join(ASSETS, "elf", "smallest"),
    os.path.join(ASSETS, "libyara", "data", "tiny-macho"),
]
NEEDLE = b"abcdefgh"
DEFAULT_PARAMS = {"compute_full_matches": False, "match_max_length": 512, "string_max_nb_matches": 1000,
                  "include_not_matched": False, "process_memory": False, "max_fetched_region_size": 1073741824,
                  "memory_chunk_size": None, "events": 1, "statistics": False, "mode": "legacy"}
MODES = {"legacy": 0, "fast": 1, "single_pass": 2}
I64_MIN, I64_MAX = -(1 << 63), (1 << 63) - 1
FILLER = b"ijklmnopqrstuvwxyz0123456789 ._-"


# ---------------------------------------------------------------------------------------------- helpers
def params_vec(p):
    """ScanParams (case form or getter form) -> the vector of Model/ScannerStateCase.v."""
    q = dict(DEFAULT_PARAMS)
    q.update({k: v for k, v in p.items() if k != "timeout"})
    mode = q["mode"]
    if isinstance(mode, str):
        mode = MODES[mode]
    chunk = q["memory_chunk_size"]
    return [int(bool(q["compute_full_matches"])), q["match_max_length"], q["string_max_nb_matches"],
            int(bool(q["include_not_matched"])), int(bool(q["process_memory"])), q["max_fetched_region_size"],
            0 if chunk is None else chunk + 1, q["events"], int(bool(q["statistics"])), mode]


def unescape(s):
    """inverse of core::ascii::escape_default applied byte-wise"""
    out = bytearray()
    i = 0
    while i < len(s):
        c = s[i]
        if c != "\\":
            out.append(ord(c))
            i += 1
            continue
        n = s[i + 1]
        if n == "x":
            out.append(int(s[i + 2:i + 4], 16))
            i += 4
        else:
            out.append({"t": 9, "r": 13, "n": 10, "'": 39, '"': 34, "\\": 92}[n])
            i += 2
    return bytes(out)


def sym_value(s):
    if "int" in s:
        return ("int", s["int"])
    if "bool" in s:
        return ("bool", s["bool"])
    if "float" in s:
        return ("float", s["float"])
    return ("bytes", s["bytes"])


def g_extval(kind, v):
    if kind == "int":
        return "EInt %s" % gZ(v)
    if kind == "bool":
        return "EBool %s" % gbool(v)
    if kind == "float":
        q = v * 4
        assert q == int(q)
        return "EFloat %s" % gZ(int(q))
    return "EBytes %s" % gbytes(bytes.fromhex(v) if isinstance(v, str) else v)


def g_obs(o):
    return ("{| ob_params := %s; ob_fp := %s; ob_nm := %s; ob_syms := %s; ob_console := %s; ob_pe := %s |}" % (
        glist([gN(x) for x in o["params"]]),
        gopt(o["fp"], lambda t: gpair(gN(t[0]), gN(t[1]))), gbool(o["nm"]),
        glist([g_extval(k, v) for k, v in o["syms"]]), gopt(o["console"], gN), gbool(o["pe"])))


class Bad(Exception):
    pass


class C13(Prop):
    ID = "C13"
    LEVEL = "proof"
    COQ_TARGETS = ["theories/Properties/C13.vo"]
    MODEL_TARGETS = ["theories/Model/ScannerState.vo", "theories/Model/HashCache.vo", "theories/Model/Interleave.vo",
                     "theories/Model/ScannerStateCase.vo"]
    CASE_HEADER = ("From Coq Require Import String.\n"
                   "From Boreal Require Import Base.Prelude Model.ScannerState Model.ModFuncs Model.HashMod "
                   "Model.HashCache Model.ScannerStateCase.")
    HARNESS_BINS = ("c13",)
    KF = {}
    RULE = ("hist: random histories (6-16 operations, 1-5 clones) of clone / define_symbol (known and unknown names, "
            "matching and non-matching types over integer, float, boolean, bytes; boundary integers, bytes needing "
            "escapes) / set_scan_params (all getters varied) / set_module_data (console callback tag, pe is_signed) / "
            "scan, executed on real Scanner values; after EVERY operation EVERY clone is observed (getters + probe "
            "scan exposing each symbol, the module data and the effect of the parameters) and compared with the "
            "family model and with the per-clone lineage fold.  hash: 3-8 hash.* calls (md5/sha1/sha256/checksum32/"
            "crc32; repeated ranges, same range under another algorithm, clamped / out-of-bounds / negative ranges, "
            "string arguments) logged by one scanner over 2-3 inputs of equal length, each input scanned twice in a "
            "row and again in reverse order, then concurrently on 2-6 clones for 2-3 rounds.  conc: 3-12 jobs x "
            "{1,2,4,8,16} threads x {shared scanner, clones reconfigured per job} x 1-3 rounds, list / callback / "
            "fragmented API with seeded yields between scans, inside callbacks and inside fetch; rules: text, nocase, "
            "wide, fullword, regexes with `wide` + \\b/\\B (hand-stepped wide DFA walk), greedy and non-greedy atomized "
            "regexes (reverse/forward lazy-DFA validators), raw regexes, `matches` in conditions, counts, rule "
            "references, external symbols, hash.* over ranges "
            "planted from other jobs' inputs, pe/elf/macho on small assets; oracle on a separately compiled scanner.  "
            "seq: 6-15 scans of 3-7 inputs (small inputs decided by filesize alone but holding strings a full scan "
            "would report, big inputs needing the scan; default parameters 3 times out of 4), or 30-45 different "
            "2.8-3.8 KB inputs for /xy[ab]*a[ab]{17..19}c/ (thousands of unshared DFA states each); every result "
            "compared, match details included, with a scanner compiled for that scan alone; two sequences out of "
            "three read all their inputs from ONE buffer overwritten in place (same address), with a family of "
            "equal-length inputs for regexes with a repetition left of the atom (/a.*bcd.z/ ...).  nest: a callback-API "
            "scan whose k-th / every RuleMatch callback runs, on the same thread, a scan of another input of the "
            "same size (list or callback API, optionally one level deeper) on the same scanner / a clone / another "
            "scanner; hash.* over identical ranges, counts, pe/elf/macho values read after the callback.  script: a scanner and clones with their own ScanParams (300-400 ms "
            "timeout vs none), set_scan_params between scans, list / callback / aborting-callback scans, early returns "
            "(first pass, all namespaces disabled, abort), a wait longer than the timeout, then hash-using rules on "
            "timeout-free scanners of the same thread; or a compiler-given logger that panics at its k-th call.  conc "
            "cases always evaluate console.log/console.hex in conditions, one in four with a 3-10 ms logger.  Non-trivial: hist with a clone and a "
            "state-changing operation; hash with a repeated range; conc with >= 2 threads; seq with >= 2 different inputs; nest where an inner scan really ran; script with >= 2 scans; distinct by content.")
    TRUSTED = ["Coq 8.16.1 kernel + vm_compute",
               "translators/static_state.py + static_state_reviewed.json (text-level inventory of static / thread_local "
               "/ interior-mutable state of boreal/src and boreal-parser/src; the reviewed list is a human judgement)",
               "harness/src/bin/c13.rs (runs the real Scanner API; probe scans, tagged console callbacks, thread "
               "scope with barrier and seeded yields)",
               "vlib/props/c13.py (decodes console messages / rule verdicts of the probe scan into the observation "
               "record, prints cases as Gallina terms; expected verdicts of conc cases from python `in`, re, hashlib)",
               "probe_model in Model/ScannerStateCase.v (what a probe scan shows for a scanner state: "
               "min(occurrences, string_max_nb_matches) matches of min(8, match_max_length) bytes under "
               "compute_full_matches, listing of a false rule iff include_not_matched_rules, pe.is_signed only "
               "without process_memory)",
               "Model/HashMod.v digests (C16): md5/sha1/sha256 reference functions, table CRC-32"]
    ASSUMPTIONS = [
        "PROOF level (Properties/C13.v): clone isolation over all histories, typing and visibility of define_symbol, "
        "transparency and per-scan lifetime of the hash cache, schedule independence of a small-step system with "
        "private per-scan state — the last under the explicit premise `pool_content_irrelevant` (what a step returns does "
        "not depend on the content of the shared cache pools: regex-automata's contract for `Cache`, not proved)",
        "EXPLORATION level (conc cases): that the real scan has no other shared mutable state than those pools, and "
        "what the OS scheduler does, is only sampled: 1-16 threads with yields; a data race that needs a specific "
        "preemption point inside regex-automata or inside a module is not forced",
        "history independence of the real scan (seq cases) is exploration too: the reference is a scanner compiled "
        "for the one scan; state hidden in the shared Inner or in pooled caches that needs another trigger than "
        "undecided no-scan passes or cache thrashing is not forced",
        "a scan is an abstract function of (inner, params, symbol values, module data, input) in the isolation "
        "theorems; that Scanner::scan_* passes exactly those four fields is read off scanner/mod.rs and checked by "
        "the hist cases",
        "module user data values are opaque and immutable (behind Arc); a user type with interior mutability is "
        "outside the property",
    ]

    def translators(self, ctx):
        # the inventory of static / thread_local / interior-mutable state of /repo must be the reviewed one
        from translators import static_state
        return static_state.run(core.REPO, core.VERIF)

    # ================================================================ generation: hist
    def gen_value(self, rng, kind):
        if kind == "int":
            return rng.choice([0, 1, -1, 5, 7, -7, 42, 255, 256, 1 << 31, -(1 << 31), I64_MAX, I64_MIN,
                               rng.range(0, 2000) - 1000, rng.range(0, 1 << 40)])
        if kind == "bool":
            return rng.chance(1, 2)
        if kind == "float":
            return (rng.range(0, 160) - 80) / 4.0
        n = rng.choice([0, 1, 2, 3, 4, 6])
        if rng.chance(1, 3):
            return bytes(rng.choice([0, 9, 10, 13, 34, 39, 92, 127, 128, 255, 97, 98]) for _ in range(n)).hex()
        return rng.bytes(n, b"abxyz01 ").hex()

    def gen_params(self, rng):
        p = {}
        if rng.chance(3, 4):
            p["compute_full_matches"] = rng.chance(2, 3)
        if rng.chance(2, 3):
            p["match_max_length"] = rng.choice([1, 2, 3, 7, 8, 9, 100, 512])
        if rng.chance(2, 3):
            p["string_max_nb_matches"] = rng.choice([1, 2, 3, 4, 5, 1000])
        if rng.chance(1, 2):
            p["include_not_matched"] = rng.chance(1, 2)
        if rng.chance(1, 4):
            p["process_memory"] = rng.chance(1, 2)
        if rng.chance(1, 4):
            p["max_fetched_region_size"] = rng.choice([1, 4096, 1 << 20, 1073741824])
        if rng.chance(1, 4):
            p["memory_chunk_size"] = rng.choice([1, 100, 4096, 1 << 20])
        if rng.chance(1, 3):
            p["events"] = rng.below(32)
        if rng.chance(1, 4):
            p["mode"] = rng.choice(["legacy", "fast", "single_pass"])
        return p

    def probe_input(self, rng, nocc):
        out = bytearray()
        for _ in range(nocc):
            out += rng.bytes(rng.range(0, 6), FILLER) + NEEDLE
        out += rng.bytes(rng.range(0, 6), FILLER)
        return bytes(out)

    def gen_hist(self, rng):
        kinds = ["int", "bytes", "bool", "float"]
        nsym = rng.range(2, 6)
        syms = []
        counts = {"int": 0, "bytes": 0, "bool": 0, "float": 0}
        for i in range(nsym):
            k = kinds[i] if i < 4 and rng.chance(3, 4) else rng.choice(kinds)
            name = {"int": "i", "bytes": "s", "bool": "b", "float": "f"}[k] + str(counts[k])
            counts[k] += 1
            v = self.gen_value(rng, k)
            syms.append({"name": name, k: v})
        syms = rng.shuffle(syms)
        with_pe = rng.chance(1, 3)
        lines = ['import "console"'] + (['import "pe"'] if with_pe else [])
        for s in syms:
            kind, _ = sym_value(s)
            n = s["name"]
            if kind == "bool":
                lines.append("rule p_%s { condition: %s }" % (n, n))
            else:
                lines.append('rule p_%s { condition: console.log("%s=", %s) }' % (n, n, n))
        lines.append('rule p_tag { condition: console.log("tag=") }')     # shows which callback gets the messages
        lines.append('rule q { strings: $a = "%s" condition: $a }' % NEEDLE.decode())
        lines.append("rule never { condition: false }")
        if with_pe:
            lines.append("rule pes { condition: pe.is_signed == 1 }")
        nprobe = rng.range(2, 5)
        ops, nclones = [], 1
        for _ in range(rng.range(6, 16)):
            r = rng.below(100)
            c = rng.below(nclones) if not rng.chance(1, 25) else nclones      # rarely an id that does not exist
            if r < 22 and nclones < 5:
                frm = rng.below(nclones) if not rng.chance(1, 25) else nclones
                ops.append({"op": "clone", "from": frm})
                if frm < nclones:
                    nclones += 1
            elif r < 55:
                which = rng.below(10)
                if which < 7:
                    s = rng.choice(syms)
                    kind, _ = sym_value(s)
                    k2 = kind if rng.chance(2, 3) else rng.choice([k for k in kinds if k != kind])
                    ops.append({"op": "define", "c": c, "name": s["name"], k2: self.gen_value(rng, k2)})
                else:
                    base = rng.choice(syms)["name"]
                    name = rng.choice(["zz", base.upper(), base + "0", base[:1], "_" + base, "filesize_"])
                    if any(s["name"] == name for s in syms):
                        name = "zz"
                    k2 = rng.choice(kinds)
                    ops.append({"op": "define", "c": c, "name": name, k2: self.gen_value(rng, k2)})
            elif r < 72:
                ops.append({"op": "params", "c": c, "params": self.gen_params(rng)})
            elif r < 86:
                if with_pe and rng.chance(1, 2):
                    ops.append({"op": "mdata", "c": c, "module": "pe", "is_signed": rng.choice([None, False, True, True])})
                else:
                    ops.append({"op": "mdata", "c": c, "module": "console", "tag": rng.range(1, 9)})
            else:
                k = rng.below(6)
                ops.append({"op": "scan", "c": c, "input": self.probe_input(rng, k).hex(), "nocc": k})
        case = {"kind": "hist", "rules": [{"ns": None, "src": "\n".join(lines)}], "csymbols": syms,
                "probe": self.probe_input(rng, nprobe).hex(), "nprobe": nprobe, "ops": ops}
        if with_pe:
            case["probe_pe"] = PE_PROBE
        return case

    # ================================================================ generation: hash
    def gen_hash(self, rng):
        ln = rng.range(8, 40)
        ninputs = rng.range(2, 3)
        inputs = []
        for _ in range(ninputs):
            inputs.append(rng.bytes(ln, b"abcdefghijklmnopqrstuvwxyz0123456789"))
        if rng.chance(1, 3):
            inputs[-1] = inputs[0]      # the same input twice: repeatability
        calls = []
        ranges = []
        for _ in range(rng.range(3, 8)):
            alg = rng.choice(["md5", "md5", "sha1", "sha256", "sha256", "checksum32", "crc32"])
            r = rng.below(12)
            if ranges and r < 4:
                o, n = rng.choice(ranges)                     # a range already used: cache hit (or other algorithm)
            elif r < 8:
                o = rng.below(ln)
                n = rng.range(0, ln - o)
            elif r == 8:
                o, n = rng.below(ln), ln + rng.range(1, 50)   # clamped at the end of the input
            elif r == 9:
                o, n = ln + rng.below(3), rng.range(0, 4)     # starts at / after the end: undefined
            elif r == 10:
                o, n = rng.choice([(-1, 3), (0, -1), (I64_MAX, 1), (I64_MAX, I64_MAX)])
            else:
                calls.append({"alg": alg, "str": rng.bytes(rng.range(0, 5), b"abc").decode()})
                continue
            ranges.append((o, n))
            calls.append({"alg": alg, "o": o, "n": n})
        lines = ['import "console"', 'import "hash"']
        for k, c in enumerate(calls):
            arg = '"%s"' % c["str"] if "str" in c else "%d, %d" % (c["o"], c["n"])
            lines.append('rule h%d { condition: console.log("%d=", hash.%s(%s)) }' % (k, k, c["alg"], arg))
        lines.append('rule h_end { condition: console.log("end") }')
        return {"kind": "hash", "rules": [{"ns": None, "src": "\n".join(lines)}], "calls": calls,
                "inputs": [b.hex() for b in inputs], "threads": rng.range(2, 6), "rounds": rng.range(2, 3)}

    # ================================================================ generation: conc
    def gen_conc(self, rng):
        mode = rng.choice(["shared", "clones"])
        threads = rng.choice([1, 2, 4, 8, 16])
        njobs = rng.range(3, 12)
        slow_console = rng.chance(1, 4)
        if slow_console:
            threads = rng.choice([2, 3, 4, 8])
            njobs = rng.range(max(3, threads), max(4, threads + 2))
        alphabet = b"abcdefghij0123456789 xyz"
        needles = [b"needle%d" % i for i in range(3)] + [b"QzX"]
        with_modules = rng.chance(1, 4)
        # inputs
        jobs = []
        for j in range(njobs):
            if with_modules and rng.chance(1, 2):
                jobs.append({"file": rng.choice(MODULE_FILES)})
                continue
            body = bytearray(rng.bytes(rng.range(60, 500), alphabet))
            for nd in needles:
                for _ in range(rng.choice([0, 0, 1, 1, 2, 3])):
                    pos = rng.below(len(body) + 1)
                    v = nd
                    if rng.chance(1, 4):
                        v = nd.upper()
                    body[pos:pos] = v
            for _ in range(rng.below(3)):
                pos = rng.below(len(body) + 1)
                body[pos:pos] = b"ab" + rng.bytes(rng.range(1, 6), b"0123456789") + b"cd"
            if rng.chance(1, 3):
                pos = rng.below(len(body) + 1)
                body[pos:pos] = "needle0".encode("utf-16-le")
            # wide regexes with word boundaries (the hand-stepped wide DFA walk): "abc<digits>" in UTF-16 followed by
            # a wide non-word character (match), by a wide letter (no boundary) or preceded by a wide character
            for _ in range(rng.choice([0, 1, 1, 2, 3])):
                pos = rng.below(len(body) + 1)
                digits = rng.bytes(rng.range(1, 4), b"0123456789").decode()
                kind = rng.below(4)
                if kind <= 1:
                    v = ("abc" + digits + " ").encode("utf-16-le")
                elif kind == 2:
                    v = ("abc" + digits + "q").encode("utf-16-le") + b"##"
                else:
                    v = ("zabc" + digits + ".").encode("utf-16-le")
                body[pos:pos] = b"##" + v
            for _ in range(rng.below(3)):
                pos = rng.below(len(body) + 1)
                body[pos:pos] = rng.choice([b" needle2 ", b"7needle2", b"12needle2 ", b".needle2x", b" NEEDLE1 ",
                                            "needle1 ".encode("utf-16-le"), "needle0x".encode("utf-16-le"),
                                            "QZX ".encode("utf-16-le"), b"abcneedle0123", b"needle1 abc 7x"])
            jobs.append({"input": bytes(body).hex()})
        if rng.chance(1, 3) and njobs >= 2:
            jobs[-1] = dict(jobs[0])            # the same input twice
        datas = [bytes.fromhex(j["input"]) if "input" in j else open(j["file"], "rb").read() for j in jobs]
        # rules with expectations: name -> function(data, syms) -> bool
        lines = ['import "hash"'] + (['import "pe"', 'import "elf"', 'import "macho"'] if with_modules else [])
        expect = {}
        lines.append('rule t0 { strings: $a = "needle0" condition: $a }')
        expect["t0"] = ("in", b"needle0".hex())
        lines.append('rule t1 { strings: $a = "needle1" nocase condition: $a }')
        expect["t1"] = ("in_nocase", b"needle1".hex())
        lines.append('rule t2 { strings: $a = "needle0" wide condition: $a }')
        expect["t2"] = ("in", "needle0".encode("utf-16-le").hex())
        lines.append('rule c0 { strings: $a = "QzX" condition: #a == 2 }')
        expect["c0"] = ("count", b"QzX".hex(), 2)
        lines.append('rule r0 { strings: $r = /ab[0-9]{2,5}cd/ condition: $r }')
        expect["r0"] = ("re", "ab[0-9]{2,5}cd")
        lines.append('rule r1 { strings: $r = /needle[12]x?/ nocase condition: $r }')
        expect["r1"] = ("re_nocase", "needle[12]x?")
        lines.append('rule r2 { strings: $r = /[a-j]{3}[0-9]{3,}[a-j]/ condition: #r > 1 }')
        lines.append('rule r3 { strings: $r = /(needle2|QZX)[^n]{1,20}needle/ condition: $r }')
        expect["r3"] = ("re", "(needle2|QZX)[^n]{1,20}needle")
        # wide + word boundaries: the custom wide DFA walk of the validators (matcher/validator/dfa.rs)
        lines.append('rule w0 { strings: $r = /abc[0-9]+\\b/ wide condition: $r }')
        expect["w0"] = ("re_pos", "a\\x00b\\x00c\\x00([0-9]\\x00)+[ .]\\x00")   # sufficient, not necessary
        lines.append('rule w1 { strings: $r = /needle0\\B/ wide ascii condition: $r }')
        lines.append('rule w2 { strings: $r = /\\bQzX\\b/ wide nocase condition: #r >= 1 }')
        lines.append('rule w3 { strings: $r = /\\Babc[0-9]{1,3}\\b/ wide condition: #r > 0 }')
        # greedy / non-greedy atomized regexes: reverse and forward validators around the atom
        lines.append('rule g0 { strings: $r = /[a-j]+needle0[0-9]*/ condition: $r }')
        expect["g0"] = ("re", "[a-j]+needle0[0-9]*")
        lines.append('rule g1 { strings: $r = /needle1.{1,12}?[0-9]x/ condition: $r }')
        expect["g1"] = ("re", "needle1.{1,12}?[0-9]x")
        lines.append('rule g2 { strings: $r = /[0-9]{2}needle2/ fullword condition: $r }')
        lines.append('rule g3 { strings: $r = /(abc|needle2)[0-9 ]+?needle/ nocase condition: #r > 0 }')
        # fullword / nocase / wide+ascii text strings
        lines.append('rule f0 { strings: $a = "needle2" fullword condition: $a }')
        expect["f0"] = ("re", "(?<![A-Za-z0-9])needle2(?![A-Za-z0-9])")
        lines.append('rule f1 { strings: $a = "needle1" nocase fullword wide ascii condition: $a }')
        # regexes in conditions (`matches`): meta::Regex with its own cache pool
        lines.append('rule mt { condition: ext_s matches /^x*ab/ or ext_s matches /BA$/i }')
        expect["mt"] = ("matches",)
        lines.append('rule ref0 { condition: t0 and not t1 }')
        lines.append('private rule pv { strings: $a = "needle2" condition: $a }')
        lines.append('rule ref1 { condition: pv or c0 }')
        lines.append('rule fs { condition: filesize == %d }' % len(datas[rng.below(njobs)]))
        # hash rules planted from the inputs of particular jobs
        for k in range(rng.range(1, 3)):
            src = rng.below(njobs)
            d = datas[src]
            o = rng.below(min(len(d), 64))
            n = rng.range(0, min(64, len(d) - o))
            alg = rng.choice(["md5", "sha1", "sha256"])
            hx = getattr(hashlib, alg)(d[o:o + n]).hexdigest()
            lines.append('rule h%d { condition: hash.%s(%d, %d) == "%s" }' % (k, alg, o, n, hx))
            expect["h%d" % k] = ("hash", alg, o, n, hx)
            if rng.chance(1, 2):
                # the same range under another algorithm / twice in one condition: cache traffic
                lines.append('rule hh%d { condition: hash.%s(%d, %d) == hash.%s(%d, %d) and hash.crc32(%d, %d) >= 0 }'
                             % (k, alg, o, n, alg, o, n, o, n))
        if with_modules:
            lines.append("rule m0 { condition: pe.number_of_sections > 2 }")
            lines.append("rule m1 { condition: elf.type == elf.ET_EXEC or elf.number_of_sections > 5 }")
            lines.append("rule m2 { condition: pe.is_dll() or macho.filetype == 2 }")
            lines.append("rule m3 { condition: for any i in (0..pe.number_of_sections - 1): (pe.sections[i].name == \".text\") }")
        # console.log / console.hex in conditions: their value (1) must not depend on what other scans are doing
        lines.insert(0, 'import "console"')
        lines.append('rule cl0 { condition: console.log("job") and filesize >= 0 }')
        expect["cl0"] = ("true",)
        lines.append('rule cl1 { strings: $a = "needle0" condition: console.hex("n=", #a) and $a }')
        expect["cl1"] = ("in", b"needle0".hex())
        lines.append('rule cl2 { condition: console.log("i=", ext_i) and console.log("s=", ext_s) }')
        expect["cl2"] = ("true",)
        # external symbols
        csyms = [{"name": "ext_i", "int": 0}, {"name": "ext_s", "bytes": b"".hex()}, {"name": "ext_b", "bool": False}]
        lines.append('rule e0 { condition: ext_i == 5 and ext_s contains "ab" and ext_b }')
        expect["e0"] = ("ext",)
        lines.append('rule e1 { strings: $a = "needle1" condition: #a > ext_i }')
        # strings that occur many times: with a low string_max_nb_matches each reaches its limit early in the scan
        lines.append('rule lim { strings: $a = "a" $d = /[0-9]/ $s = " " $n = "needle" nocase condition: any of them }')

        def gen_syms():
            return [{"name": "ext_i", "int": rng.choice([0, 1, 5, 5, -3])},
                    {"name": "ext_s", "bytes": rng.choice([b"", b"ab", b"xxabyy", b"ba"]).hex()},
                    {"name": "ext_b", "bool": rng.chance(2, 3)}]

        def gen_p():
            p = {"compute_full_matches": rng.chance(1, 2), "include_not_matched": rng.chance(1, 3)}
            if rng.chance(1, 2):
                p["match_max_length"] = rng.choice([1, 4, 512])
            if rng.chance(1, 2):
                p["string_max_nb_matches"] = rng.choice([1, 2, 1000])
            return p

        base_params, base_symbols = gen_p(), gen_syms()
        # half of the cases: StringReachedMatchLimit events enabled with a low limit (the events, their order and
        # their number are part of the result of a callback scan)
        limits = rng.chance(1, 2)
        for j in jobs:
            j["api"] = rng.choice(["list", "callback", "callback", "callback", "frag"] if limits
                                  else ["list", "list", "callback", "frag"])
            if j["api"] == "frag":
                j["piece"] = rng.choice([37, 64, 100, 256, 4096])
            if mode == "clones":
                j["params"] = gen_p()
                j["symbols"] = gen_syms()
            if j["api"] == "callback":
                ev = rng.choice([1, 3, 5, 7])
                tgt = j.get("params") or base_params
                tgt["events"] = ev
                if limits:
                    tgt["events"] = ev | 16
                    tgt["string_max_nb_matches"] = rng.choice([1, 2, 3, 5])
        if mode == "shared" and any(j["api"] == "callback" for j in jobs):
            base_params["events"] = rng.choice([1, 3, 7]) | (16 if limits else 0)
        case = {"kind": "conc", "rules": [{"ns": None, "src": "\n".join(lines)}], "csymbols": csyms, "jobs": jobs,
                "threads": threads, "mode": mode, "assign": [rng.below(threads) for _ in jobs],
                "seed": rng.next() >> 12, "rounds": rng.range(1, 3), "base_params": base_params,
                "base_symbols": base_symbols, "expect": expect}
        if slow_console:
            # a slow logger: the scans of the different threads are inside the console callback at the same time
            case["console_sleep_us"] = rng.choice([3000, 6000, 10000])
            case["assign"] = [j % threads for j in range(len(jobs))]
            case["rounds"] = rng.range(1, 2)
        return case

    # ================================================================ generation: seq
    def gen_seq(self, rng, thrash):
        """sequences of different inputs on one scanner; reference = a scanner compiled for that one scan"""
        if thrash == "early_exit":
            # scans that leave do_scan after the string scan but before every rule is evaluated (a global rule that
            # needs its string and is false), on inputs WITH matches, followed by inputs without them
            lines = ['global rule g { strings: $g = "good" condition: $g }',
                     'rule a { strings: $a = "malware" condition: $a }',
                     'rule b { strings: $b = /evil[0-9]+/ condition: #b == 1 }',
                     'rule c { strings: $c = "xx" $d = "yy" condition: #c >= 1 or $d }']
            parts = [b"malware", b"evil123", b"evil7", b"xx", b"yy", b"filler", b"0123"]
            def mk(good):
                ws = [rng.choice(parts) for _ in range(rng.range(0, 5))] + ([b"good"] if good else [])
                return b" ".join(rng.shuffle(ws)) or b"-"
            inputs = [mk(False), b"this one is good", mk(True), mk(False), mk(True)][:rng.range(3, 5)]
            inputs[0] = b"xx malware evil123 xx"
            order = [0, 1, 1] + [rng.below(len(inputs)) for _ in range(rng.range(3, 9))]
            case = {"kind": "seq", "family": "early_exit", "rules": [{"ns": None, "src": "\n".join(lines)}],
                    "inputs": [b.hex() for b in inputs], "order": order, "reuse_buffer": rng.chance(1, 2)}
            if rng.chance(1, 3):
                case["params"] = {"compute_full_matches": rng.chance(1, 2), "include_not_matched": rng.chance(1, 2)}
            return case
        if thrash == "entrypoint":
            # `entrypoint` parses the headers of the scanned buffer: small ELF files of one length with different
            # entry points (and non-executables), read one after the other into ONE buffer
            LEN = rng.choice([256, 512, 600])
            def elf(ep, marker):
                import struct
                base = 0x400000
                f = bytes([0x7f, 0x45, 0x4c, 0x46, 2, 1, 1, 0]) + bytes(8)
                f += struct.pack("<HHIQQQIHHHHHH", 2, 0x3e, 1, base + ep, 64, 0, 0, 64, 56, 1, 64, 0, 0)
                f += struct.pack("<IIQQQQQQ", 1, 5, 0, base, base, LEN, LEN, 0x1000)
                f = bytearray(f.ljust(LEN, b"\0"))
                f[marker:marker + 5] = b"ENTRY"
                return bytes(f)
            def plain(marker):
                f = bytearray(b"." * LEN)
                f[marker:marker + 5] = b"ENTRY"
                return bytes(f)
            eps = [rng.range(0x80, LEN - 8) for _ in range(3)]
            inputs = []
            for _ in range(rng.range(3, 6)):
                k = rng.below(4)
                if k == 0:
                    inputs.append(plain(rng.choice(eps)))
                else:
                    ep = rng.choice(eps)
                    inputs.append(elf(ep, ep if rng.chance(2, 3) else rng.choice(eps)))
            lines = ['rule marker_at_entrypoint { strings: $a = "ENTRY" condition: $a at entrypoint }',
                     "rule has_entrypoint { condition: defined entrypoint }"]
            lines += ["rule ep%d { condition: entrypoint == %d }" % (i, e) for i, e in enumerate(sorted(set(eps)))]
            lines.append('rule near { strings: $a = "ENTRY" condition: $a in (entrypoint - 4 .. entrypoint + 4) }')
            order = [rng.below(len(inputs)) for _ in range(rng.range(6, 12))]
            case = {"kind": "seq", "family": "entrypoint", "rules": [{"ns": None, "src": "\n".join(lines)}],
                    "inputs": [b.hex() for b in inputs], "order": order, "reuse_buffer": True}
            if rng.chance(1, 4):
                case["params"] = {"process_memory": True}
            return case
        if thrash == "buffer":
            # ONE read buffer overwritten in place: same address (and mostly same length), different bytes; regexes
            # with a repetition left of the atom (reverse search to the start, then forward validation from it)
            specs = [("a", b"-.:", "bcd", "-z", "-y", "/a.*bcd.z/", 3), ("x", b"0123456789", "needle", "-k", "-j", "/x[0-9]*needle.k/", 1),
                     ("q", b"- 0123", "mark", "7y", "7w", "/q.+mark[0-9]y/", 2), ("a", b"-.:", "bcd", "-z", "-y", "/a.*?bcd.z/", 3)]
            lines = ["rule b%d { strings: $r = %s condition: $r }" % (i, sp[5]) for i, sp in enumerate(specs)]
            head, mid_alpha, atom, ok, bad, _, maxocc = rng.choice(specs)
            nocc = rng.range(1, maxocc)
            lens = [rng.range(0, 6)] + [rng.range(1 if head == "q" else 0, 8)] + [rng.range(0, 6) for _ in range(nocc)]
            inputs = []
            for _ in range(rng.range(3, 6)):
                b = bytearray(rng.bytes(lens[0], b"-_ "))
                b += (head.encode() if rng.chance(4, 5) else b"-")
                b += rng.bytes(lens[1], mid_alpha)
                for o in range(nocc):
                    b += atom.encode() + (ok if rng.chance(1, 2) else bad).encode()
                    b += rng.bytes(lens[2 + o], b"-_ " if o + 1 < nocc or head != "x" else b"-_ ")
                inputs.append(bytes(b))
            if rng.chance(1, 4):
                inputs.append(inputs[0] + b"--")            # same address, another length
            order = [rng.below(len(inputs)) for _ in range(rng.range(6, 14))]
            return {"kind": "seq", "family": "buffer", "rules": [{"ns": None, "src": "\n".join(lines)}],
                    "inputs": [b.hex() for b in inputs], "order": order, "reuse_buffer": True}
        if thrash:
            # state-hungry regexes: the lazy-DFA cache of the validator (shared through the pool, reused from scan
            # to scan) is filled and cleared many times by inputs that share no DFA state
            k = rng.choice([17, 18, 19])
            n = rng.choice([2800, 3200, 3500, 3800])        # a match longer than MAX_SPLIT_MATCH_LENGTH (4096) is not found
            ninputs = max(12, 120000 // n)
            lines = ["rule tail { strings: $r = /xy[ab]*a[ab]{%d}c/ condition: $r }" % k,
                     "rule small { condition: filesize < 100 }"]
            if rng.chance(1, 2):
                lines.append("rule tail2 { strings: $r = /y[ab]{2,}?b[ab]{%d}c/ condition: #r > 0 }" % (k - 3))
            inputs = [{"xs": rng.next() >> 12, "prefix": b"xy".hex(), "body": n + rng.below(200), "alphabet": b"ab".hex(),
                       "mid": b"a".hex(), "tail": k, "end": b"c".hex()} for _ in range(ninputs)]
            order = list(range(ninputs)) + [0, ninputs - 1]
            return {"kind": "seq", "family": "thrash", "rules": [{"ns": None, "src": "\n".join(lines)}],
                    "inputs": inputs, "order": order, "must_match": ["tail"], "reuse_buffer": rng.chance(1, 2)}
        # inputs decided without the string scan mixed with inputs that need it; default parameters mostly
        lines = ['rule s0 { strings: $a = "abc" condition: filesize < 5 or $a }',
                 'rule s1 { strings: $a = "marker" $b = /m[a-z]{2}ker[0-9]?/ condition: filesize > 40 and ($a or $b) }',
                 'rule s2 { strings: $a = "abc" condition: #a > 1 or filesize == 3 }',
                 'rule s3 { strings: $a = "xyz" condition: filesize < 10 or #a == 2 }',
                 'rule s4 { strings: $a = "abc" $b = "zzz" condition: $a at 0 or (filesize > 20 and $b) }',
                 'rule s5 { condition: filesize > 15 }',
                 'rule s6 { strings: $a = "abc" nocase condition: filesize < 8 or @a[1] > 3 }']
        # few rules: one rule that needs the strings makes the whole no-scan pass undecided
        keep = rng.choice([1, 1, 3, 6])
        lines = lines[:1] + [l for l in lines[1:] if rng.chance(keep, 6)]
        # small inputs: decided by filesize alone, but holding strings that a full scan would report
        small = [b"abc", b"abc", b"abcd", b"xabc", b"xyzabc", b"ABC", b"abcabc", b"xyzxyz", b"ab", b"", b"zzz"]
        inputs = []
        for _ in range(rng.range(3, 7)):
            if rng.chance(1, 2):
                inputs.append(rng.choice(small))
            else:
                body = bytearray(rng.bytes(rng.range(10, 80), b"0123456789 defgh"))
                for _ in range(rng.below(4)):
                    pos = rng.below(len(body) + 1)
                    body[pos:pos] = rng.choice([b"abc", b"marker", b"marker7", b"zzz", b"xyz", b"ABC", b"mooker"])
                if rng.chance(1, 3):
                    body[0:0] = b"abc"
                inputs.append(bytes(body))
        inputs[0] = rng.choice(small[:8])                   # at least one of each sort
        inputs[1] = b"0123456789 abc 0123456789 abc" if rng.chance(1, 2) else inputs[1] + b" 0123456789 abc zzz"
        order = [0, 1, 0] + [rng.below(len(inputs)) for _ in range(rng.range(3, 12))]
        if rng.chance(1, 2):
            order = rng.shuffle(order)
        case = {"kind": "seq", "family": "noscan", "rules": [{"ns": None, "src": "\n".join(lines)}],
                "inputs": [b.hex() for b in inputs], "order": order, "reuse_buffer": rng.chance(1, 2)}
        if rng.chance(1, 4):
            case["params"] = {"compute_full_matches": rng.chance(1, 2), "include_not_matched": rng.chance(1, 2),
                              "string_max_nb_matches": rng.choice([1, 2, 1000])}
        return case

    # ================================================================ generation: nest
    def gen_nest(self, rng):
        """a scan started from inside the RuleMatch callback of another scan, same thread"""
        words = [b"outer", b"inner", b"content", b"alpha", b"beta", b"needle", b"zzz"]
        def mk(n):
            b = b"PAYLOAD " + b" ".join(rng.choice(words) for _ in range(3)) + b" "
            b += rng.bytes(max(0, n - len(b) - 8), b"abcdefghij 0123456789")
            if rng.chance(1, 2):
                b += b" PAYLOAD"
            return (b + b"." * n)[:n]
        assets = rng.chance(1, 5)
        if assets:
            fo, fi = rng.choice(MODULE_FILES), rng.choice(MODULE_FILES)
            outer, inner = {"file": fo}, {"file": fi}
            X, Y = open(fo, "rb").read(), open(fi, "rb").read()
        else:
            n = rng.range(30, 120)
            X = mk(n)
            Y = mk(n if rng.chance(4, 5) else n + rng.range(1, 9))
            if rng.chance(1, 8):
                Y = X
            outer, inner = {"input": X.hex()}, {"input": Y.hex()}
        h = lambda alg, d: getattr(hashlib, alg)(d).hexdigest()
        st = 'strings: $a = "PAYLOAD" condition: $a and ' if not assets else "condition: "
        lines = ['import "hash"'] + (['import "pe"', 'import "elf"', 'import "macho"'] if assets else [])
        lines.append('rule first { %shash.md5(0, filesize) == "%s" }' % (st, h("md5", X)))
        lines.append('rule inner { %shash.md5(0, filesize) == "%s" }' % (st, h("md5", Y)))
        lines.append('rule second { %shash.md5(0, filesize) == "%s" and hash.sha1(0, filesize) == "%s" }'
                     % (st, h("md5", X), h("sha1", X)))
        lines.append('rule third { %shash.sha256(3, 9) == "%s" and hash.sha256(3, 9) != "%s" }'
                     % (st, h("sha256", X[3:12]), h("sha256", b"?" + Y[3:12])))
        lines.append('rule fourth { %shash.sha1(0, filesize) == "%s" and hash.crc32(0, filesize) == %d }'
                     % (st, h("sha1", Y), __import__("zlib").crc32(Y)))
        lines.append('rule fsz { %sfilesize == %d }' % (st, len(X)))
        if assets:
            lines.append("rule m0 { condition: pe.number_of_sections > 2 }")
            lines.append("rule m1 { condition: elf.type == elf.ET_EXEC or elf.number_of_sections > 5 }")
            lines.append("rule m2 { condition: pe.is_dll() or macho.filetype == 2 }")
        else:
            lines.append('rule cnt { strings: $a = "PAYLOAD" condition: #a == 2 }')
            lines.append('rule rx { strings: $r = /PAY[A-Z]+ [a-z]+ / condition: $r and hash.md5(0, filesize) != "%s" }' % h("md5", Y))
        lines.append('rule last { %shash.md5(0, filesize) == "%s" }' % (st, h("md5", X)))
        lines2 = ['import "hash"',
                  'rule o1 { %shash.md5(0, filesize) == "%s" }' % (st, h("md5", Y)),
                  'rule o2 { %shash.sha1(0, filesize) == "%s" or hash.md5(0, filesize) == "%s" }' % (st, h("sha1", Y), h("md5", X)),
                  'rule o3 { %shash.sha256(3, 9) == "%s" }' % (st, h("sha256", Y[3:12]))]
        params = {"compute_full_matches": True if assets else rng.chance(1, 3), "events": rng.choice([1, 1, 3, 5])}
        if params["events"] & 2:
            params["include_not_matched"] = True
        api = rng.choice(["list", "callback"])
        return {"kind": "nest", "rules": [{"ns": None, "src": "\n".join(lines)}],
                "rules2": [{"ns": None, "src": "\n".join(lines2)}], "outer": outer, "inner": inner,
                "target": rng.choice(["same", "same", "clone", "other"]), "inner_api": api,
                "at": rng.choice([[1], [1], [], [2], [1, 3]]), "deeper": api == "callback" and rng.chance(1, 2),
                "params": params, "same_input": X == Y,
                "file_api": rng.chance(1, 2)}      # through scan_file / scan_file_with_callback (scratch files)

    # ================================================================ generation: script
    def gen_script(self, rng):
        """one thread, several scanners with their own parameters (timeouts), scans that return early, waits"""
        h = lambda alg, d: getattr(hashlib, alg)(d).hexdigest()
        inputs = [rng.bytes(rng.range(8, 60), b"abcdefgh 0123") for _ in range(rng.range(2, 4))]
        inputs.append(b"sevenby")                       # filesize == 7: the global rule is false, every namespace disabled
        family = rng.choice(["timeout", "timeout", "console_panic", "early_abort"])
        if family == "early_abort":
            # a callback that aborts at the first event of a scan whose strings matched, then other inputs on the same
            # scanner and on a clone
            lines = ['rule g { strings: $g = "good" condition: $g }',
                     'rule a { strings: $a = "malware" condition: $a }',
                     'rule b { strings: $b = /evil[0-9]+/ condition: #b == 1 }']
            inputs = [b"good xx malware evil123 xx", b"this one is good", b"nothing", b"evil9 good"]
            steps = [{"op": "clone", "from": "s", "to": "c"}]
            if rng.chance(1, 3):
                steps.append({"op": "params", "on": rng.choice(["s", "c"]), "params": {"compute_full_matches": True}})
            for _ in range(rng.range(2, 4)):
                steps.append({"op": "scan", "on": rng.choice(["s", "c"]), "input": rng.choice([0, 0, 3]), "api": "abort"})
                for _ in range(rng.range(1, 3)):
                    steps.append({"op": "scan", "on": rng.choice(["s", "c"]), "input": rng.choice([1, 1, 2, 3]),
                                  "api": rng.choice(["list", "callback"])})
            return {"kind": "script", "family": family, "rules": [{"ns": None, "src": "\n".join(lines)}],
                    "inputs": [b.hex() for b in inputs] + [b"sevenby".hex()], "steps": steps,
                    "must": [["g"], ["g"], [], ["g"], []]}
        with_strings = rng.chance(1, 3)
        lines = ['import "hash"', 'import "console"', "global rule g { condition: filesize != 7 }"]
        for k, d in enumerate(inputs):
            lines.append('rule h%d { condition: hash.md5(0, filesize) == "%s" and hash.sha256(0, filesize) == "%s" }'
                         % (k, h("md5", d), h("sha256", d)))
        lines.append('rule hp { condition: hash.sha1(1, 4) == "%s" or hash.sha1(1, 4) == "%s" }'
                     % (h("sha1", inputs[0][1:5]), h("sha1", inputs[1][1:5])))
        if with_strings:
            lines.append('rule st { strings: $a = "abc" condition: #a >= 0 and hash.md5(0, filesize) != "" }')
        if family == "console_panic":
            lines.append('rule c0 { condition: console.log("v=", filesize) and filesize > 0 }')
            lines.append('rule c1 { condition: console.hex("h=", filesize) }')
        T = rng.choice([300, 400])
        steps = []
        n = len(inputs)
        scan = lambda on, api=None: {"op": "scan", "on": on, "input": rng.below(n), "api": api or rng.choice(["list", "list", "callback", "abort"])}
        case = {"kind": "script", "family": family, "rules": [{"ns": None, "src": "\n".join(lines)}],
                "inputs": [b.hex() for b in inputs]}
        if family == "timeout":
            steps.append({"op": "clone", "from": "s", "to": "plain"})
            who = rng.choice(["s", "t"])
            if who == "t":
                steps.append({"op": "clone", "from": "s", "to": "t"})
            p = {"timeout_ms": T}
            if rng.chance(1, 3):
                p["compute_full_matches"] = True
            steps.append({"op": "params", "on": who, "params": p})
            for _ in range(rng.range(0, 3)):
                steps.append(scan(who))
            # the last scan under the timeout returns early: decided by the first evaluation pass (rules without
            # strings), every namespace disabled by the global rule, or aborted by the callback
            early = rng.choice(["disabled", "abort"] if (with_strings or p.get("compute_full_matches")) else ["first_pass", "first_pass", "disabled", "abort"])
            if early == "disabled":
                steps.append({"op": "scan", "on": who, "input": n - 1, "api": "list"})
            elif early == "abort":
                steps.append({"op": "scan", "on": who, "input": rng.below(n - 1), "api": "abort"})
            else:
                steps.append({"op": "scan", "on": who, "input": rng.below(n - 1), "api": "list"})
            if rng.chance(1, 3):
                steps.append({"op": "params", "on": who, "params": {}})                    # back to the defaults
            if rng.chance(4, 5):
                steps.append({"op": "sleep", "ms": T + 60})
            for _ in range(rng.range(2, 5)):
                steps.append(scan(rng.choice(["plain", "plain", who]), rng.choice(["list", "callback"])))
        else:
            k = rng.range(1, 4)
            case["console_panic_at"] = k
            steps.append({"op": "clone", "from": "s", "to": "c"})
            for _ in range(rng.range(4, 8)):
                steps.append(scan(rng.choice(["s", "c"]), rng.choice(["list", "callback"])))
        case["steps"] = steps
        case["must"] = [["h%d" % k] for k in range(n)]     # rule that must match when input k is scanned to its end
        return case

    # ================================================================ protocol
    def generate(self, ctx, rng, n):
        out = []
        for i in range(n):
            r = rng.fork("c%d" % i)
            k = i % 20
            if k < 10:
                out.append(self.gen_hist(r))
            elif k < 12:
                out.append(self.gen_hash(r))
            elif k < 15:
                out.append(self.gen_conc(r))
            elif k == 15:
                out.append(self.gen_script(r))
            elif k == 16:
                out.append(self.gen_nest(r))
            elif k == 17:
                out.append(self.gen_seq(r, False if i % 40 == 17 else "early_exit"))
            elif k == 18:
                out.append(self.gen_seq(r, "buffer" if i % 40 == 18 else "entrypoint"))
            elif i % 40 == 19:
                out.append(self.gen_seq(r, True))             # the cache-thrashing family is the expensive one
            else:
                out.append(self.gen_script(r))
        return out

    def budget(self, tier):
        return 300 if tier == "quick" else 4000

    def corpus(self, ctx):
        out = []
        d = os.path.join(core.VERIF, "corpus", "C13")
        if os.path.isdir(d):
            for f in sorted(os.listdir(d)):
                if f.endswith(".json"):
                    out.append(core.load_case_file(os.path.join(d, f))["case"])
        return out

    def execute(self, ctx, cases):
        # concurrency cases use up to 16 threads each: fewer harness processes at a time for those
        idx_conc = [i for i, c in enumerate(cases) if c["kind"] == "conc"]
        idx_other = [i for i, c in enumerate(cases) if c["kind"] != "conc"]
        outs = [None] * len(cases)
        strip = lambda c: {k: v for k, v in c.items() if k != "expect"}
        for idxs, shards in ((idx_other, core.NPROC), (idx_conc, 4)):
            res = core.harness_run(ctx.binp, "c13", [strip(cases[i]) for i in idxs], shards=shards)
            for i, r in zip(idxs, res):
                outs[i] = r
        for c in cases:
            ctx.count("kind=" + c["kind"])
            if c["kind"] == "hist":
                ctx.count("hist ops", len(c["ops"]))
                for o in c["ops"]:
                    ctx.count("hist op=" + o["op"])
            elif c["kind"] == "conc":
                ctx.count("conc threads=%d" % c["threads"])
                ctx.count("conc slow console=%s" % bool(c.get("console_sleep_us")))
                ctx.count("conc mode=" + c["mode"])
                ctx.count("conc jobs", len(c["jobs"]))
                for j in c["jobs"]:
                    ctx.count("conc api=" + j["api"])
            elif c["kind"] == "script":
                ctx.count("script family=" + c.get("family", "?"))
            elif c["kind"] == "nest":
                ctx.count("nest target=" + c["target"])
                ctx.count("nest file_api=%s" % bool(c.get("file_api")))
                ctx.count("nest inner api=" + c["inner_api"] + ("+deeper" if c.get("deeper") else ""))
            elif c["kind"] == "seq":
                ctx.count("seq reuse_buffer=%s" % bool(c.get("reuse_buffer")))
                ctx.count("seq family=" + c.get("family", "?"))
                ctx.count("seq scans", len(c["order"]))
            else:
                ctx.count("hash calls", len(c["calls"]))
        return outs

    # ---------------------------------------------------------------- hist: decoding observations
    def decode_scan(self, case, scan, getter_vec):
        """observation record from one probe scan (raises Bad when the scan output is not even well formed)"""
        if scan.get("error") is not None:
            raise Bad("scan error %r" % scan["error"])
        tags, kv = set(), {}
        for line in scan["logs"]:
            tag, _, msg = line.partition("|")
            tags.add(tag)
            k, _, v = msg.partition("=")
            if k in kv and kv[k] != v:
                raise Bad("two values logged for %s in one scan" % k)
            kv[k] = v
        if len(tags) > 1:
            raise Bad("messages of one scan went to two callbacks")
        console = None
        if tags:
            t = tags.pop()
            console = None if t == "d" else int(t)
        rules = {r["name"]: r for r in scan["rules"]}
        syms = []
        for s in case["csymbols"]:
            kind, _ = sym_value(s)
            n = s["name"]
            if kind == "bool":
                syms.append(("bool", bool(rules.get("p_" + n, {}).get("matched"))))
                continue
            if n not in kv:
                raise Bad("symbol %s not logged" % n)
            if kind == "int":
                syms.append(("int", int(kv[n])))
            elif kind == "float":
                syms.append(("float", float(kv[n])))
            else:
                syms.append(("bytes", unescape(kv[n])))
        fp = None
        if getter_vec[0] == 1:
            q = rules.get("q")
            if q is None or not q["strings"]:
                fp = (0, 0)
            else:
                st = q["strings"][0]
                lens = set(st["lens"])
                if len(lens) > 1:
                    raise Bad("match data of different lengths")
                fp = (st["n"], lens.pop() if lens else 0)
        nm = "never" in rules
        pe = bool(rules.get("pes", {}).get("matched"))
        return {"params": getter_vec, "fp": fp, "nm": nm, "syms": syms, "console": console, "pe": pe}

    def decode_logs(self, case, scan):
        """(console tag, logged symbol values) of one scan"""
        if scan.get("error") is not None:
            raise Bad("scan error %r" % scan["error"])
        tags, kv = set(), {}
        for line in scan["logs"]:
            tag, _, msg = line.partition("|")
            tags.add(tag)
            k, _, v = msg.partition("=")
            if k in kv and kv[k] != v:
                raise Bad("two values logged for %s in one scan" % k)
            kv[k] = v
        if len(tags) > 1:
            raise Bad("messages of one scan went to two callbacks")
        return (tags.pop() if tags else None), kv

    def check_other_apis(self, case, m, vec):
        """callback and fragmented entry points see the same symbols, module data and parameters"""
        ref = self.decode_logs(case, m["probe"])
        ref_rules = {r["name"] for r in m["probe"]["rules"] if r["matched"]}
        bools = {"p_" + s["name"] for s in case["csymbols"] if "bool" in s}
        for o in m.get("other", []):
            if self.decode_logs(case, o) != ref:
                raise Bad("api %s logged something else than scan_mem" % o["api"])
            if "rules" in o:
                got = {r["name"] for r in o["rules"] if r["matched"]}
                if got & bools != ref_rules & bools:
                    raise Bad("api %s: boolean symbols differ" % o["api"])
                if ("never" in {r["name"] for r in o["rules"]}) != (vec[3] == 1):
                    raise Bad("api %s: include_not_matched_rules not honoured" % o["api"])
            elif vec[7] & 1:       # RULE_MATCH events enabled
                if set(o["matched"]) & bools != ref_rules & bools:
                    raise Bad("api %s: boolean symbols differ" % o["api"])

    def decode_member(self, case, m):
        vec = params_vec(m["params"])
        if m["params"].get("timeout") is not None:
            raise Bad("timeout set")
        o = self.decode_scan(case, m["probe"], vec)
        self.check_other_apis(case, m, vec)
        if "probe_pe" in m:
            o2 = self.decode_scan(case, m["probe_pe"], vec)
            if (o2["syms"], o2["console"], o2["nm"]) != (o["syms"], o["console"], o["nm"]):
                raise Bad("the two probes of one scanner disagree")
            o["pe"] = o2["pe"]
        return o

    def term_hist(self, case, out):
        try:
            first = [self.decode_member(case, m) for m in out["first"]]
            steps = []
            for op, st in zip(case["ops"], out["steps"]):
                fam = [self.decode_member(case, m) for m in st["fam"]]
                o = st["out"]
                if o == "none":
                    co = "CNone"
                elif o == "unit":
                    co = "CUnit"
                elif "cloned" in o:
                    co = "CCloned %d%%nat" % o["cloned"]
                elif "define" in o:
                    co = "CDef " + {"ok": "DOk", "unknown_name": "DUnknownName", "invalid_type": "DInvalidType"}[o["define"]]
                else:
                    c = op["c"]
                    vec = fam[c]["params"] if c < len(fam) else params_vec({})
                    so = self.decode_scan(case, o["scan"], vec)
                    so["params"], so["pe"] = [], False
                    co = "CScan (%s)" % g_obs(so)
                steps.append(gpair(co, glist([g_obs(x) for x in fam])))
            if len(out["steps"]) != len(case["ops"]):
                raise Bad("steps missing")
        except (Bad, KeyError, ValueError, IndexError, TypeError, AssertionError, OverflowError):
            return (False, False, 0)
        csyms = glist([gpair(gstr(s["name"]) + "%string", g_extval(*sym_value(s))) for s in case["csymbols"]])
        ops = []
        for op in case["ops"]:
            k = op["op"]
            if k == "clone":
                ops.append("OClone %d%%nat" % op["from"])
            elif k == "define":
                kind, v = sym_value(op)
                ops.append("OLocal %d%%nat (LDefine %s%%string (%s))" % (op["c"], gstr(op["name"]), g_extval(kind, v)))
            elif k == "params":
                ops.append("OLocal %d%%nat (LSetParams %s)" % (op["c"], glist([gN(x) for x in params_vec(op["params"])])))
            elif k == "mdata":
                if op["module"] == "console":
                    ops.append("OLocal %d%%nat (LSetData 1 %d)" % (op["c"], op["tag"]))
                else:
                    ops.append("OLocal %d%%nat (LSetData 2 %d)" % (op["c"], {None: 0, False: 1, True: 2}[op["is_signed"]]))
            else:
                ops.append("OScan %d%%nat %d" % (op["c"], op["nocc"]))
        return "C13_hist_case %d %d %s %s %s %s %s" % (
            len(NEEDLE), case["nprobe"], csyms, glist([gN(x) for x in params_vec({})]), glist(ops),
            glist([g_obs(x) for x in first]), glist(steps))

    # ---------------------------------------------------------------- hash
    def decode_hash_logs(self, case, logs):
        """logs of one or several scans -> list of result lists (one per scan)"""
        scans, cur = [], {}
        for line in logs:
            msg = line.partition("|")[2] if "|" in line[:3] else line
            if msg == "end":
                scans.append(cur)
                cur = {}
                continue
            k, _, v = msg.partition("=")
            if k in cur:
                raise Bad("call logged twice in one scan")
            cur[k] = v
        if cur:
            raise Bad("scan without end marker")
        res = []
        for sc in scans:
            vals = []
            for k, c in enumerate(case["calls"]):
                v = sc.get(str(k))
                if v is None:
                    vals.append("RUndef")
                elif c["alg"] in ("checksum32", "crc32"):
                    vals.append("RInt %s" % gZ(int(v)))
                else:
                    vals.append("RBytes %s" % gbytes(v.encode()))
            res.append(glist(vals))
        return res

    def term_hash(self, case, out):
        try:
            seq = []
            for s in out["seq"]:
                r = self.decode_hash_logs(case, s["logs"])
                if len(r) != 1:
                    raise Bad("one scan expected")
                seq.append(gpair("%d%%nat" % s["input"], r[0]))
            par = []
            for p in out["par"]:
                r = self.decode_hash_logs(case, p["logs"])
                if len(r) != out["rounds"]:
                    raise Bad("a thread did not report all its scans")
                par.append(gpair("%d%%nat" % p["input"], glist(r)))
        except (Bad, KeyError, ValueError, TypeError):
            return (False, False, 0)
        algs = {"md5": "HMd5", "sha1": "HSha1", "sha256": "HSha256", "checksum32": "HChecksum32", "crc32": "HCrc32"}
        calls = []
        for c in case["calls"]:
            if "str" in c:
                calls.append(gpair(algs[c["alg"]], "[AStr %s]" % gbytes(c["str"].encode())))
            else:
                calls.append(gpair(algs[c["alg"]], "[AInt %s; AInt %s]" % (gZ(c["o"]), gZ(c["n"]))))
        return "C13_hash_case %s %s %s %s" % (glist(calls), glist([gbytes(bytes.fromhex(h)) for h in case["inputs"]]),
                                              glist(seq), glist(par))

    # ---------------------------------------------------------------- conc
    def expected(self, e, data, syms, job=None):
        """True / False, or None when nothing is known by construction"""
        k = e[0]
        if k == "true":
            return True
        if k == "re_pos":
            return True if re.search(e[1].encode(), data) else None
        if k == "matches":
            v = bytes.fromhex({s["name"]: s for s in syms}["ext_s"]["bytes"])
            return re.search(b"^x*ab", v) is not None or re.search(b"BA$", v, re.I) is not None
        if k == "in":
            return bytes.fromhex(e[1]) in data
        if k == "in_nocase":
            return bytes.fromhex(e[1]).lower() in data.lower()
        if k == "count":
            nd = bytes.fromhex(e[1])
            return sum(1 for i in range(len(data)) if data.startswith(nd, i)) == e[2]
        if k == "re":
            return re.search(e[1].encode(), data) is not None
        if k == "re_nocase":
            return re.search(e[1].encode(), data, re.I) is not None
        if k == "hash":
            _, alg, o, n, hx = e
            if o >= len(data):
                return False
            return getattr(hashlib, alg)(data[o:o + n]).hexdigest() == hx
        if k == "ext":
            d = {s["name"]: s for s in syms}
            return d["ext_i"]["int"] == 5 and b"ab" in bytes.fromhex(d["ext_s"]["bytes"]) and d["ext_b"]["bool"]
        raise ValueError(k)

    def verdicts(self, job, res):
        """set of rule names reported as matched, or None when the api does not list them"""
        if "rules" in res:
            return {r["name"] for r in res["rules"] if r["matched"]}
        return {e["rule"]["name"] for e in res["events"] if e["ev"] == "match"}

    def term_conc(self, case, out):
        try:
            oracle, par, again = out["oracle"], out["par"], out["again"]
            n = len(case["jobs"])
            if len(oracle) != n or len(par) != n or len(again) != n:
                return (False, False, 0)
            if any("panic" in r for j in range(n) for r in [oracle[j], again[j]] + list(par[j])):
                return (False, False, 0)
            same = all(again[j] == oracle[j] and len(par[j]) == case["rounds"] and all(r == oracle[j] for r in par[j])
                       for j in range(n))
            spec = same
            for j, job in enumerate(case["jobs"]):
                if job["api"] == "frag":
                    continue
                data = bytes.fromhex(job["input"]) if "input" in job else open(job["file"], "rb").read()
                syms = job.get("symbols") or case["base_symbols"]
                for res in [oracle[j], again[j]] + list(par[j]):
                    if res.get("error") is not None:
                        spec = False
                        continue
                    got = self.verdicts(job, res)
                    prm = job.get("params") or case["base_params"]
                    for name, e in case.get("expect", {}).items():
                        if e[0] == "count" and prm.get("string_max_nb_matches", 1000) < 1000:
                            continue      # the count saturates at the limit (C14)
                        want = self.expected(e, data, syms, job)
                        if want is not None and (name in got) != want:
                            spec = False
            return (same, spec, 0)
        except (KeyError, ValueError, TypeError, IndexError):
            return (False, False, 0)

    def term_seq(self, case, out):
        try:
            fresh = out["fresh"]
            n = len(case["inputs"])
            if len(fresh) != n or len(out["seq"]) != len(case["order"]):
                return (False, False, 0)
            ok = all("panic" not in f and f.get("error") is None for f in fresh)
            if case.get("reuse_buffer") and out.get("buffer_addresses") != 1:
                ok = False
            for name in case.get("must_match", []):
                ok = ok and all(any(r["name"] == name and r["matched"] for r in f["rules"]) for f in fresh)
            same = all(e["res"] == fresh[e["input"]] for e in out["seq"])
            for key in ("clone_before", "clone_after", "last"):
                same = same and len(out[key]) == n and all(out[key][i] == fresh[i] for i in range(n))
            return (ok and same, ok and same, 0)
        except (KeyError, ValueError, TypeError, IndexError):
            return (False, False, 0)

    def term_nest(self, case, out):
        try:
            fo, fi, fol = out["flat_outer"], out["flat_inner"], out["flat_outer_list"]
            no, ao, ai = out["nested_outer"], out["after_outer"], out["after_inner"]
            if any("panic" in x or x.get("error") is not None for x in (fo, fi, fol, no, ao, ai)):
                return (False, False, 0)
            strip = lambda r: {k: v for k, v in r.items() if k != "inner"}
            ok = no["events"] == fo["events"] and ao["events"] == fo["events"] and strip(ai) == strip(fi)
            for r in no["inner"]:
                if "panic" in r or strip(r) != strip(fi):
                    ok = False
                for d in r.get("inner", []):
                    if d != fol:
                        ok = False
            # by construction: the outer input satisfies `first`, `second`, `last`, never `inner` unless the inputs are equal
            got = [e["rule"]["name"] for e in no["events"] if e["ev"] == "match"]
            spec = ok and all(n in got for n in ("first", "second", "last")) and (("inner" in got) == case["same_input"])
            return (ok, spec, 0)
        except (KeyError, ValueError, TypeError, IndexError, AttributeError):
            return (False, False, 0)

    def term_script(self, case, out):
        try:
            refs, got = out["refs"], out["got"]
            scans = [st for st in case["steps"] if st["op"] == "scan"]
            if len(refs) != len(scans) or len(got) != len(scans):
                return (False, False, 0)
            corr = spec = True
            allowed_panics = 1 if case.get("console_panic_at") else 0
            for st, r, g in zip(scans, refs, got):
                if "panic" in r or "compile_error" in r:
                    return (False, False, 0)
                if "panic" in g:
                    if allowed_panics and g["panic"] == "c13: console callback panic":
                        allowed_panics -= 1          # the logger of the case panics once: that scan is lost, no other
                        continue
                    return (False, False, 0)
                if r.get("error") == "Timeout" or g.get("error") == "Timeout":
                    continue                         # a 300 ms timeout really reached on a loaded machine: inconclusive
                if g != r:
                    corr = spec = False
                # by construction: input k scanned to its end satisfies h<k> (nothing else hides it unless filesize == 7)
                if st.get("api", "list") != "abort" and st["input"] != len(case["inputs"]) - 1:
                    names = ({x["name"] for x in g.get("rules", []) if x["matched"]}
                             | {e["rule"]["name"] for e in g.get("events", []) if e["ev"] == "match"})
                    if not all(m in names for m in case["must"][st["input"]]):
                        spec = False
            return (corr, spec and corr, 0)
        except (KeyError, ValueError, TypeError, IndexError, AttributeError):
            return (False, False, 0)

    def term(self, ctx, case, out):
        if not isinstance(out, dict) or "panic" in out or "crash" in out or "compile_error" in out or "error" in out:
            return (False, False, 0)
        if case["kind"] == "hist":
            return self.term_hist(case, out)
        if case["kind"] == "hash":
            return self.term_hash(case, out)
        if case["kind"] == "seq":
            return self.term_seq(case, out)
        if case["kind"] == "nest":
            return self.term_nest(case, out)
        if case["kind"] == "script":
            return self.term_script(case, out)
        return self.term_conc(case, out)

    def nontrivial(self, case, out):
        k = case["kind"]
        if k == "hist":
            ops = case["ops"]
            if any(o["op"] == "clone" for o in ops) and any(o["op"] in ("define", "params", "mdata") for o in ops):
                return json.dumps([case["csymbols"], ops], sort_keys=True)
            return None
        if k == "script":
            if sum(1 for st in case["steps"] if st["op"] == "scan") >= 2:
                return json.dumps([case["rules"], case["inputs"], case["steps"]], sort_keys=True)
            return None
        if k == "nest":
            if isinstance(out, dict) and out.get("nested_outer", {}).get("inner"):
                return json.dumps([case["rules"], case["outer"], case["inner"], case["target"], case["inner_api"], case["at"]], sort_keys=True)
            return None
        if k == "seq":
            if len(set(case["order"])) >= 2:
                return json.dumps([case["rules"], case["inputs"], case["order"], case.get("params")], sort_keys=True)
            return None
        if k == "hash":
            rs = [(c["alg"], c.get("o"), c.get("n")) for c in case["calls"] if "o" in c]
            if len(set((o, n) for _, o, n in rs)) < len(rs):
                return json.dumps([case["calls"], case["inputs"]], sort_keys=True)
            return None
        if case["threads"] >= 2 and len(case["jobs"]) >= 2:
            return json.dumps([case["rules"], case["jobs"], case["threads"], case["mode"], case["assign"]], sort_keys=True)
        return None

    def sample(self, case, out):
        c = {k: v for k, v in case.items() if k not in ("expect",)}
        if case["kind"] == "conc":
            c["jobs"] = [{k: (v if k != "input" else v[:40] + "...") for k, v in j.items()} for j in case["jobs"][:4]]
            o = {"oracle_first": (out or {}).get("oracle", [None])[0]} if isinstance(out, dict) else out
        elif case["kind"] == "script":
            o = {"got_first": (out or {}).get("got", [None])[0]} if isinstance(out, dict) else out
        elif case["kind"] == "nest":
            o = {"nested_outer_events": [e.get("rule", {}).get("name") for e in (out or {}).get("nested_outer", {}).get("events", [])]} if isinstance(out, dict) else out
        elif case["kind"] == "seq":
            c["inputs"] = [(v if not isinstance(v, str) else v[:40] + "...") for v in case["inputs"][:4]]
            o = {"fresh_first": (out or {}).get("fresh", [None])[0]} if isinstance(out, dict) else out
        elif case["kind"] == "hist":
            o = {"last_step": (out or {}).get("steps", [None])[-1]} if isinstance(out, dict) and out.get("steps") else out
        else:
            o = {"seq_first": (out or {}).get("seq", [None])[0]} if isinstance(out, dict) else out
        return {"case": c, "impl": o}

    def extra_search(self, ctx, rng, around):
        return self.generate(ctx, rng, 200)


PROP = C13()
