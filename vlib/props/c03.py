# C03 — regex strings and the `matches` operator: same language as the written regex (DESIGN §7 C03).
import json, os
from .. import core
from ..core import gN, gbool, glist, gbytes, gopt, gpair
from ..runner import Prop
from . import _hir

LITS = [0x61, 0x62, 0x63, 0x41, 0x42, 0x78, 0x31, 0x5F, 0x20, 0x2D, 0x00, 0x0A, 0x2E, 0x58]
SAFE = set(b"abcdefghijklmnopqrstuvwxyzABCDEFGHIJKLMNOPQRSTUVWXYZ0123456789 _=%:;,<>~!@#&'")
SAFE_IN_CLASS = set(b"abcdefghijklmnopqrstuvwxyzABCDEFGHIJKLMNOPQRSTUVWXYZ0123456789_=%:;,<>~!@#&' ")
ESC_META = set(b".+*?()[]{}|^$\\-/")


# ------------------------------------------------------------------ printing the AST as a YARA regex
def re_byte(b, rng_bit=0, in_class=False):
    safe = SAFE_IN_CLASS if in_class else SAFE
    if b in safe:
        return chr(b)
    if b == 0x0A and rng_bit & 1:
        return "\\n"
    if b == 0x09 and rng_bit & 1:
        return "\\t"
    if b in ESC_META and rng_bit & 2 and b != 0x2F:
        return "\\" + chr(b)
    return "\\x%02x" % b


def re_perl(p):
    c = {"w": "w", "s": "s", "d": "d"}[p[1]]
    return "\\" + (c.upper() if p[2] else c)


def re_class(c):
    if c[0] == "perl":
        return re_perl(c)
    out = "[" + ("^" if c[2] else "")
    for it in c[1]:
        if it[0] == "perl":
            out += re_perl(it)
        elif it[0] == "lit":
            out += re_byte(it[1], it[2] if len(it) > 2 else 0, True)
        else:
            out += re_byte(it[1], 0, True) + "-" + re_byte(it[2], 0, True)
    return out + "]"


def re_kind(k, greedy):
    t = k[0]
    if t in "?*+":
        s = t
    elif t == "n":
        s = "{%d}" % k[1]
    elif t == "n,":
        s = "{%d,}" % k[1]
    elif t == "n,m":
        s = ("{,%d}" % k[2]) if (k[1] == 0 and len(k) > 3 and k[3]) else "{%d,%d}" % (k[1], k[2])
    return s + ("" if greedy else "?")


def re_text(n):
    t = n[0]
    if t == "alt":
        return "|".join(re_text(x) for x in n[1])
    if t == "cat":
        return "".join(re_text(x) for x in n[1])
    if t == "assert":
        return {"start": "^", "end": "$", "wb": "\\b", "nwb": "\\B"}[n[1]]
    if t == "class":
        return re_class(n[1])
    if t == "dot":
        return "."
    if t == "empty":
        return ""
    if t == "lit":
        return re_byte(n[1], n[2] if len(n) > 2 else 0)
    if t == "char":
        return n[2]
    if t == "group":
        return "(" + re_text(n[1]) + ")"
    if t == "rep":
        return re_text(n[1]) + re_kind(n[2], n[3])
    raise ValueError(t)


def g_node(n):
    t = n[0]
    if t == "alt":
        return "(NAlt %s)" % glist([g_node(x) for x in n[1]])
    if t == "cat":
        return "(NConcat %s)" % glist([g_node(x) for x in n[1]])
    if t == "assert":
        return "(NAssert %s)" % _hir.AK[n[1]]
    if t == "class":
        return "(NClass %s)" % _hir.g_cls(n[1])
    if t == "dot":
        return "NDot"
    if t == "empty":
        return "NEmpty"
    if t == "lit":
        return "(NLit %d)" % n[1]
    if t == "char":
        return "(NChar %s)" % gbytes(bytes(n[1]))
    if t == "group":
        return "(NGroup %s)" % g_node(n[1])
    if t == "rep":
        return "(NRep %s %s %s)" % (g_node(n[1]), _hir.g_rkind(n[2]), gbool(n[3]))
    raise ValueError(t)


# ------------------------------------------------------------------ sampling members
def is_word(b):
    return (48 <= b <= 57) or (65 <= b <= 90) or (97 <= b <= 122) or b == 95


def perl_mem(p, b):
    k = p[1]
    r = is_word(b) if k == "w" else (b in (9, 10, 11, 12, 13, 32)) if k == "s" else (48 <= b <= 57)
    return r != p[2]


def swapcase(b):
    if 65 <= b <= 90:
        return b + 32
    if 97 <= b <= 122:
        return b - 32
    return b


def cls_mem(c, b, nocase):
    if c[0] == "perl":
        return perl_mem(c, b)

    def item(it, x):
        if it[0] == "perl":
            return perl_mem(it, x)
        if it[0] == "lit":
            return it[1] == x
        return it[1] <= x <= it[2]
    r = any(item(it, b) or (nocase and item(it, swapcase(b))) for it in c[1])
    return r != c[2]


def sample(rng, n, nocase, dot_all, alphabet):
    t = n[0]
    if t == "alt":
        return sample(rng, rng.choice(n[1]), nocase, dot_all, alphabet)
    if t == "cat":
        return b"".join(sample(rng, x, nocase, dot_all, alphabet) for x in n[1])
    if t in ("assert", "empty"):
        return b""
    if t == "class":
        if rng.chance(1, 2):
            # boundary members: first / last byte of every range the class is made of, and their neighbours
            cands = [b for b in class_edges(n[1]) if cls_mem(n[1], b, nocase)]
            if cands:
                return bytes([rng.choice(cands)])
        for _ in range(12):
            b = rng.choice(alphabet) if rng.chance(3, 4) else rng.below(256)
            if cls_mem(n[1], b, nocase):
                return bytes([b])
        for b in range(256):
            if cls_mem(n[1], b, nocase):
                return bytes([b])
        return b""
    if t == "dot":
        b = rng.choice(alphabet)
        return bytes([b if (dot_all or b != 10) else 0x61])
    if t == "lit":
        b = n[1]
        return bytes([swapcase(b) if (nocase and rng.chance(1, 2)) else b])
    if t == "char":
        return bytes(n[1])
    if t == "group":
        return sample(rng, n[1], nocase, dot_all, alphabet)
    if t == "rep":
        k = n[2]
        lo = {"?": 0, "*": 0, "+": 1}.get(k[0], k[1] if len(k) > 1 else 0)
        hi = {"?": 1, "*": lo + 3, "+": lo + 3, "n": lo, "n,": lo + 3}.get(k[0], k[2] if len(k) > 2 else lo)
        cnt = rng.range(lo, min(hi, lo + 3))
        return b"".join(sample(rng, n[1], nocase, dot_all, alphabet) for _ in range(cnt))
    raise ValueError(t)


def widen(b):
    return b"".join(bytes([x, 0]) for x in b)


PERL_EDGES = {"d": [0x30, 0x39], "w": [0x30, 0x39, 0x41, 0x5A, 0x5F, 0x61, 0x7A], "s": [0x09, 0x0D, 0x20]}


def class_edges(c):
    """edges of a class: first and last byte of each range / perl class, plus the bytes just outside"""
    inner = []
    if c[0] == "perl":
        inner += PERL_EDGES[c[1]]
    else:
        for it in c[1]:
            if it[0] == "perl":
                inner += PERL_EDGES[it[1]]
            elif it[0] == "lit":
                inner.append(it[1])
            else:
                inner += [it[1], it[2]]
    out = set()
    for b in inner:
        for x in (b - 1, b, b + 1):
            if 0 <= x <= 255:
                out.add(x)
    return sorted(out)


def node_bytes(n, acc):
    t = n[0]
    if t in ("alt", "cat"):
        for x in n[1]:
            node_bytes(x, acc)
    elif t == "lit":
        acc.add(n[1])
    elif t in ("group", "rep"):
        node_bytes(n[1], acc)
    elif t == "class" and n[1][0] == "br":
        for it in n[1][1]:
            if it[0] == "lit":
                acc.add(it[1])
            elif it[0] == "range":
                acc.add(it[1])
                acc.add(it[2])
            elif it[0] == "perl" and not it[2]:
                acc.update(PERL_EDGES[it[1]][-2:])
    elif t == "class" and n[1][0] == "perl" and not n[1][2]:
        acc.update(PERL_EDGES[n[1][1]][-2:])
    return acc


def has_assert(n, kinds):
    t = n[0]
    if t == "assert":
        return n[1] in kinds
    if t in ("alt", "cat"):
        return any(has_assert(x, kinds) for x in n[1])
    if t in ("group", "rep"):
        return has_assert(n[1], kinds)
    return False


class C03(Prop):
    ID = "C03"
    LEVEL = "proof"
    COQ_TARGETS = ["theories/Properties/C03.vo"]
    MODEL_TARGETS = ["theories/Model/HexCase.vo"]
    CASE_HEADER = ("From Boreal Require Import Base.Prelude Spec.Regex Model.Hir Model.Widen Model.Validator "
                   "Model.Raw Model.HirScan Model.HexCase.")
    HARNESS_BINS = ("c03",)
    KF = {1: "C03-start-position", 2: "C03-fullword-single-length", 3: "C03-alt-glue", 4: "C03-wide-boundary-rev-context", 5: "C03-length-by-arrival"}
    RULE = ("regex ASTs of the property's dialect (literals incl. NUL, newline and escaped metacharacters, perl and "
            "bracketed classes incl. negated and ranges, dot, groups, alternation, ? * + {n} {n,} {n,m} {,m} greedy and "
            "lazy, ^ $ \\b \\B, rare non-ASCII characters), depth <= 3, non-nullable, printed to YARA syntax with every "
            "subset of /i /s nocase wide ascii fullword (no \\b under wide); per regex 4 inputs <= 64 bytes built from "
            "sampled members (case-flipped under nocase, widened under wide), near-members and noise from the regex' "
            "own bytes with word / non-word neighbours, and 4 subjects for `\"<bytes>\" matches /re/flags`.  Full "
            "(offset, length) lists with compute_full_matches and the rule verdicts are compared with the Coq model "
            "run on the implementation's own decomposition (hook) and with the language spec.  Non-trivial: at least "
            "one match and one non-matching start, or both verdicts among the subjects; distinct by (rule text, inputs).")
    TRUSTED = ["Coq 8.16.1 kernel + vm_compute", "harness/src/bin/c03.rs + hirdesc/mod.rs",
               "vlib/props/c03.py, _hir.py (print the regex AST to YARA text and to Gallina)",
               "hook Scanner::verif_describe_strings",
               "contracts: aho-corasick overlapping order; regex-automata anchored fwd leftmost-first / rev All / "
               "meta find / is_match"]
    ASSUMPTIONS = ["regex-automata implements leftmost-first on the printed HIR; the printer (regex_hir_to_string) and "
                   "regex-syntax's parser preserve the language: covered only by the comparison with Spec/Regex.v",
                   "wide strings with \\b / \\B (custom DFA walk, apply_wide_word_boundaries) are not generated"]

    def translators(self, ctx):
        from translators import consts
        return consts.run(core.REPO, core.VERIF)

    # ---------------------------------------------------------------- generation
    def gen_class(self, rng):
        if rng.chance(1, 25):
            # an empty class: can never match
            return rng.choice([["br", [["range", 0, 255]], True],
                               ["br", [["perl", "s", False], ["perl", "s", True]], True],
                               ["br", [["perl", "w", True], ["perl", "w", False]], True]])
        if rng.chance(2, 5):
            return ["perl", rng.choice(["w", "s", "d"]), rng.chance(1, 3)]
        items = []
        for _ in range(rng.range(1, 3)):
            r = rng.below(10)
            if r < 5:
                items.append(["lit", rng.choice(LITS)])
            elif r < 8:
                a = rng.choice([0x61, 0x41, 0x30, 0x62, 0x00, 0x20])
                items.append(["range", a, a + rng.range(0, 5)])
            else:
                items.append(["perl", rng.choice(["w", "s", "d"]), rng.chance(1, 3)])
        return ["br", items, rng.chance(1, 3)]

    def gen_atom(self, rng, depth, opts):
        r = rng.below(100)
        if r < 55:
            return ["lit", rng.choice(LITS) if rng.chance(9, 10) else rng.below(256), rng.below(4)]
        if r < 63:
            return ["dot"]
        if r < 78:
            return ["class", self.gen_class(rng)]
        if r < 79 and not opts["wide"]:
            c = rng.choice(["é", "ù", "€"])
            return ["char", list(c.encode()), c]
        if depth < 2 or (depth < 3 and rng.chance(1, 3)):
            return ["group", self.gen_alt(rng, depth + 1, opts)]
        return ["lit", rng.choice(LITS), 0]

    def gen_piece(self, rng, depth, opts):
        if rng.chance(1, 16):
            # empty group / empty alternation branch: nullable, never quantified
            k = rng.below(4)
            x = ["lit", rng.choice(LITS[:8]), 0]
            if rng.chance(1, 3):
                x = ["cat", [x, ["lit", rng.choice(LITS[:8]), 0]]]
            if k == 0:
                return ["group", ["empty"]], True
            if k == 1:
                return ["group", ["alt", [["empty"], x]]], True
            if k == 2:
                return ["group", ["alt", [x, ["empty"]]]], True
            return ["group", ["group", ["empty"]]], True
        a = self.gen_atom(rng, depth, opts)
        if not rng.chance(35, 100):
            return a, False
        r = rng.below(10)
        if r < 2:
            k = ["?"]
        elif r < 4:
            k = ["*"]
        elif r < 6:
            k = ["+"]
        elif r < 7:
            k = ["n", rng.range(0, 3)]
        elif r < 8:
            k = ["n,", rng.range(0, 2)]
        else:
            lo = rng.range(0, 2)
            k = ["n,m", lo, lo + rng.range(1, 3)] + ([True] if rng.chance(1, 3) else [])
        lo = {"?": 0, "*": 0, "+": 1}.get(k[0], k[1] if len(k) > 1 else 0)
        return ["rep", a, k, not rng.chance(2, 5)], lo == 0

    def gen_concat(self, rng, depth, opts, top=False):
        n = rng.range(1, 4 if depth else 5)
        pieces, any_solid = [], False
        for i in range(n):
            if rng.chance(3, 10):
                # a run of plain literals: what atoms are made of
                for _ in range(rng.range(2, 4)):
                    pieces.append(["lit", rng.choice(LITS[:9]) if rng.chance(9, 10) else rng.below(256), 0])
                any_solid = True
                continue
            p, nullable = self.gen_piece(rng, depth, opts)
            any_solid = any_solid or not nullable
            pieces.append(p)
            if opts["wb"] and rng.chance(1, 12):
                pieces.append(["assert", rng.choice(["wb", "nwb"])])
        if not any_solid:
            pieces.insert(rng.below(len(pieces) + 1), ["lit", rng.choice(LITS[:8]), 0])
        if opts["wb"] and rng.chance(1, 14):
            pieces.insert(0, ["assert", rng.choice(["wb", "nwb"])])
        if top and opts["anchors"]:
            if rng.chance(1, 2):
                pieces.insert(0, ["assert", "start"])
            else:
                pieces.append(["assert", "end"])
        return pieces[0] if len(pieces) == 1 else ["cat", pieces]

    def gen_alt(self, rng, depth, opts, top=False):
        n = 1 if rng.chance(17 if top else 11, 20) else rng.range(2, 3)
        alts = [self.gen_concat(rng, depth, opts, top) for _ in range(n)]
        return alts[0] if n == 1 else ["alt", alts]

    def gen_input(self, rng, node, nocase, dot_all, mods, alphabet, limit=48):
        parts, total = [], 0
        while total < limit - 8:
            r = rng.below(10)
            if r < 5:
                m = sample(rng, node, nocase, dot_all, alphabet)
                if r == 4 and m:
                    m = bytearray(m)
                    m[rng.below(len(m))] = rng.choice(alphabet)
                    m = bytes(m)
                if mods["wide"] and (not mods["ascii"] or rng.chance(1, 2)):
                    m = widen(m)
                    if rng.chance(1, 6) and len(m) > 2:
                        m = m[:-1]
                if rng.chance(1, 2):
                    # explicit neighbours for fullword / word boundaries
                    pre = rng.choice([b"", b" ", b"a", b"1", b"a\0", b"-\0", b"\0"])
                    post = rng.choice([b"", b" ", b"b", b"2", b"b\0", b".\0", b"\0"])
                    m = pre + m + post
            else:
                m = rng.bytes(rng.range(1, 4), alphabet)
                if mods["wide"] and rng.chance(1, 2):
                    m = widen(m)
            parts.append(m)
            total += len(m)
            if rng.chance(1, 8):
                break
        return b"".join(parts)[:64]

    def gen_branch_family(self, rng):
        """alternation whose branches differ in length by several bytes, a word-boundary assertion at the
        start (or inside) the long branch, a one-byte class as the short branch; inputs end with bytes the
        short branch matches (matches saved from the long literal can start after later literals)."""
        word = [rng.choice([0x5F, 0x63, 0x31, 0x41, 0x20, 0x78, 0x61]) for _ in range(rng.range(6, 10))]
        long_branch = [["lit", word[0], 0], ["assert", rng.choice(["wb", "nwb"])]] + [["lit", b, 0] for b in word[1:]]
        if rng.chance(1, 3):
            long_branch = [["lit", b, 0] for b in word[:2]] + [["rep", ["dot"], ["n,m", 0, 2], False]] + [["lit", b, 0] for b in word[2:]]
        short = rng.choice([["class", ["perl", "d", True]], ["class", ["perl", "w", False]],
                            ["class", ["br", [["range", 0x61, 0x7A]], False]], ["lit", word[-1], 0]])
        alts = [["cat", long_branch], short]
        if rng.chance(1, 2):
            alts = alts[::-1]
        node = ["alt", alts]
        mods = {"nocase": False, "wide": False, "ascii": False, "fullword": False}
        ci, da = False, rng.chance(1, 2)
        retext = "/%s/%s" % (re_text(node), "s" if da else "")
        wb = bytes(word)
        inputs = []
        for i in range(4):
            r = rng.fork("bf%d" % i)
            pre = r.bytes(r.range(0, 3), [0x5F, 0x20, 0x31, 0x61])
            inputs.append((pre + wb[:1] * r.range(0, 1) + wb + r.bytes(r.range(0, 2), [0x61, 0x31, 0x20]))[:64].hex())
        subjects = [wb.hex(), wb[:3].hex()]
        src = "rule r { strings: $a = %s condition: $a or true }\n" % retext
        for i, sj in enumerate(subjects):
            lit = "".join("\\x%02x" % b for b in bytes.fromhex(sj))
            src += 'rule m%d { condition: "%s" matches %s }\n' % (i, lit, retext)
        return {"node": node, "ci": ci, "da": da, "mods": mods, "src": src, "inputs": inputs, "subjects": subjects}

    def gen_nul_family(self, rng):
        """`ascii wide` strings whose alternation has a branch that is the widened form of another branch
        (NUL-interleaved literal): an ascii literal is byte-equal to a wide literal, which matters for the
        ascii / wide split of the literal list (`literal_index >= len / 2`)."""
        k = rng.range(2, 3)
        word = [rng.choice([0x61, 0x62, 0x63, 0x41]) for _ in range(k)]
        wide_word = []
        for b in word:
            wide_word += [b, 0]
        branches = [["cat", [["lit", b, 0] for b in word]], ["cat", [["lit", b, 0] for b in wide_word]]]
        if rng.chance(1, 3):
            branches.append(["cat", [["lit", b, 0] for b in [rng.choice([0x78, 0x31]), rng.choice([0x78, 0x31])]]])
        branches = rng.shuffle(branches)
        tail = rng.choice([[["rep", ["lit", 0x63, 0], ["+"], True]], [["lit", 0x63, 0]], [["lit", 0x63, 0], ["lit", 0x64, 0]],
                           [["rep", ["dot"], ["n,m", 0, 2], False], ["lit", 0x7A, 0]]])
        node = ["cat", [["group", ["alt", branches]]] + tail]
        mods = {"nocase": rng.chance(1, 3), "wide": True, "ascii": True, "fullword": False}
        ci, da = False, rng.chance(1, 2)
        retext = "/%s/%s" % (re_text(node), "s" if da else "")
        modtext = "".join(" " + m for m in ("nocase", "wide", "ascii", "fullword") if mods[m])
        wb, ww = bytes(word), bytes(wide_word)
        t_ascii = rng.choice([b"c", b"cc", b"cd", b"z", b"xz"])
        members = [wb + t_ascii, ww + t_ascii, widen(wb + t_ascii), widen(ww + t_ascii)]
        inputs = []
        for i in range(4):
            r = rng.fork("nf%d" % i)
            parts = [r.bytes(r.range(0, 2), [0x2E, 0x20, 0x61, 0x00])]
            kind = i if r.chance(1, 2) else r.below(4)
            chosen = [members[kind]] if i < 3 else r.shuffle(members)[:r.range(2, 4)]
            for m in chosen:
                if mods["nocase"] and r.chance(1, 2):
                    m = bytes(swapcase(x) for x in m)
                parts += [m, r.bytes(r.range(0, 2), [0x2E, 0x20, 0x00])]
            inputs.append(b"".join(parts)[:64].hex())
        subjects = [(wb + t_ascii).hex(), (ww + t_ascii).hex()]
        src = "rule r { strings: $a = %s%s condition: $a or true }\n" % (retext, modtext)
        for i, sj in enumerate(subjects):
            lit = "".join("\\x%02x" % b for b in bytes.fromhex(sj))
            src += 'rule m%d { condition: "%s" matches %s }\n' % (i, lit, retext)
        return {"node": node, "ci": ci, "da": da, "mods": mods, "src": src, "inputs": inputs, "subjects": subjects}

    def gen_wide_boundary_family(self, rng):
        """wide strings: a greedy (or lazy) repetition before a literal run, a word boundary only after the
        run (or only before): the validators before / after the literal see different assertions."""
        lit = [rng.choice([0x66, 0x6F, 0x62, 0x61, 0x72, 0x31]) for _ in range(rng.range(4, 6))]
        head = ["rep", ["lit", rng.choice([0x61, 0x78]), 0], rng.choice([["+"], ["*"], ["n,m", 1, 3]]), not rng.chance(1, 3)]
        asr = ["assert", rng.choice(["wb", "nwb"])]
        body = [head] + [["lit", b, 0] for b in lit]
        where = rng.below(3)
        if where == 0:
            body = body + [asr]
        elif where == 1:
            body = [asr] + body
        else:
            body = body + [asr, ["rep", ["class", ["perl", "w", rng.chance(1, 2)]], ["?"], True]]
        node = ["cat", body]
        mods = {"nocase": False, "wide": True, "ascii": rng.chance(1, 3), "fullword": False}
        ci, da = rng.chance(1, 4), False
        retext = "/%s/%s" % (re_text(node), "i" if ci else "")
        modtext = "".join(" " + m for m in ("nocase", "wide", "ascii", "fullword") if mods[m])
        h = head[1][1]
        inputs = []
        for i in range(4):
            r = rng.fork("wb%d" % i)
            parts = []
            for _ in range(r.range(1, 2)):
                m = bytes([h] * r.range(1, 3)) + bytes(lit)
                pre = r.choice([b"", b" ", b"b", b"1"])
                post = r.choice([b"", b"x", b" ", b"1", b".", b"xx"])
                m = pre + m + post
                if not mods["ascii"] or r.chance(2, 3):
                    m = widen(m)
                    if r.chance(1, 2):
                        # two raw (not wide) bytes before the wide text, the first one alphanumeric or not
                        m = r.choice([b"xy", b"a-", b"1 ", b"-x", b"  "]) + widen(bytes([h] * r.range(1, 2)) + bytes(lit)) + r.choice([b"", b"x\x00", b" \x00"])
                parts += [m, r.choice([b"", b"\x20\x00", b"z"])]
            inputs.append(b"".join(parts)[:64].hex())
        subjects = [(bytes([h, h]) + bytes(lit) + b"x").hex(), (bytes([h]) + bytes(lit)).hex()]
        src = "rule r { strings: $a = %s%s condition: $a or true }\n" % (retext, modtext)
        for i, sj in enumerate(subjects):
            litx = "".join("\\x%02x" % b for b in bytes.fromhex(sj))
            src += 'rule m%d { condition: "%s" matches %s }\n' % (i, litx, retext)
        return {"node": node, "ci": ci, "da": da, "mods": mods, "src": src, "inputs": inputs, "subjects": subjects}

    def gen_raw_wide_boundary(self, rng):
        """wide regex with a word boundary and no literal (scanned raw): the leftmost widened candidate fails
        its boundary check while a later start inside the same candidate is a member."""
        lower = ["class", ["br", [["range", 0x61, 0x7A]], False]]
        digit = ["class", ["perl", "d", False]]
        word = ["class", ["perl", "w", False]]
        asr = lambda: ["assert", rng.choice(["wb", "nwb"])]
        rep = lambda c: ["rep", c, rng.choice([["+"], ["n,m", 1, 3], ["n,", 1]]), not rng.chance(1, 3)]
        shape = rng.below(4)
        if shape == 0:
            body = [asr(), rep(lower), rep(digit)]
        elif shape == 1:
            body = [asr(), word, word, asr()]
        elif shape == 2:
            body = [rep(lower), digit, asr()]
        else:
            body = [asr(), rep(word), ["assert", "end"]]
        node = ["cat", body]
        mods = {"nocase": False, "wide": True, "ascii": rng.chance(1, 4), "fullword": False}
        ci, da = rng.chance(1, 5), False
        retext = "/%s/%s" % (re_text(node), "i" if ci else "")
        modtext = "".join(" " + m for m in ("nocase", "wide", "ascii", "fullword") if mods[m])
        inputs = []
        for i in range(4):
            r = rng.fork("rw%d" % i)
            txt = b""
            for _ in range(r.range(1, 3)):
                txt += r.choice([b" ", b"", b"-", b"1"]) + r.bytes(r.range(1, 4), [0x61, 0x62, 0x63]) + r.bytes(r.range(0, 2), [0x31, 0x32]) + r.choice([b"", b" ", b"x"])
            m = widen(txt) if (not mods["ascii"] or r.chance(2, 3)) else txt
            inputs.append(m[:64].hex())
        subjects = ["20616231", "6162"]
        src = "rule r { strings: $a = %s%s condition: $a or true }\n" % (retext, modtext)
        for i, sj in enumerate(subjects):
            litx = "".join("\\x%02x" % b for b in bytes.fromhex(sj))
            src += 'rule m%d { condition: "%s" matches %s }\n' % (i, litx, retext)
        return {"node": node, "ci": ci, "da": da, "mods": mods, "src": src, "inputs": inputs, "subjects": subjects}

    def gen_greedy_lazy_mix(self, rng):
        """greedy and lazy repetitions mixed before the extracted literal (greedy then lazy, lazy then greedy);
        the input holds the literal twice so that the greedy part can span the first occurrence."""
        lit = rng.choice([b"foo", b"food", b"xyz1", b"bar_"])
        head = ["lit", 0x61, 0]
        any1 = rng.choice([["dot"], ["class", ["perl", "w", False]], ["class", ["br", [["range", 0x61, 0x7A]], False]]])
        greedy = ["rep", any1, rng.choice([["+"], ["*"], ["n,", 1], ["n,m", 1, 9]]), True]
        lazy = ["rep", rng.choice([["lit", 0x63, 0], ["dot"], ["lit", 0x61, 0]]), rng.choice([["?"], ["*"], ["n,m", 0, 2]]), False]
        mid = [greedy, lazy] if rng.chance(1, 2) else [lazy, greedy]
        if rng.chance(1, 4):
            mid = mid + [["rep", ["lit", 0x62, 0], ["?"], rng.chance(1, 2)]]
        tail = rng.choice([[], [["dot"], ["lit", 0x62, 0]], [["lit", 0x62, 0]], [["rep", ["dot"], ["?"], False], ["lit", 0x62, 0]]])
        node = ["cat", [head] + mid + [["lit", b, 0] for b in lit] + tail]
        mods = {"nocase": rng.chance(1, 5), "wide": False, "ascii": False, "fullword": False}
        ci, da = False, rng.chance(1, 2)
        retext = "/%s/%s" % (re_text(node), "s" if da else "")
        modtext = "".join(" " + m for m in ("nocase", "wide", "ascii", "fullword") if mods[m])
        inputs = []
        for i in range(4):
            r = rng.fork("gl%d" % i)
            unit = lambda: r.bytes(r.range(1, 2), [0x61]) + r.bytes(r.range(0, 2), [0x61, 0x63, 0x71]) + lit + r.choice([b"bb", b"b", b"xb", b""])
            txt = r.choice([b"", b" "]) + unit() + unit() + (unit() if r.chance(1, 3) else b"") + r.choice([b"", b" ", b"b"])
            inputs.append(txt[:64].hex())
        subjects = [(b"aa" + lit + b"bb").hex(), (b"a" + lit).hex()]
        src = "rule r { strings: $a = %s%s condition: $a or true }\n" % (retext, modtext)
        for i, sj in enumerate(subjects):
            litx = "".join("\\x%02x" % b for b in bytes.fromhex(sj))
            src += 'rule m%d { condition: "%s" matches %s }\n' % (i, litx, retext)
        return {"node": node, "ci": ci, "da": da, "mods": mods, "src": src, "inputs": inputs, "subjects": subjects}

    def gen_last_alt_family(self, rng):
        """an alternation that is the last (or only) literal-bearing part of the regex: one branch ends on a
        wildcard / class, another on a literal run; before it nothing, or lazy / non-literal parts."""
        L = lambda b: ["lit", b, 0]
        wild = lambda: rng.choice([["dot"], ["class", ["perl", "w", False]], ["class", ["br", [["range", 0x61, 0x7A]], False]]])
        w1 = [rng.choice([0x2E, 0x61, 0x63]), rng.choice([0x65, 0x78, 0x61]), rng.choice([0x78, 0x65])][:rng.range(1, 3)]
        w2 = [rng.choice([0x2E, 0x63]), rng.choice([0x64, 0x6C]), rng.choice([0x6C, 0x64])][:rng.range(2, 3)]
        # a leading dot closes the run on the left: the literals of this branch can only come from its middle
        b_wild = ([["dot"]] if rng.chance(3, 4) else []) + [L(b) for b in w1] + [rng.choice([["dot"], wild()])]
        b_lit = [L(b) for b in w2]
        branches = [["cat", b_wild], ["cat", b_lit] if len(b_lit) > 1 else b_lit[0]]
        if rng.chance(1, 3):
            branches.append(["cat", [["dot"], L(0x31), ["dot"]]])
        branches = rng.shuffle(branches)
        before = rng.choice([[], [["dot"]], [["rep", ["class", ["perl", "w", False]], ["+"], False]],
                             [["class", ["perl", "d", False]]], [["rep", ["dot"], ["n,m", 0, 2], False]]])
        after = rng.choice([[], [], [["rep", ["dot"], ["?"], False]], [["assert", "wb"]]])
        body = before + [["group", ["alt", branches]]] + after
        node = body[0] if len(body) == 1 else ["cat", body]
        mods = {"nocase": rng.chance(1, 5), "wide": False, "ascii": False, "fullword": False}
        ci, da = False, rng.chance(1, 2)
        retext = "/%s/%s" % (re_text(node), "s" if da else "")
        modtext = "".join(" " + m for m in ("nocase", "wide", "ascii", "fullword") if mods[m])
        used = sorted(node_bytes(node, set())) or [0x61]
        alphabet = used * 3 + [0x20, 0x37, 0x6B]
        inputs = []
        for i in range(4):
            r = rng.fork("la%d" % i)
            parts = []
            for _ in range(r.range(1, 3)):
                parts += [r.bytes(r.range(1, 4), [0x20, 0x6B, 0x37, 0x6C]), sample(r, node, ci or mods["nocase"], da, alphabet)]
            parts.append(r.bytes(r.range(0, 3), [0x20, 0x6E, 0x6F]))
            inputs.append(b"".join(parts)[:64].hex())
        subjects = [sample(rng.fork("ls0"), node, False, da, alphabet).hex(), b"load k7.dll now".hex()]
        src = "rule r { strings: $a = %s%s condition: $a or true }\n" % (retext, modtext)
        for i, sj in enumerate(subjects):
            litx = "".join("\\x%02x" % b for b in bytes.fromhex(sj))
            src += 'rule m%d { condition: "%s" matches %s }\n' % (i, litx, retext)
        return {"node": node, "ci": ci, "da": da, "mods": mods, "src": src, "inputs": inputs, "subjects": subjects}

    def gen_nocase_negated_small(self, rng):
        """/i or nocase, not wide, only literals / classes / alternations with few combinations, containing a
        negated class whose surviving letters have their other case inside the negated set (its language under
        nocase is smaller than its bitmap, possibly empty)."""
        L = lambda b: ["lit", b, 0]
        lo = rng.chance(1, 2)                      # survivors are lower-case (or upper-case) letters
        a, z = (0x61, 0x7A) if lo else (0x41, 0x5A)
        keep_lo = rng.range(a, z - 2)
        keep_hi = rng.choice([z, keep_lo + rng.range(0, 3)])
        keep_hi = min(keep_hi, z)
        items = []
        if keep_lo > 0:
            items.append(["range", 0, keep_lo - 1])
        if keep_hi < 255:
            items.append(["range", keep_hi + 1, 255])
        neg = ["class", ["br", items, True]]
        if rng.chance(1, 3):
            neg = ["class", ["br", [["range", 0, 0x60 if lo else 0x40], ["range", (0x7B if lo else 0x5B), 255]], True]]
        k, zc = rng.choice([0x6B, 0x4B, 0x31]), rng.choice([0x7A, 0x5A, 0x2D])
        body = [L(k), neg, L(zc)]
        if rng.chance(1, 3):
            body = [L(k), ["group", ["alt", [neg, L(0x5F)]]], L(zc)]
        if rng.chance(1, 4):
            body = body[1:]
        node = ["cat", body]
        nocase_mod = rng.chance(1, 2)
        mods = {"nocase": nocase_mod, "wide": False, "ascii": False, "fullword": False}
        ci, da = (not nocase_mod) or rng.chance(1, 3), False
        retext = "/%s/%s" % (re_text(node), "i" if ci else "")
        modtext = "".join(" " + m for m in ("nocase", "wide", "ascii", "fullword") if mods[m])
        mid = [keep_lo, keep_hi, swapcase(keep_lo), swapcase(keep_hi), 0x5F, 0x30]
        inputs = []
        for i in range(4):
            r = rng.fork("nn%d" % i)
            parts = []
            for _ in range(r.range(2, 4)):
                kk = swapcase(k) if r.chance(1, 2) else k
                zz = swapcase(zc) if r.chance(1, 2) else zc
                parts += [b"__", bytes([kk, r.choice(mid), zz])]
            inputs.append(b"".join(parts)[:64].hex())
        subjects = [bytes([k, keep_lo, zc]).hex(), bytes([k, swapcase(keep_lo), zc]).hex(), bytes([k, 0x5F, zc]).hex()]
        src = "rule r { strings: $a = %s%s condition: $a or true }\n" % (retext, modtext)
        for i, sj in enumerate(subjects):
            litx = "".join("\\x%02x" % b for b in bytes.fromhex(sj))
            src += 'rule m%d { condition: "%s" matches %s }\n' % (i, litx, retext)
        return {"node": node, "ci": ci, "da": da, "mods": mods, "src": src, "inputs": inputs, "subjects": subjects}

    def gen_case(self, rng):
        if rng.chance(1, 20):
            return self.gen_nocase_negated_small(rng)
        if rng.chance(1, 18):
            return self.gen_last_alt_family(rng)
        if rng.chance(1, 18):
            return self.gen_greedy_lazy_mix(rng)
        if rng.chance(1, 16):
            return self.gen_raw_wide_boundary(rng)
        if rng.chance(1, 14):
            return self.gen_wide_boundary_family(rng)
        if rng.chance(1, 12):
            return self.gen_branch_family(rng)
        if rng.chance(1, 14):
            return self.gen_nul_family(rng)
        mods = {"nocase": rng.chance(1, 4), "wide": rng.chance(1, 4), "ascii": False, "fullword": rng.chance(1, 5)}
        if mods["wide"]:
            mods["ascii"] = rng.chance(1, 2)
        ci, da = rng.chance(1, 5), rng.chance(1, 3)
        opts = {"wide": mods["wide"], "wb": rng.chance(1, 3), "anchors": rng.chance(1, 8)}
        node = self.gen_alt(rng, 0, opts, top=True)
        nocase = ci or mods["nocase"]
        used = sorted(node_bytes(node, set()))
        alphabet = (used * 3 + LITS[:6] + [0x20, 0x2D]) if used else LITS
        retext = "/%s/%s%s" % (re_text(node), "i" if ci else "", "s" if da else "")
        modtext = "".join(" " + k for k in ("nocase", "wide", "ascii", "fullword") if mods[k])
        eff_mods = dict(mods)
        if not mods["wide"]:
            eff_mods["ascii"] = True
        inputs = [self.gen_input(rng.fork("i%d" % i), node, nocase, da, eff_mods, alphabet).hex() for i in range(4)]
        subjects = []
        for i in range(4):
            r = rng.fork("s%d" % i)
            k = r.below(4)
            if k == 0:
                s = sample(r, node, ci, da, alphabet)
            elif k == 1:
                s = r.bytes(r.range(0, 2), alphabet) + sample(r, node, ci, da, alphabet) + r.bytes(r.range(0, 2), alphabet)
            elif k == 2:
                s = bytearray(sample(r, node, ci, da, alphabet) or b"a")
                s[r.below(len(s))] = r.choice(alphabet)
                s = bytes(s)
            else:
                s = r.bytes(r.range(0, 6), alphabet)
            subjects.append(s[:24].hex())
        src = "rule r { strings: $a = %s%s condition: $a or true }\n" % (retext, modtext)
        for i, s in enumerate(subjects):
            lit = "".join("\\x%02x" % b for b in bytes.fromhex(s))
            src += 'rule m%d { condition: "%s" matches %s }\n' % (i, lit, retext)
        return {"node": node, "ci": ci, "da": da, "mods": mods, "src": src, "inputs": inputs, "subjects": subjects}

    def generate(self, ctx, rng, n):
        return [self.gen_case(rng.fork("c%d" % i)) for i in range(n)]

    def budget(self, tier):
        return 900 if tier == "quick" else 8000

    def corpus(self, ctx):
        return _hir.load_corpus("C03")

    # ---------------------------------------------------------------- execution
    def execute(self, ctx, cases):
        hc = [{"rules": [{"ns": None, "src": c["src"]}], "params": {"compute_full_matches": True},
               "inputs": c["inputs"], "both_profiles": True} for c in cases]
        outs = core.harness_run(ctx.binp, "c03", hc)
        for c, o in zip(cases, outs):
            if isinstance(o, dict) and "desc" in o and o["desc"]:
                ctx.count("kind=" + o["desc"][0]["kind"])
            elif isinstance(o, dict) and "compile_error" in o:
                ctx.count("compile_error")
            else:
                ctx.count("crash")
            ctx.count("mods=" + ",".join(k for k in ("nocase", "wide", "ascii", "fullword") if c["mods"][k])
                      + ("/i" if c["ci"] else "") + ("/s" if c["da"] else ""))
            if has_assert(c["node"], ("wb", "nwb")):
                ctx.count("has_word_boundary")
            if has_assert(c["node"], ("start", "end")):
                ctx.count("has_anchor")
        return outs

    @staticmethod
    def rule_of(scan, name):
        for r in scan.get("rules", []):
            if r["name"] == name:
                return r
        return None

    def ms_of(self, scan):
        r = self.rule_of(scan, "r") if isinstance(scan, dict) else None
        if r is None or not r["strings"]:
            return []
        return [(m["offset"], m["length"]) for m in r["strings"][0]["matches"]]

    def term(self, ctx, case, out):
        if not isinstance(out, dict) or "desc" not in out or len(out["desc"]) != 1 or out["desc"][0]["hir"] is None:
            return (False, False, 0)
        if not _hir.profiles_agree(out):
            ctx.count("profiles_disagree")
            return (False, False, 0)       # the answer depends on the compiler profile: one of the two is wrong
        if len(out["desc"][0]["literals"]) > 4000:
            # the description does not fit in one Gallina term (coqc overflows its stack): not evaluated
            ctx.count("not_evaluated_too_many_literals")
            return (True, True, 0)
        outs = []
        for s in out["scans"]:
            if not isinstance(s, dict) or "rules" not in s or s.get("error"):
                return (False, False, 0)
            outs.append(_hir.g_matches(self.ms_of(s)))
        if not out["scans"]:
            return (False, False, 0)
        first = out["scans"][0]
        subjects = glist([gpair(gbytes(bytes.fromhex(s)), gbool(self.rule_of(first, "m%d" % i) is not None))
                          for i, s in enumerate(case["subjects"])])
        # verdicts of the `matches` rules must not depend on the scanned input
        for s in out["scans"][1:]:
            for i in range(len(case["subjects"])):
                if (self.rule_of(s, "m%d" % i) is None) != (self.rule_of(first, "m%d" % i) is None):
                    return (False, False, 0)
        ins = glist([gbytes(bytes.fromhex(h)) for h in case["inputs"]])
        kr, kf = _hir.half_codes(out["desc"][0]["kind"])
        return "let d := %s in with_kinds (kinds_ok d %d %d && classes_ok %s) (C03_case %s %s %s d %s %s %s)" % (
            _hir.g_sdesc(out["desc"][0]), kr, kf, _hir.g_classes(out["desc"][0]["hir"]), g_node(case["node"]), gbool(case["ci"]), gbool(case["da"]),
            ins, glist(outs), subjects)

    def nontrivial(self, case, out):
        if not isinstance(out, dict) or "scans" not in out or not out["scans"]:
            return None
        lists = [self.ms_of(s) for s in out["scans"]]
        some_match = any(l for l in lists)
        some_nonmatch = any(len(l) < len(bytes.fromhex(h)) for l, h in zip(lists, case["inputs"]))
        verdicts = {self.rule_of(out["scans"][0], "m%d" % i) is not None for i in range(len(case["subjects"]))}
        if (some_match and some_nonmatch) or len(verdicts) == 2:
            return json.dumps([case["src"], case["inputs"]])
        return None

    def sample(self, case, out):
        o = out if isinstance(out, dict) else {}
        d = (o.get("desc") or [{}])[0]
        res = [self.ms_of(s) for s in o.get("scans", [])]
        return {"src": case["src"], "inputs": case["inputs"], "kind": d.get("kind"),
                "literals": (d.get("literals") or [])[:4], "matches": res}

    def extra_search(self, ctx, rng, around):
        return self.generate(ctx, rng, 400)


PROP = C03()
