# C20 — includes are transparent; include graphs cannot crash the compiler.
import os, shutil, json
from .. import core
from ..core import gbool, glist, gopt, gpair, gstr
from ..runner import Prop

WORK = os.path.join(core.VERIF, ".work")
MAX_DEPTH = 16          # informational; the expected outcome is computed from the case, see flatten()
ROOT = "@ROOT@"

KIND = {"io": "EIO", "invalid_include": "EInvalidInclude", "too_deep": "ETooDeep", "unauthorized": "EUnauthorized",
        "parse": "EParse", "unknown_import": "(ECompile CUnknownImport)", "dup_rule": "(ECompile CDupRule)",
        "unknown_ident": "(ECompile CUnknownIdent)", "bad_rule": "(ECompile CBadRule)",
        "wildcard": "(ECompile CWildcard)"}
MODCALL = {"math": "math.abs(1) == 1", "string": 'string.length("ab") == 2', "time": "time.now() > 0"}


# ------------------------------------------------------------------ rendering of documents as YARA text
def render_comp(c, root):
    if "inc" in c:
        return 'include "%s"\n' % c["inc"].replace(ROOT, root)
    if "imp" in c:
        return 'import "%s"\n' % c["imp"]
    r = c["rule"]
    terms = []
    if r["bad"]:
        terms.append("$undefined_string")
    terms.append(("not $a" if r.get("neg") else "$a") if r["tok"] else "true")
    terms += r["deps"]
    terms += [MODCALL[m] for m in r["mods"]]
    terms += ["any of (%s*)" % p for p in r["wild"]]
    s = "%s%srule %s {\n" % ("global " if r["global"] else "", "private " if r["private"] else "", r["name"])
    if r["tok"]:
        s += '  strings:\n    $a = "%s"\n' % r["tok"]
    s += "  condition:\n    %s\n}\n" % " and ".join(terms)
    return s


def render_doc(doc, root):
    if doc["t"] == "bad":
        return "rule {\n"
    if doc["t"] == "notutf8":
        return None
    return "".join(render_comp(c, root) for c in doc["cs"])


def doc_bytes(doc, root):
    if doc["t"] == "notutf8":
        return b"rule x { condition: true }\n\xff\xfe\n"
    return render_doc(doc, root).encode()


class C20(Prop):
    ID = "C20"
    LEVEL = "proof"
    COQ_TARGETS = ["theories/Properties/C20.vo"]
    MODEL_TARGETS = ["theories/Spec/IncludeSpec.vo", "theories/Model/Include.vo", "theories/Model/IncludeCase.vo"]
    CASE_HEADER = ("From Coq Require Import String.\n"
                   "From Boreal Require Import Base.Prelude Spec.IncludeSpec Model.Include Model.IncludeCase.\n"
                   "Open Scope string_scope. Open Scope list_scope.")
    HARNESS_BINS = ("c20",)
    KF = {}
    RULE = ("rule files with include directives are materialised in a directory tree under .work (trees, DAGs with "
            "shared leaves, the same directive text in files of different directories meaning different (or the same) "
            "files within one graph and across calls, with the process's working directory in one of those directories or "
            "a decoy of the same relative name under it, two sessions per run that follow more than 10000 directives "
            "through the `_in_namespace` calls only, global rules with strings (`$a` / `not $a` over different tokens) "
            "before and after a directive and in its target, chains of 14..19 nested includes, cycles of length 1..4, missing files, directories, "
            "non-UTF-8 and unparsable files, `../`, `./`, detours through existing and missing directories, double and "
            "trailing slashes, absolute paths), compiled by the real compiler in a child process in the three "
            "resolution modes (file system, include callback given as a table with decoy entries, includes disabled), "
            "from a file or from a string, in one or several namespaces, several calls per compiler; the same session "
            "is compiled from the textually inlined text, and evaluated by the Coq model.  Non-trivial: at least one "
            "include directive is reached; distinct by the whole case.")
    TRUSTED = ["Coq 8.16.1 kernel + vm_compute", "harness/src/bin/c20.rs (child processes, error kind read off the "
               "diagnostic message)", "vlib/props/c20.py (materialises the tree, renders documents as YARA text, "
               "inlines textually with the kernel's path resolution (os.stat/realpath), prints the Gallina term)"]
    ASSUMPTIONS = ["no symbolic links in the rule directories (canonicalize is modelled as a lexical walk that "
                   "checks existence)", "rule compilation is abstracted to names, imports, rule references, rule "
                   "sets and duplicate detection; the theorems are parametric in how one rule is compiled",
                   "paths that leave the case root are not generated"]

    # ---------------------------------------------------------------- generation
    def gen_rule(self, rng, name, known, imported, toks):
        r = {"name": name, "global": False, "private": rng.chance(1, 8), "deps": [], "mods": [], "wild": [],
             "bad": rng.chance(1, 60), "tok": None}
        if rng.chance(1, 10):
            r["global"] = True
            r["private"] = rng.chance(1, 6)
            if rng.chance(1, 2):            # a global rule with a string of its own (sometimes negated)
                r["tok"] = rng.choice(toks)
                r["neg"] = rng.chance(1, 3)
            return r
        if rng.chance(1, 2):
            r["tok"] = rng.choice(toks)
        if known and rng.chance(1, 2):
            r["deps"] = [rng.choice(known) for _ in range(rng.range(1, 2))]
        if imported and rng.chance(1, 3):
            r["mods"] = [rng.choice(imported)]
        elif rng.chance(1, 30):
            r["mods"] = [rng.choice(["math", "string", "time"])]
        if known and rng.chance(1, 7):
            k = rng.choice(known)
            r["wild"] = [k[:rng.range(1, len(k))]]
        return r

    def rel_text(self, rng, src_dir, dst, dirs, style=None):
        """text of an include directive in a file of directory src_dir naming the file path dst"""
        common = 0
        while common < len(src_dir) and common < len(dst) - 1 and src_dir[common] == dst[common]:
            common += 1
        segs = [".."] * (len(src_dir) - common) + list(dst[common:])
        s = "/".join(segs)
        style = rng.below(14) if style is None else style
        if style in (2, 5, 6) and not self._allow_break:
            style = 9
        if style == 0:
            s = "./" + s
        elif style == 1 and dirs:
            d = rng.choice(dirs)            # detour through an existing directory of the root
            up = "/".join([".."] * len(src_dir))
            s = (up + "/" if up else "") + "/".join(d) + "/" + "/".join([".."] * len(d)) + "/" + "/".join(dst)
        elif style == 2:
            s = "nosuchdir/../" + s         # canonicalize fails: the detour does not exist
        elif style == 3:
            s = s.replace("/", "//", 1) if "/" in s else "./" + s
        elif style == 4:
            s = ROOT + "/" + "/".join(dst)  # absolute
        elif style == 5 and rng.chance(1, 3):
            s = s + "/"                     # a file is not a directory
        elif style == 6 and rng.chance(1, 3):
            s = s + "/."
        return s

    def gen_case(self, rng):
        mode = rng.choice(["fs", "fs", "fs", "callback", "callback", "disabled"])
        shape = rng.choice(["tree", "tree", "dag", "dag", "chain", "chain", "cycle", "cycle", "random", "defect"])
        all_dirs = rng.choice([[], [["a"]], [["a"], ["a", "b"]], [["a"], ["c"]], [["a"], ["a", "b"], ["c"], ["e"]]])
        toks = ["tokA", "tokB", "tokC"]
        self._allow_break = rng.chance(1, 6)
        bad_import = rng.chance(1, 10)
        cb_hole = rng.chance(1, 6)
        scan = " ".join(t for t in toks if rng.chance(1, 2))
        if shape == "chain":
            n = rng.choice([15, 16, 17, 17, 18, 18, 19, 20])
        elif shape == "cycle":
            n = rng.range(1, 4)
        else:
            n = rng.range(2, 7)
        fdirs = [rng.choice([[]] + all_dirs) for _ in range(n)]
        if shape == "chain" and rng.chance(1, 2):
            fdirs = [[] for _ in range(n)]
        # file names: usually plain; in one case out of five with characters that a string-literal parser would
        # rewrite (backslash sequences) or that are unusual in names — a directive is raw text up to the quote
        odd = ["f%d\\new.yar", "a\\tb%d.yar", "x\\\\y%d.yar", "q\\x41_%d.yar", "k\\z%d.yar", "sp ace%d.yar", "d$%d#.yar",
               "p%%d%d.yar", "t'%d`.yar"]
        oddnames = rng.chance(1, 5)
        fpaths = [fdirs[i] + [(rng.choice(odd) if oddnames and rng.chance(2, 3) else "f%d.yar") % i] for i in range(n)]
        edges = {i: [] for i in range(n)}
        if shape in ("tree", "dag", "defect"):
            for j in range(1, n):
                edges[rng.below(j)].append(j)
            if shape == "dag":
                for _ in range(rng.range(1, 2)):
                    j = rng.range(1, n - 1)
                    i = rng.below(j)
                    edges[i].append(j)
        elif shape == "chain":
            for i in range(n - 1):
                edges[i].append(i + 1)
        elif shape == "cycle":
            for i in range(n):
                edges[i].append((i + 1) % n)
            if rng.chance(1, 3):
                edges[rng.below(n)].append(rng.below(n))
        else:
            for i in range(n):
                for _ in range(rng.below(3)):
                    edges[i].append(rng.below(n))
        plain_paths = shape == "chain" or rng.chance(1, 3)
        leaf_imports_only = shape == "dag" and rng.chance(1, 2)
        known, imported, docs, visited = [], set(), {}, set()
        slots = {}
        for i in range(n):
            is_leaf = not edges[i]
            nr = rng.below(3) if shape != "chain" else rng.below(2)
            sl = []
            if leaf_imports_only and is_leaf:
                nr = 0
                sl.append(("imp", rng.choice(["math", "string", "time"])))
            body = [("inc", j) for j in edges[i]] + [("rule", k) for k in range(nr)]
            if not (shape == "cycle" and rng.chance(1, 2)):
                body = rng.shuffle(body)
            if rng.chance(1, 5):
                sl.append(("imp", rng.choice(["math", "string", "time", "time", "math",
                                              "nosuchmodule" if bad_import else "string"])))
            slots[i] = sl + body

        def walk(i):
            if i in visited:
                return
            visited.add(i)
            cs = []
            for kind, v in slots[i]:
                if kind == "imp":
                    cs.append({"imp": v})
                    if v != "nosuchmodule":
                        imported.add(v)
                elif kind == "inc":
                    if mode == "callback" and rng.chance(1, 3):
                        cs.append({"inc": ("win\\tools\\leaf%d.yar" if oddnames else "cbname%d") % v, "_to": v})
                    else:
                        cs.append({"inc": self.rel_text(rng, fdirs[i], fpaths[v], all_dirs,
                                                        9 if plain_paths else None), "_to": v})
                    walk(v)
                else:
                    name = "r%d_%d" % (i, v) if not rng.chance(1, 40) else "r0_0"
                    cs.append({"rule": self.gen_rule(rng, name, known, sorted(imported), toks)})
                    known.append(name)
            docs[i] = {"t": "text", "cs": cs}

        for i in range(n):
            walk(i)
        # defects
        if shape == "defect" or rng.chance(1, 10):
            i = rng.below(n)
            kind = rng.below(5)
            if kind == 0:
                docs[i] = {"t": "bad"}
            elif kind == 1 and i > 0:
                docs[i] = {"t": "notutf8"}
            elif kind == 2:
                docs[i]["cs"].insert(rng.below(len(docs[i]["cs"]) + 1), {"inc": "missing.yar"})
            elif kind == 3 and all_dirs:
                d = rng.choice(all_dirs)
                docs[i]["cs"].insert(rng.below(len(docs[i]["cs"]) + 1),
                                     {"inc": rng.choice([ROOT + "/" + "/".join(d), ".", "..", ROOT + "/"])
                                      if mode != "callback" else "."})
            else:
                docs[i]["cs"].append({"inc": "f0.yar/../f0.yar"})
        files = [{"path": fpaths[i], "doc": docs[i]} for i in range(n)]
        # callback table
        cb = []
        use_cb = mode == "callback" or (mode == "disabled" and rng.chance(1, 2))
        if use_cb:
            for i in range(n):
                for c in docs[i].get("cs", []):
                    if "inc" in c and "_to" in c:
                        j = c["_to"]
                        if docs[j]["t"] == "notutf8":
                            continue
                        if rng.chance(1, 5):   # decoy that must never be chosen
                            cb.append({"name": c["inc"], "cur_any": False, "cur": "decoy/current.yar", "ns": None,
                                       "doc": {"t": "text", "cs": [{"rule": self.gen_rule(rng, "decoy", [], [], toks)}]}})
                        if rng.chance(1, 6):
                            cb.append({"name": c["inc"], "cur_any": True, "cur": None, "ns": "nosuchns",
                                       "doc": {"t": "bad"}})
                        if not (cb_hole and rng.chance(1, 6)):
                            cb.append({"name": c["inc"], "cur_any": True, "cur": None, "ns": None,
                                       "doc": docs[j] if not (cb_hole and rng.chance(1, 8)) else None})
        for d in docs.values():
            for c in d.get("cs", []):
                c.pop("_to", None)
        # calls
        cwd = rng.choice([[]] + all_dirs) if not rng.chance(1, 2) else []
        calls = []
        for _ in range(rng.choice([1, 1, 1, 2, 2, 3])):
            ns = rng.choice([None, None, "ns1", "ns2"])
            top = rng.below(n) if rng.chance(1, 4) else 0
            if rng.chance(2, 3):
                p = self.rel_text(rng, cwd, fpaths[top], all_dirs, rng.choice([9, 9, 9, 0, 1, 3, 4]))
                calls.append({"kind": "file", "path": p, "ns": ns})
            else:
                name = self.rel_text(rng, cwd, fpaths[top], all_dirs, 9 if plain_paths else None)
                cs = [{"inc": name}]
                if mode == "callback":
                    cb.append({"name": name, "cur_any": False, "cur": None, "ns": None, "doc": docs[top]
                               if docs[top]["t"] != "notutf8" else {"t": "bad"}})
                if rng.chance(1, 3):
                    cs.insert(rng.below(2), {"rule": self.gen_rule(rng, "top%d" % len(calls), [], [], toks)})
                calls.append({"kind": "str", "doc": {"t": "text", "cs": cs}, "ns": ns})
        if rng.chance(1, 30):
            calls.append({"kind": "file", "path": "nosuchfile.yar", "ns": None})
        return {"mode": mode, "shape": shape, "cwd": cwd, "dirs": all_dirs, "files": files, "cb": cb, "calls": calls,
                "scan": scan, "use_cb": use_cb}

    def gen_samename(self, rng):
        """The same directive text in files of different directories: `a/main.yar` and `b/main.yar` both say
        `include "common.yar"` (or `lib/x.yar`, `../shared.yar`) and mean different files — or the same file, for
        contrast — within one graph and across several calls on one compiler.  Resolution must be relative to the
        including file every time: a resolution remembered by directive text is wrong here."""
        toks = ["tokA", "tokB", "tokC"]
        dirs = rng.choice([[["a"], ["b"]], [["a"], ["b"], ["c"]], [["a"], ["a", "b"]], [["a"], ["b"], ["a", "lib"], ["b", "lib"]]])
        tops = [d for d in dirs if d[-1] != "lib"]
        inc = rng.choice(["common.yar", "./common.yar", "lib/x.yar", "../shared.yar", "common.yar"])
        if inc.startswith("lib/"):
            dirs = sorted({tuple(d) for d in dirs} | {tuple(d + ["lib"]) for d in tops})
            dirs = [list(d) for d in dirs]
        files, k = [], 0
        same_target = inc.startswith("../") and all(len(d) == 1 for d in tops)   # ../shared.yar from a/ and b/: one file
        for d in tops:
            main_cs = []
            if rng.chance(1, 3):
                main_cs.append({"rule": self.gen_rule(rng, "m%d" % k, [], [], toks)})
            main_cs.append({"inc": inc})
            # the rule of main refers to the rule its own common file defines
            main_cs.append({"rule": self.gen_rule(rng, "u%d" % k, ["c%d" % (0 if same_target else k)], [], toks)})
            files.append({"path": d + ["main.yar"], "doc": {"t": "text", "cs": main_cs}})
            if not inc.startswith("../"):
                tgt = d + inc.replace("./", "").split("/")
                files.append({"path": tgt, "doc": {"t": "text", "cs": [{"rule": self.gen_rule(rng, "c%d" % k, [], [], toks)}]}})
            k += 1
        if inc.startswith("../"):
            seen = set()
            for d in tops:
                tgt = tuple(d[:-1] + ["shared.yar"])
                if tgt not in seen:
                    seen.add(tgt)
                    files.append({"path": list(tgt), "doc": {"t": "text", "cs": [
                        {"rule": self.gen_rule(rng, "c%d" % (0 if same_target else tops.index(d)), [], [], toks)}]}})
        for f in files:
            for c in f["doc"]["cs"]:
                if "rule" in c:
                    c["rule"]["bad"] = False
        # the working directory of the process: the root, or one of the directories (whose own `common.yar` is then
        # a file of the same relative name under the cwd); at the root, a decoy of that name with other content.
        # A directive is relative to the file it is written in, never to the working directory.
        cwd = rng.choice([[]] + tops) if rng.chance(2, 3) else []
        if not inc.startswith("../") and (cwd == [] or rng.chance(1, 2)):
            dpath = inc.replace("./", "").split("/")
            if len(dpath) > 1 and dpath[:-1] not in dirs:
                dirs = dirs + [dpath[:-1]]
            if not any(f["path"] == dpath for f in files):
                files.append({"path": dpath, "doc": {"t": "text", "cs": [
                    {"rule": self.gen_rule(rng, rng.choice(["c0", "decoy"]), [], [], toks)}]}})
                files[-1]["doc"]["cs"][0]["rule"]["bad"] = False
        style = rng.below(3)
        calls = []

        def from_cwd(path):
            return self.rel_text(rng, cwd, path, dirs, 9)
        if style == 0:      # one graph: a top-level file includes every main
            files.append({"path": ["top.yar"], "doc": {"t": "text", "cs": [{"inc": "/".join(d + ["main.yar"])} for d in tops]}})
            calls.append({"kind": "file", "path": from_cwd(["top.yar"]), "ns": rng.choice([None, "ns1"])})
        else:               # several calls on one compiler, same or different namespaces
            nss = [None] * len(tops) if style == 1 else [None, "ns1", "ns2"][:len(tops)]
            for d, ns in zip(tops, nss):
                if rng.chance(1, 4):
                    calls.append({"kind": "str", "doc": {"t": "text", "cs": [{"inc": from_cwd(d + ["main.yar"])}]}, "ns": ns})
                else:
                    calls.append({"kind": "file", "path": from_cwd(d + ["main.yar"]), "ns": ns})
        return {"mode": "fs", "shape": "samename", "cwd": cwd, "dirs": dirs, "files": files, "cb": [], "calls": calls,
                "scan": " ".join(t for t in toks if rng.chance(1, 2)), "use_cb": False}

    def gen_many(self, rng, variant):
        """One compiler fed only through the `_in_namespace` calls, following more than 10000 directives in total:
        every call must be accepted like its inlined text (the leaf only imports a module, so it may be included
        any number of times)."""
        leaf = {"t": "text", "cs": [{"imp": "math"}]}
        many = {"t": "text", "cs": [{"inc": "leaf.yar"}] * 80}
        files = [{"path": ["leaf.yar"], "doc": leaf}, {"path": ["many.yar"], "doc": many}]
        if variant == 0:
            calls = [{"kind": "file", "path": "many.yar", "ns": "ns1"} for _ in range(130)]
        else:
            doc = {"t": "text", "cs": [{"inc": "many.yar"}] * 25 + [
                {"rule": self.gen_rule(rng, "r", [], ["math"], ["tokA"])}]}
            doc["cs"][-1]["rule"].update({"bad": False, "global": False, "mods": ["math"], "deps": [], "wild": []})
            calls = [{"kind": "str", "doc": doc, "ns": "ns%d" % i} for i in range(6)]
        return {"mode": "fs", "shape": "many", "cwd": [], "dirs": [], "files": files, "cb": [], "calls": calls,
                "scan": "tokA", "use_cb": False}

    def gen_globals(self, rng):
        """Global rules WITH STRINGS on both sides of a directive: before it in the including document and in the
        target (and deeper), with conditions `$a` / `not $a` over different tokens, so that a scan tells which rule
        is evaluated with which string; file-system and callback mode."""
        toks = ["tokA", "tokB", "tokC", "tokD"]
        mode = rng.choice(["fs", "fs", "callback"])
        depth = rng.range(1, 3)
        k = [0]

        def grule(name):
            r = self.gen_rule(rng, name, [], [], toks)
            r.update({"global": True, "private": rng.chance(1, 8), "bad": False, "deps": [], "mods": [], "wild": [],
                      "tok": toks[k[0] % len(toks)], "neg": rng.chance(1, 2)})
            k[0] += 1
            return {"rule": r}

        def nrule(name):
            r = self.gen_rule(rng, name, [], [], toks)
            r.update({"global": False, "bad": False, "deps": [], "mods": [], "wild": [], "tok": rng.choice(toks + [None]),
                      "neg": rng.chance(1, 4)})
            return {"rule": r}
        files = []
        for lvl in range(depth + 1):
            cs = []
            layout = rng.below(4)
            if layout != 3:
                cs.append(grule("g%d" % lvl))                 # a global rule with a string BEFORE the directive
            if layout == 1:
                cs.append(grule("h%d" % lvl))
            if rng.chance(1, 2):
                cs.append(nrule("n%d" % lvl))
            if lvl < depth:
                cs.append({"inc": "f%d.yar" % (lvl + 1)})
            if layout in (2, 3):
                cs.append(grule("k%d" % lvl))                 # and / or after it
            cs.append(nrule("m%d" % lvl))
            files.append({"path": ["f%d.yar" % lvl], "doc": {"t": "text", "cs": cs}})
        cb = []
        if mode == "callback":
            cb = [{"name": "f%d.yar" % i, "cur_any": True, "cur": None, "ns": None, "doc": files[i]["doc"]}
                  for i in range(1, depth + 1)]
        calls = [{"kind": "file", "path": "f0.yar", "ns": rng.choice([None, "ns1"])}]
        if rng.chance(1, 3):
            calls.append({"kind": "str", "doc": {"t": "text", "cs": [nrule("top")]}, "ns": calls[0]["ns"]})
        present = [t for t in toks if rng.chance(1, 2)]
        if rng.chance(2, 3):
            # a scan on which every global rule holds when it is evaluated with its OWN string
            want = {}
            for f in files:
                for c in f["doc"]["cs"]:
                    if "rule" in c and c["rule"]["global"]:
                        want.setdefault(c["rule"]["tok"], set()).add(not c["rule"]["neg"])
            if all(len(v) == 1 for v in want.values()):
                present = [t for t in toks if (True in want[t] if t in want else rng.chance(1, 2))]
        return {"mode": mode, "shape": "globals", "cwd": [], "dirs": [], "files": files, "cb": cb, "calls": calls,
                "scan": " ".join(present), "use_cb": mode == "callback"}

    SETTERS = ["parse_expression_recursion_limit", "parse_string_recursion_limit", "max_condition_depth",
               "fail_on_warnings", "compute_statistics", "max_strings_per_rule", "disable_unknown_escape_warning"]

    def with_param_order(self, rng, case):
        """the compiler parameters are set through the builder methods in a random order (default values):
        disable_includes(true) must refuse every directive wherever it stands in the sequence, and a graph compiled
        with includes enabled must not be affected by the other setters"""
        if rng.chance(1, 4):
            return case                        # the historical way: only disable_includes when disabled
        k = rng.range(1, len(self.SETTERS))
        order = rng.shuffle(self.SETTERS)[:k]
        if case["mode"] == "disabled" or rng.chance(1, 2):
            order.insert(rng.below(len(order) + 1), "disable_includes")
        case["param_order"] = order
        return case

    def generate(self, ctx, rng, n):
        return [self.with_param_order(rng.fork("p%d" % i), c) for i, c in enumerate(self.generate0(ctx, rng, n))]

    def generate0(self, ctx, rng, n):
        out = []
        for i in range(n):
            r = rng.fork("c%d" % i)
            if i in (10, 20):
                out.append(self.gen_many(r, 0 if i == 10 else 1))
                continue
            out.append(self.gen_samename(r) if i % 8 == 3 else self.gen_globals(r) if i % 8 == 6 else self.gen_case(r))
        return out

    def budget(self, tier):
        return 300 if tier == "quick" else 6000

    def corpus(self, ctx):
        out = []
        d = os.path.join(core.VERIF, "corpus", "C20")
        if os.path.isdir(d):
            for f in sorted(os.listdir(d)):
                if f.endswith(".json"):
                    out.append(core.load_case_file(os.path.join(d, f))["case"])
        return out

    # ---------------------------------------------------------------- execution
    def materialise(self, root, case):
        os.makedirs(root, exist_ok=True)
        for d in case["dirs"]:
            os.makedirs(os.path.join(root, *d), exist_ok=True)
        for f in case["files"]:
            p = os.path.join(root, *f["path"])
            os.makedirs(os.path.dirname(p), exist_ok=True)
            open(p, "wb").write(doc_bytes(f["doc"], root))

    def uses_cb(self, case):
        return case["mode"] == "callback" or bool(case.get("use_cb"))

    def cb_lookup(self, case, name, cur, ns, root):
        for e in case["cb"]:
            if e["name"].replace(ROOT, root) != name:
                continue
            if not e["cur_any"] and (None if e["cur"] is None else e["cur"].replace(ROOT, root)) != cur:
                continue
            if e["ns"] is not None and e["ns"] != ns:
                continue
            return e
        return None

    def flatten(self, case, root, doc, cur, depth, ns, parts, log):
        """Textual inlining in document order; returns None when defined everywhere, else the error kind expected
        at the first place where it is not.  `cur` = None | ("raw", s) | ("canon", abs)."""
        if doc["t"] == "bad":
            return "parse"
        if doc["t"] == "notutf8":
            return "io"
        cwd_abs = os.path.join(root, *case["cwd"])
        for c in doc["cs"]:
            if "inc" not in c:
                parts.append(render_comp(c, root))
                continue
            if case["mode"] == "disabled":
                return "unauthorized"
            if depth >= case.get("limit", MAX_DEPTH):
                return "too_deep"
            name = c["inc"].replace(ROOT, root)
            if case["mode"] == "callback":
                cur_s = None if cur is None else cur[1]
                log.append([name, cur_s, ns or "default"])
                e = self.cb_lookup(case, name, cur_s, ns or "default", root)
                if e is None or e["doc"] is None:
                    return "invalid_include"
                k = self.flatten(case, root, e["doc"], ("raw", name), depth + 1, ns, parts, log)
            else:
                if cur is None:
                    base = cwd_abs
                elif cur[0] == "raw":
                    base = os.path.join(cwd_abs, os.path.dirname(cur[1]))
                else:
                    base = os.path.dirname(cur[1])
                joined = os.path.join(base, name)
                try:
                    os.stat(joined)
                except OSError:
                    return "invalid_include"
                real = os.path.realpath(joined)
                if os.path.isdir(real):
                    return "io"
                rel = os.path.relpath(real, root).split("/")
                d2 = next((f["doc"] for f in case["files"] if f["path"] == rel), None)
                if d2 is None:
                    raise RuntimeError("generated include escapes the case root: %s" % joined)
                k = self.flatten(case, root, d2, ("canon", real), depth + 1, ns, parts, log)
            if k:
                return k
        return None

    def expected(self, case, root):
        """per call: (inlined prefix text, expected kind after the prefix or None, expected callback invocations)"""
        out = []
        cwd_abs = os.path.join(root, *case["cwd"])
        for k in case["calls"]:
            parts, log = [], []
            if k["kind"] == "file":
                p = os.path.join(cwd_abs, k["path"].replace(ROOT, root))
                try:
                    os.stat(p)
                    real = os.path.realpath(p)
                    isdir = os.path.isdir(real)
                except OSError:
                    real, isdir = None, False
                if real is None or isdir:
                    out.append(("", "io", []))
                    continue
                rel = os.path.relpath(real, root).split("/")
                doc = next((f["doc"] for f in case["files"] if f["path"] == rel), None)
                if doc is None:
                    raise RuntimeError("top-level path escapes the case root")
                kind = self.flatten(case, root, doc, ("raw", k["path"].replace(ROOT, root)), 0, k["ns"], parts, log)
            else:
                kind = self.flatten(case, root, k["doc"], None, 0, k["ns"], parts, log)
            out.append(("".join(parts), kind, log))
        return out

    def execute(self, ctx, cases):
        base = os.path.join(WORK, "c20_%d" % os.getpid())
        ctx.workdir = base
        hc = []
        exps = []
        for i, c in enumerate(cases):
            root = os.path.join(base, "%d" % i, "root")
            self.materialise(root, c)
            exp = self.expected(c, root)
            exps.append((root, exp))
            calls = []
            for k in c["calls"]:
                if k["kind"] == "file":
                    calls.append({"kind": "file", "path": k["path"].replace(ROOT, root), "ns": k["ns"]})
                else:
                    calls.append({"kind": "str", "text": render_doc(k["doc"], root), "ns": k["ns"]})
            cb = [{"name": e["name"].replace(ROOT, root), "cur_any": e["cur_any"],
                   "cur": None if e["cur"] is None else e["cur"].replace(ROOT, root), "ns": e["ns"],
                   "text": None if e["doc"] is None else render_doc(e["doc"], root)} for e in c["cb"]]
            hc.append({"chdir": os.path.join(root, *c["cwd"]), "mode": c["mode"], "cb": cb, "calls": calls,
                       "param_order": c.get("param_order"),
                       "use_cb": self.uses_cb(c),
                       "inline_calls": [{"text": t, "ns": k["ns"]} for (t, _, _), k in zip(exp, c["calls"])],
                       "scan_hex": c["scan"].encode().hex(), "wall_s": 30})
            ctx.count("mode=" + c["mode"])
            ctx.count("shape=" + c.get("shape", "corpus"))
            ctx.count("calls=%d" % len(c["calls"]))
        outs = core.harness_run(ctx.binp, "c20", hc)
        res = []
        for c, o, (root, exp) in zip(cases, outs, exps):
            if isinstance(o, dict):
                o = dict(o)
                o["expected"] = [k for _, k, _ in exp]
                o["expected_logs"] = [l for _, _, l in exp]
                o["root"] = root
                impl = o.get("impl") or {}
                for r in impl.get("results", []) if isinstance(impl, dict) else []:
                    ctx.count("result=" + ("ok" if r is None else str(r).split(":")[0]))
                if isinstance(impl, dict) and "crash" in impl:
                    ctx.count("result=CRASH")
            res.append(o)
        return res

    def cleanup(self, ctx):
        if getattr(ctx, "workdir", None):
            shutil.rmtree(ctx.workdir, ignore_errors=True)

    # ---------------------------------------------------------------- Coq term
    def g_rule(self, r, scan):
        val = (r["tok"] is None) or ((r["tok"] in scan) != bool(r.get("neg")))
        return ("{| r_name := %s; r_global := %s; r_private := %s; r_deps := %s; r_mods := %s; r_wild := %s; "
                "r_bad := %s; r_val := %s |}" % (gstr(r["name"]), gbool(r["global"]), gbool(r["private"]),
                                                 glist([gstr(x) for x in r["deps"]]), glist([gstr(x) for x in r["mods"]]),
                                                 glist([gstr(x) for x in r["wild"]]), gbool(r["bad"]), gbool(val)))

    def g_doc(self, doc, scan):
        if doc["t"] == "bad":
            return "FBadSyntax"
        if doc["t"] == "notutf8":
            return "FNotUtf8"
        cs = []
        for c in doc["cs"]:
            if "inc" in c:
                cs.append("inl %s" % gstr(c["inc"].replace(ROOT, "")))
            elif "imp" in c:
                cs.append("inr (PImport %s)" % gstr(c["imp"]))
            else:
                cs.append("inr (PRule %s)" % self.g_rule(c["rule"], scan))
        return "(FText %s)" % glist(cs)

    def g_path(self, p):
        return glist([gstr(x) for x in p])

    def g_kind(self, k):
        return "None" if k is None else "(Some %s)" % KIND[k]

    def g_outcome(self, o, root):
        def unroot(s):
            return s.replace(root, "")
        return "{| o_results := %s; o_rules := %s; o_matched := %s; o_log := %s |}" % (
            glist([self.g_kind(k) for k in o["results"]]),
            glist([gpair(gstr(a), gstr(b), gbool(g), gbool(p)) for a, b, g, p in o["rules"]]),
            glist([gpair(gstr(a), gstr(b)) for a, b in o["matched"]]),
            glist([gpair(gstr(unroot(n)), gopt(c, lambda v: gstr(unroot(v))), gstr(ns)) for n, c, ns in o["log"]]))

    def term(self, ctx, case, out):
        if not isinstance(out, dict) or "impl" not in out:
            return (False, False, 0)
        impl, inl = out["impl"], out["inline"]
        if not isinstance(impl, dict) or "crash" in impl or "results" not in impl:
            return (False, False, 0)           # stack overflow / abort / timeout: the failing input
        if not isinstance(inl, dict) or "results" not in inl:
            return (False, False, 0)
        for o in (impl, inl):
            if any(k is not None and k not in KIND for k in o["results"]):
                return (False, False, 0)       # an error kind the model does not know
        scan = case["scan"]
        nodes = [gpair(self.g_path(d), "NDir") for d in case["dirs"]]
        nodes += [gpair(self.g_path(f["path"]), "(NFile %s)" % self.g_doc(f["doc"], scan)) for f in case["files"]]
        if self.uses_cb(case):
            ents = []
            for e in case["cb"]:
                ents.append("{| cb_name := %s; cb_cur := %s; cb_ns := %s; cb_res := %s |}" % (
                    gstr(e["name"].replace(ROOT, "")),
                    "None" if e["cur_any"] else "(Some %s)" % gopt(e["cur"], lambda v: gstr(v.replace(ROOT, ""))),
                    gopt(e["ns"], gstr), "None" if e["doc"] is None else "(Some %s)" % self.g_doc(e["doc"], scan)))
            cbt = "(Some %s)" % glist(ents)
        else:
            cbt = "None"
        env = "{| e_fs := %s; e_cwd := %s; e_cb := %s; e_disabled := %s |}" % (
            glist(nodes), self.g_path(case["cwd"]), cbt, gbool(case["mode"] == "disabled"))
        calls = []
        for k in case["calls"]:
            ns = gstr(k["ns"] or "default")
            if k["kind"] == "file":
                calls.append("AddFile _ %s %s" % (gstr(k["path"].replace(ROOT, "")), ns))
            else:
                calls.append("AddStr _ %s %s" % (self.g_doc(k["doc"], scan), ns))
        root = out["root"]

        def g_log(l):
            return glist([gpair(gstr(n.replace(root, "").replace(ROOT, "")),
                                gopt(c, lambda v: gstr(v.replace(root, "").replace(ROOT, ""))), gstr(ns))
                          for n, c, ns in l])
        marks = [0] + list(impl.get("log_marks", []))
        ilogs = [impl["log"][marks[i]:marks[i + 1]] for i in range(len(marks) - 1)]
        return "C20_case %s %s %s %s %s %s %s" % (env, glist(calls), self.g_outcome(impl, root),
                                                  self.g_outcome(inl, root),
                                                  glist([self.g_kind(k) for k in out["expected"]]),
                                                  glist([g_log(l) for l in ilogs]),
                                                  glist([g_log(l) for l in out["expected_logs"]]))

    def nontrivial(self, case, out):
        has_inc = any("inc" in c for f in case["files"] for c in f["doc"].get("cs", [])) or \
            any("inc" in c for k in case["calls"] if k["kind"] == "str" for c in k["doc"].get("cs", []))
        if not has_inc or not isinstance(out, dict):
            return None
        return json.dumps(case, sort_keys=True)

    def sample(self, case, out):
        o = dict(out or {})
        o.pop("root", None)
        return {"case": case, "impl": o.get("impl"), "inline": o.get("inline"), "expected": o.get("expected")}


PROP = C20()
