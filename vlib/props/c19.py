# C19 — process-memory walk: chunking, fetch cap, reset, pagemap decision, fetched bytes = process view.
import os, shutil, struct, json
from .. import core
from ..core import gN, gbool, glist, gbytes, gopt, gpair
from ..runner import Prop

WORK = os.path.join(core.VERIF, ".work")


class C19(Prop):
    ID = "C19"
    LEVEL = "proof"
    COQ_TARGETS = ["theories/Properties/C19.vo"]
    MODEL_TARGETS = ["theories/Model/Process.vo", "theories/Spec/ProcessSpec.vo", "theories/Model/ProcessCase.vo"]
    CASE_HEADER = "From Boreal Require Import Base.Prelude Model.Process Spec.ProcessSpec Model.ProcessCase."
    HARNESS_BINS = ("c19", "c19e")
    KF = {}
    RULE = ("synthetic /proc/<pid>/{maps,mem,pagemap} and backing files are materialised on disk and walked by the real "
            "LinuxProcessMemory (hook verif_process_memory) with a generated op sequence over next/fetch/reset; page "
            "sizes 16..4096, chunk sizes none / page multiples / non-multiples below and above the page size / 1 / "
            "usize::MAX, fetch caps around the page and region size, anonymous and file-backed regions with clean and "
            "privately-modified pages, files shorter than the mapping, unreadable mappings, short mem/pagemap files. "
            "Non-trivial: at least two chunks or a file-backed fetch or a reset after a partial walk; distinct by "
            "(params, layout, ops).")
    TRUSTED = ["Coq 8.16.1 kernel + vm_compute", "harness/src/c19.rs", "vlib/props/c19.py (materialises files, prints "
               "the case as a Gallina term; filters unreadable maps lines like parse_map_line)",
               "hook verif_process_memory (constructs the real LinuxProcessMemory over given files)"]
    ASSUMPTIONS = ["procfs behaviour (maps format, pagemap bit layout, read_exact on /proc/pid/mem) is as documented in "
                   "proc(5); the victim does not change between listing and fetch",
                   "end-to-end: a cooperating victim process (private and shared anonymous mappings, private and shared mappings of files of the work directory and of /dev/shm, needles near "
                   "page and chunk boundaries, pages modified after mapping) is scanned through the real /proc with "
                   "Scanner::scan_process: 8 layouts x 4 settings in the quick tier, 200 x 4 in the thorough tier"]

    # ---------------------------------------------------------------- generation
    def gen_case(self, rng):
        page = rng.choice([16, 16, 32, 64, 48, 256])
        kind = rng.below(10)
        if kind < 2:
            chunk = None
        else:
            chunk = rng.choice([page, 2 * page, 3 * page, page - 1, page + 1, page // 2, 1, 2 * page + 5, page * 2 - 1,
                                5000, 1000, 18446744073709551615, 18446744073709551615 - 5, rng.range(1, 5 * page)])
        max_fetch = rng.choice([page, 2 * page, page - 1, 1, 3 * page + 1, 1 << 20, 1 << 30, rng.range(1, 6 * page),
                                18446744073709551615])
        nreg = rng.range(1, 4)
        # now and then one file-backed mapping of more than 512 pages fetched in one piece (pagemap entries are
        # then far from the start of the chunk), with a few modified pages beyond the 512th
        big = rng.chance(1, 40)
        if big:
            page, nreg = 16, 1
            chunk = rng.choice([None, page * 600, page * 1000, 1 << 20])
            max_fetch = 1 << 30
        regions, addr = [], page * rng.range(1, 8)
        mem_segs, pm_bits = [], []
        for i in range(nreg):
            addr += page * rng.range(0, 3)
            npages = rng.range(1, 6) if not big else rng.range(515, 640)
            ln = npages * page
            if rng.chance(1, 8) and not big:
                ln += rng.range(1, page - 1)   # not a page multiple (never the case in a real listing)
            readable = big or not rng.chance(1, 8)
            backed = big or (readable and rng.chance(2, 5))
            reg = {"start": addr, "len": ln, "readable": readable, "backed": backed, "foff": 0, "file_hex": ""}
            view = bytearray(rng.bytes(ln))
            prev = regions[-1] if regions else None
            if backed and prev is not None and prev["backed"] and rng.chance(2, 5):
                # another mapping of the file of the previous region (as the segments of one library are): same
                # path, device and inode, its own offset
                fbytes = bytearray(bytes.fromhex(prev["file_hex"]))
                flen = len(fbytes)
                # (an offset at or beyond the end of the file would make the file unusable for this mapping:
                # `metadata.len() > offset` is required before it is opened; the generator keeps it inside)
                cands = [o for o in (prev["foff"] + (prev["len"] + page - 1) // page * page, page * rng.range(0, 3), 0)
                         if o < flen]
                foff = rng.choice(cands)
                reg["foff"] = foff
                reg["file_hex"] = prev["file_hex"]
                reg["file_of"] = prev.get("file_of", len(regions) - 1)
            elif backed:
                foff = page * rng.range(0, 2)
                flen_kind = rng.below(4)
                if flen_kind == 0:
                    flen = foff + ln                      # exactly covers
                elif flen_kind == 1:
                    flen = foff + rng.range(1, ln)        # shorter than the mapping: zero fill
                elif flen_kind == 2:
                    flen = foff + ln + rng.range(1, 2 * page)
                else:
                    flen = foff + rng.range(1, ln + page)
                fbytes = bytearray(rng.bytes(flen))
                reg["foff"] = foff
                reg["file_hex"] = bytes(fbytes).hex()
            if backed:
                # process view: file content zero-filled, except privately modified pages
                for p in range((ln + page - 1) // page):
                    lo, hi = p * page, min((p + 1) * page, ln)
                    dirty = rng.chance(1, 3) if not big else (p >= 512 and rng.chance(1, 12)) or rng.chance(1, 60)
                    if not dirty:
                        for k in range(lo, hi):
                            fo = foff + k
                            view[k] = fbytes[fo] if fo < flen else 0
                        bits = rng.choice([0, 1, 2, 3, 10, 11, 14, 15, 6, 7])
                    else:
                        bits = rng.choice([8, 9, 4, 5, 12, 13])
                    if hi - lo < page:
                        # a trailing partial page is never re-read: keep it clean
                        for k in range(lo, hi):
                            fo = foff + k
                            view[k] = fbytes[fo] if fo < flen else 0
                        bits = 0
                    pm_bits.append([(addr + lo) // page, bits])
            if readable:
                mem_segs.append([addr, bytes(view).hex()])
            regions.append(reg)
            addr += ln
            addr = (addr + page - 1) // page * page   # mappings start on page boundaries
        mem_size = addr + page if not rng.chance(1, 10) else rng.range(regions[0]["start"], addr)
        pm_entries = addr // page + 2 if not rng.chance(1, 12) else rng.range(0, addr // page)
        # ops
        style = rng.below(4)
        total_chunks = 40
        ops = []
        if style == 0:      # full walk, fetch everything
            for _ in range(total_chunks):
                ops += ["next", "fetch"]
        elif style == 1:    # partial walk, reset, full walk
            for _ in range(rng.range(1, 6)):
                ops += ["next"] + (["fetch"] if rng.chance(1, 2) else [])
            ops += ["reset"]
            for _ in range(total_chunks):
                ops += ["next", "fetch"]
        elif style == 2:    # random
            for _ in range(rng.range(5, 60)):
                ops.append(rng.choice(["next", "next", "next", "fetch", "fetch", "reset"]))
        else:               # fetch before next, double fetch, walk past the end, then reset and walk again
            ops = ["fetch", "next", "fetch", "fetch"] + ["next"] * rng.range(1, 30) + ["fetch", "next", "reset", "next", "fetch"]
        return {"page": page, "chunk": chunk, "max_fetch": max_fetch, "regions": regions, "mem_size": mem_size,
                "mem_segs": mem_segs, "pm_entries": pm_entries, "pm_bits": pm_bits, "ops": ops}

    def gen_e2e(self, rng):
        """A live victim process: mappings with needles at controlled distances from page / chunk boundaries."""
        NL = 12
        maps = []
        for i in range(rng.range(1, 3)):
            pages = rng.range(1, 5)
            ln = pages * 4096
            kind = rng.choice(["anon", "anon_shared", "file_private", "file_private", "file_shared"])
            cands = sorted(set([rng.choice([0, 1, 10, 4096 - NL, 4096 - NL + 1, 4090, 4095, 4096, 4097, 8192 - 6, 8192,
                                            ln - NL, ln - NL - 1, rng.range(0, ln - NL)]) for _ in range(rng.range(2, 6))]))
            offs = []
            for o in cands:
                if 0 <= o <= ln - NL and all(abs(o - p) >= NL for p in offs):
                    offs.append(o)
            m = {"kind": kind, "pages": pages, "plant": [], "erase": [], "disk_needles": [], "file_len": 0}
            if kind in ("anon", "anon_shared"):
                m["plant"] = offs
                present = list(offs)
            else:
                flen = rng.choice([ln, ln - rng.range(1, 4095), ln + 100])
                m["file_len"] = flen
                m["foff_pages"] = rng.choice([0, 0, 1, 3])   # the mapping starts this far into its file
                if rng.chance(1, 3):
                    m["dir"] = "shm"                         # a POSIX shared memory object (a file of /dev/shm)
                disk, plant, erase = [], [], []
                for o in offs:
                    c = rng.below(3)
                    if c == 0 and o + NL <= flen:
                        disk.append(o)                       # on disk, untouched in memory
                    elif c == 1 and o + NL <= flen:
                        disk.append(o); erase.append(o)      # on disk, erased by the process
                    else:
                        plant.append(o)                      # written by the process only
                m["disk_needles"], m["plant"], m["erase"] = disk, plant, erase
                present = sorted([o for o in disk if o not in erase] + plant)
                if kind == "file_private" and flen >= ln and "dir" not in m and rng.chance(2, 3):
                    # the file is deleted once mapped and another file takes the name the kernel then lists
                    # (`<path> (deleted)`), with the needle where the mapping does not have it
                    m["lookalike"] = True
                    m["decoys"] = [o for o in [50, 4096 + 300, 8192 + 700, 12288 + 40]
                                   if o + NL <= ln and all(abs(o - q) >= NL for q in disk + plant)]
            m["present"] = sorted(present)
            maps.append(m)
        configs = [{}]
        for _ in range(3):
            c = {}
            if rng.chance(3, 4):
                c["chunk"] = rng.choice([4096, 8192, 5000, 1000, 4097, 12288, 1, 4095])
            if rng.chance(1, 2):
                c["max_fetch"] = rng.choice([4096, 8192, 5000, 100, 12288])
            configs.append(c)
        return {"kind": "e2e", "mappings": maps, "configs": configs}

    def generate(self, ctx, rng, n):
        cases = [self.gen_case(rng.fork("c%d" % i)) for i in range(n)]
        ne = 8 if ctx.tier == "quick" else 200
        return cases + [self.gen_e2e(rng.fork("e%d" % i)) for i in range(ne)]

    def budget(self, tier):
        return 320 if tier == "quick" else 6000

    def corpus(self, ctx):
        out = []
        d = os.path.join(core.VERIF, "corpus", "C19")
        if os.path.isdir(d):
            for f in sorted(os.listdir(d)):
                if f.endswith(".json"):
                    out.append(core.load_case_file(os.path.join(d, f))["case"])
        return out

    # ---------------------------------------------------------------- execution
    def materialise(self, d, case):
        os.makedirs(d, exist_ok=True)
        lines = []
        for i, r in enumerate(case["regions"]):
            perms = "r--p" if r["readable"] else "---p"
            if r["backed"]:
                fp = os.path.join(d, "back%d" % r.get("file_of", i))
                if "file_of" not in r:
                    open(fp, "wb").write(bytes.fromhex(r["file_hex"]))
                st = os.stat(fp)
                lines.append("%08x-%08x %s %08x %02x:%02x %d                  %s\n" % (
                    r["start"], r["start"] + r["len"], perms, r["foff"], os.major(st.st_dev), os.minor(st.st_dev),
                    st.st_ino, fp))
            else:
                lines.append("%08x-%08x %s 00000000 00:00 0 \n" % (r["start"], r["start"] + r["len"], perms))
        open(os.path.join(d, "maps"), "w").write("".join(lines))
        with open(os.path.join(d, "mem"), "wb") as f:
            f.truncate(case["mem_size"])
            for a, hx in case["mem_segs"]:
                b = bytes.fromhex(hx)
                if a + len(b) <= case["mem_size"]:
                    f.seek(a)
                    f.write(b)
                elif a < case["mem_size"]:
                    f.seek(a)
                    f.write(b[:case["mem_size"] - a])
        with open(os.path.join(d, "pagemap"), "wb") as f:
            f.truncate(case["pm_entries"] * 8)
            for idx, bits in case["pm_bits"]:
                if idx < case["pm_entries"]:
                    f.seek(idx * 8)
                    low = (idx * 0x9E3779B97F4A7C15) & ((1 << 55) - 1)   # PFN / soft-dirty garbage in the low bits
                    f.write(struct.pack("<Q", (bits << 60) | low))

    def execute(self, ctx, cases):
        base = os.path.join(WORK, "c19_%d" % os.getpid())
        ctx.workdir = base
        os.makedirs(base, exist_ok=True)
        e2e_ix = [i for i, c in enumerate(cases) if c.get("kind") == "e2e"]
        e2e_out = core.harness_run(ctx.binp, "c19e", [dict(cases[i], workdir=base) for i in e2e_ix], shards=4)
        syn_ix = [i for i, c in enumerate(cases) if c.get("kind") != "e2e"]
        syn_out = self.execute_synthetic(ctx, [cases[i] for i in syn_ix], base)
        outs = [None] * len(cases)
        for i, o in zip(e2e_ix, e2e_out):
            outs[i] = o
            ctx.count("e2e victim")
        for i, o in zip(syn_ix, syn_out):
            outs[i] = o
        return outs

    def execute_synthetic(self, ctx, cases, base):
        hc = []
        for i, c in enumerate(cases):
            d = os.path.join(base, "%d" % i)
            self.materialise(d, c)
            hc.append({"maps": os.path.join(d, "maps"), "mem": os.path.join(d, "mem"),
                       "pagemap": os.path.join(d, "pagemap"), "page": c["page"], "chunk": c["chunk"],
                       "max_fetch": c["max_fetch"], "ops": c["ops"]})
        outs = core.harness_run(ctx.binp, "c19", hc)
        for c in cases:
            ctx.count("page=%d" % c["page"])
            ctx.count("chunk=" + ("none" if c["chunk"] is None else "page-multiple" if c["chunk"] % c["page"] == 0
                                  else "below-page" if c["chunk"] < c["page"] else "non-multiple"))
            ctx.count("regions=%d" % len(c["regions"]))
            ctx.count("backed=%d" % sum(1 for r in c["regions"] if r["backed"]))
        return outs

    def cleanup(self, ctx):
        if getattr(ctx, "workdir", None):
            shutil.rmtree(ctx.workdir, ignore_errors=True)

    # ---------------------------------------------------------------- Coq term
    def g_region(self, r):
        return "{| r_start := %d; r_len := %d; r_backed := %s; r_foff := %d; r_file := %s |}" % (
            r["start"], r["len"], gbool(r["backed"]), r["foff"], gbytes(bytes.fromhex(r["file_hex"])))

    def term_e2e(self, ctx, case, out):
        if not isinstance(out, dict) or "results" not in out:
            return (False, False, 0)
        terms = []
        for cfg, res in zip(case["configs"], out["results"]):
            if res.get("error"):
                return (False, False, 0)
            prm = "{| chunk := %s; max_fetch := %d; page := 4096 |}" % (
                gopt(cfg.get("chunk"), gN), cfg.get("max_fetch", 1024 * 1024 * 1024))
            NL = out["needle_len"]
            def tail(m):
                # Needles written by the process through a shared file mapping, not wholly inside the file: the
                # former class C19-shared-tail-beyond-eof.  Since its repair (the present page holding the end of
                # the file is re-read from the process) they are found like any other; nothing is set aside.
                return []
            def is_tail(m):
                return m["kind"] == "file_shared" and any(o + NL > m["file_len"] for o in m["plant"])
            maps = glist("(%d, %s, %s, %s)" % (m["pages"] * 4096, glist("%d" % x for x in m["present"]),
                                              glist("%d" % x for x in sorted(f)), glist("%d" % x for x in tail(m)))
                         for m, f in zip(case["mappings"], res["found"]))
            if any(m.get("lookalike") for m in case["mappings"]):
                ctx.count("e2e: backing file deleted, another file under the listed name")
            if any(is_tail(m) for m in case["mappings"]):
                ctx.count("e2e: needle written beyond the end of a shared file")
            terms.append("C19e_case %s %d %s" % (prm, out["needle_len"], maps))
        return ("(fold_right (fun t acc => let '(a, b, k) := t in let '(a', b', k') := acc in "
                "(a && a', b && b', N.max k k')) (true, true, 0) %s)" % glist(terms))

    def term(self, ctx, case, out):
        if case.get("kind") == "e2e":
            return self.term_e2e(ctx, case, out)
        if not isinstance(out, dict) or "outs" not in out:
            return (False, False, 0)
        regs = glist([self.g_region(r) for r in case["regions"] if r["readable"]])
        prm = "{| chunk := %s; max_fetch := %d; page := %d |}" % (gopt(case["chunk"], gN), case["max_fetch"], case["page"])
        segs = []
        for a, hx in case["mem_segs"]:
            b = bytes.fromhex(hx)
            b = b[:max(0, case["mem_size"] - a)]
            segs.append(gpair(gN(a), gbytes(b)))
        fs = "{| mem_size := %d; mem_segs := %s; pm_entries := %d; pm_bits := %s |}" % (
            case["mem_size"], glist(segs), case["pm_entries"],
            glist([gpair(gN(i), gN(b)) for i, b in case["pm_bits"] if i < case["pm_entries"]]))
        ops = glist({"next": "PNext", "fetch": "PFetch", "reset": "PReset"}[o] for o in case["ops"])
        outs = []
        for o in out["outs"]:
            t = o["t"]
            if t == "none":
                outs.append("ONone")
            elif t == "unit":
                outs.append("OUnit")
            elif t == "desc":
                outs.append("ODesc %d %d" % (o["start"], o["len"]))
            else:
                outs.append("OFetched %d %s" % (o["start"], gbytes(bytes.fromhex(o["hex"]))))
        return "C19_case %s %s %s %s %s" % (fs, prm, regs, ops, glist(outs))

    def nontrivial(self, case, out):
        if case.get("kind") == "e2e":
            return json.dumps(case, sort_keys=True) if isinstance(out, dict) and "results" in out else None
        if not isinstance(out, dict) or "outs" not in out:
            return None
        descs = [o for o in out["outs"] if o["t"] == "desc"]
        fetched_backed = any(r["backed"] for r in case["regions"]) and any(o["t"] == "fetched" for o in out["outs"])
        reset_mid = "reset" in case["ops"][1:]
        if len(descs) >= 2 or fetched_backed or reset_mid:
            return json.dumps([case["page"], case["chunk"], case["max_fetch"],
                               [(r["start"], r["len"], r["backed"], r["foff"], len(r["file_hex"])) for r in case["regions"]],
                               case["ops"]])
        return None

    def sample(self, case, out):
        if case.get("kind") == "e2e":
            return {"case": case, "impl": out}
        c = dict(case)
        c["regions"] = [{k: (v if k != "file_hex" else v[:32] + "...") for k, v in r.items()} for r in case["regions"]]
        c["mem_segs"] = [[a, h[:32] + "..."] for a, h in case["mem_segs"]]
        o = [{k: (v if k != "hex" else v[:32] + "...") for k, v in x.items()} for x in (out or {}).get("outs", [])[:12]]
        return {"case": c, "impl_first_outputs": o}


PROP = C19()
