# C07 — drop-in conformance with YARA 4.5.5 on valid rules: three-way run (libyara 4.5.5 / boreal / Gallina spec).
#
# One case = one rule file (several rules over 1-2 namespaces, text / hex / regex strings with modifiers, conditions of
# the shared dialect, hash / math / string module probes) + 3 inputs.  The harness crate /verif/harness_yara runs the
# file through libyara (yara crate 0.32, vendored 4.5.5) and through boreal; the case and both observations are printed
# as one Gallina term `C07_case ...` (Model/ConformCase.v) which evaluates
#   (spec_agrees, boreal_agrees, class)
#   spec_agrees   : libyara's per-string matches are the ones Spec/TextSpec.v, Spec/Regex.v (+ Model/Hir.v lowering)
#                   predict, and libyara's rule verdicts are Spec/CondSem.v + Spec/RuleSetSpec.v evaluated on them;
#   boreal_agrees : boreal accepted the file, reports the same rules as matching (with compute_full_matches and with
#                   default parameters), the same offsets per string, the same lengths wherever the spec says the
#                   length at that offset is unique;
#   class         : 0, or the number of a documented deviation / recorded finding the case belongs to.
import json, os, hashlib, zlib
from .. import core, cond
from ..core import gN, gZ, gbool, glist, gbytes, gopt, gpair
from ..runner import Prop
from . import _hir, c01, c02, c03
from .c04 import tup

HY = os.path.join(core.VERIF, "harness_yara")
I64 = 1 << 63
MEM_BOUND = 1 << 16          # generated inputs are far shorter; bound used by the overflow predicate

# deviation / finding classes (numbers shared with Model/ConformCase.v)
K_OVERFLOW, K_SELFREF, K_LIMITS = 1, 2, 3
K_CONTAINS_EMPTY = 4
K_FIXED_OFFSET, K_START_POS, K_FULLWORD_LEN, K_GLOBAL_REFS, K_LIST_UNDEF, K_HIGH_BYTE_ORDER, K_UNDEF_QUANT = \
    10, 11, 12, 13, 14, 15, 16
K_EMPTY_CLASS = 17
K_SPAN_PANIC = 18
K_ALT_FIRST = 19
K_WIDE_ASCII_WB = 20
K_MATH_SIGNED = 21
K_JUMP_ZERO_RANGE = 22

# recorded finding 21 lives in conditions outside the Gallina dialect: its class predicate is on the rule text
import re as _re
MATH_SIGNED_RE = _re.compile(r'math\.(mean|deviation|monte_carlo_pi)\("[^"]*\\x[89a-fA-F][0-9a-fA-F]')


# ------------------------------------------------------------------ printing
class Printer(cond.Printer):
    def y(self, e, depth=0):
        if e[0] == "raw":
            return e[1]
        return super().y(e, depth)


def string_rhs(s):
    k = s["kind"]
    if k == "text":
        d = s["decl"]
        return "%s %s" % (c01.yara_quote(bytes.fromhex(d["text"])), c01.decl_modifiers(d))
    if k == "hex":
        return "{ %s }" % _hir.hex_text(s["toks"])
    mods = s["mods"]
    return "/%s/%s%s%s" % (c03.re_text(s["node"]), "i" if s["ci"] else "", "s" if s["da"] else "",
                           "".join(" " + m for m in ("nocase", "wide", "ascii", "fullword") if mods[m]))


def rule_text(r):
    names = [s["name"] for s in r["strings"]]
    pr = Printer(names)
    txt = "%s%srule %s {\n" % ("global " if r["global"] else "", "private " if r["private"] else "", r["name"])
    if r["strings"]:
        txt += "  strings:\n" + "".join("    $%s = %s\n" % (s["name"], string_rhs(s)) for s in r["strings"])
    txt += "  condition:\n    %s\n}\n" % pr.y(tup(r["cond"]))
    return txt


def harness_rules(case):
    """consecutive rules of one namespace form one source text; module imports in front of every text"""
    if "raw_src" in case:          # acceptance-boundary cases carry their source text
        return [{"ns": None, "src": case["raw_src"]}]
    out = []
    imports = "".join('import "%s"\n' % m for m in case.get("imports", []))
    for r in case["rules"]:
        ns = "ns%d" % r["ns"]
        if out and out[-1]["ns"] == ns and not case.get("split"):
            out[-1]["src"] += rule_text(r)
        else:
            out.append({"ns": ns, "src": imports + rule_text(r)})
    return out


# ------------------------------------------------------------------ Gallina
def g_mods(m):
    return "{| x_nocase := %s; x_wide := %s; x_ascii := %s; x_fullword := %s |}" % (
        gbool(m["nocase"]), gbool(m["wide"]), gbool(m["ascii"]), gbool(m["fullword"]))


def g_string(s):
    k = s["kind"]
    if k == "text":
        return "(SText %s)" % c01.g_decl(s["decl"])
    if k == "hex":
        return "(SHex %s)" % _hir.g_tokens(s["toks"])
    return "(SRegex %s %s %s %s)" % (c03.g_node(s["node"]), gbool(s["ci"]), gbool(s["da"]), g_mods(s["mods"]))


def has_raw(e):
    if isinstance(e, (list, tuple)):
        if e and e[0] == "raw":
            return True
        return any(has_raw(x) for x in e)
    return False


def nlits_of(case, boreal):
    """per rule (declaration order) the number of literals of each string, from the harness' "desc" (strings in
    compilation order: those of global rules first); zeros when the description is missing"""
    desc = (boreal or {}).get("desc") or []
    order = [r for r in case["rules"] if r["global"]] + [r for r in case["rules"] if not r["global"]]
    total = sum(len(r["strings"]) for r in order)
    out, k = {}, 0
    for r in order:
        n = len(r["strings"])
        out[r["id"]] = [(d[0], bool(d[2]) if len(d) > 2 else False) for d in desc[k:k + n]] if len(desc) == total \
            else [(0, False)] * n
        k += n
    return out


def g_rule(r, nlits=None):
    pr = Printer([s["name"] for s in r["strings"]])
    c = tup(r["cond"])
    nl = (nlits or {}).get(r["id"]) or [(0, False)] * len(r["strings"])
    return ("{| c_ns := %d%%nat; c_id := %d; c_global := %s; c_private := %s; c_strings := %s; c_nlits := %s; "
            "c_glue := %s; c_cond := %s |}"
            % (r["ns"], r["id"], gbool(r["global"]), gbool(r["private"]), glist(g_string(s) for s in r["strings"]),
               glist(gN(x[0]) for x in nl), glist(gbool(x[1]) for x in nl), "None" if has_raw(c) else "(Some %s)" % pr.g(c)))


def g_obs(case, scan, default=None):
    """per rule, in declaration order: None (not reported) | Some (matched, per string [(offset, length)])"""
    by = {}
    for x in scan.get("rules", []):
        by[(x["ns"], x["name"])] = x
    out = []
    for r in case["rules"]:
        x = by.get(("ns%d" % r["ns"], r["name"]))
        if x is None:
            out.append("None")
            continue
        sm = {s["name"]: s["matches"] for s in x["strings"]}
        per = glist(glist(gpair(gN(o), gN(l)) for o, l in sm.get(s["name"], [])) for s in r["strings"])
        out.append("(Some (%s, %s))" % (gbool(x["matched"]), per))
    return glist(out)


def g_default(case, scan):
    names = set(scan.get("default", []))
    return glist(gbool("ns%d:%s" % (r["ns"], r["name"]) in names) for r in case["rules"])


# ------------------------------------------------------------------ overflow predicate (mirror of may_overflow in Coq)
def _pow2_above(n):
    return 1 << (max(n, 1).bit_length() + 1)


def ovf_bound(e, stack, flag):
    """upper bound of |value| of an integer-valued expression with unbounded arithmetic; flag[0] set when some
    intermediate value may leave the i64 range (or a shift count / divisor makes the C semantics undefined)."""
    t = e[0]
    b = 0
    if t == "int":
        b = abs(e[1])
    elif t in ("filesize", "count", "countin", "offset", "length"):
        for x in e[1:]:
            if isinstance(x, tuple):
                ovf_bound(x, stack, flag)
        b = MEM_BOUND
    elif t == "readint":
        ovf_bound(e[2], stack, flag)
        b = 1 << 32
    elif t == "bound":
        b = stack[e[1]] if e[1] < len(stack) else I64
    elif t == "un":
        a = ovf_bound(e[2], stack, flag)
        b = a + 1 if e[1] == "bnot" else a
    elif t == "bin":
        op = e[1]
        if op in cond.BIN_INT:
            a = ovf_bound(e[2], stack, flag)
            c = ovf_bound(e[3], stack, flag)
            if op in ("add", "sub"):
                b = a + c
            elif op == "mul":
                b = a * c
            elif op in ("div", "mod", "shr"):
                b = a
            elif op == "shl":
                b = a << min(c, 64)
            else:
                b = _pow2_above(max(a, c))
        else:
            for x in e[2:]:
                if isinstance(x, tuple):
                    ovf_bound(x, stack, flag)
            b = 1
    elif t in ("and", "or"):
        for x in e[1]:
            ovf_bound(x, stack, flag)
        b = 1
    elif t in ("for", "of"):
        if e[2] is not None:
            ovf_bound(e[2], stack, flag)
        if t == "for":
            ovf_bound(e[4], stack, flag)
        b = 1
    elif t == "forrange":
        if e[2] is not None:
            ovf_bound(e[2], stack, flag)
        lo = ovf_bound(e[3], stack, flag)
        hi = ovf_bound(e[4], stack, flag)
        ovf_bound(e[5], stack + [max(lo, hi) + 1], flag)
        b = 1
    elif t == "forlist":
        if e[2] is not None:
            ovf_bound(e[2], stack, flag)
        m = 0
        for x in e[3]:
            m = max(m, ovf_bound(x, stack, flag))
        ovf_bound(e[4], stack + [m], flag)
        b = 1
    elif t == "forrules":
        if e[2] is not None:
            ovf_bound(e[2], stack, flag)
        b = 1
    else:
        for x in e[1:]:
            if isinstance(x, tuple):
                ovf_bound(x, stack, flag)
        b = 1
    if b >= I64:
        flag[0] = True
        b = I64
    return b


def may_overflow(e):
    flag = [False]
    ovf_bound(e, [], flag)
    return flag[0]


# ------------------------------------------------------------------ condition post-processing
def fixed_length(s):
    """the pattern admits a single match length (syntactic)"""
    k = s["kind"]
    if k == "text":
        d = s["decl"]
        return d["b64"] is None and not (d["wide"] and d["ascii"])
    if k == "hex":
        def fl(toks):
            n = 0
            for t in toks:
                if t[0] == "j":
                    if t[2] is None or t[1] != t[2]:
                        return None
                    n += t[1]
                elif t[0] == "alt":
                    ls = {fl(a) for a in t[1]}
                    if len(ls) != 1 or None in ls:
                        return None
                    n += ls.pop()
                else:
                    n += 1
            return n
        return fl(s["toks"]) is not None
    return False


def sanitize(e, strings, sel):
    """`!a[i]` is only kept over strings that admit a single length (the two engines may legitimately pick different
    lengths elsewhere): otherwise it becomes `@a[i]`.  sel: the variables the anonymous string may stand for."""
    if not isinstance(e, tuple):
        return e
    t = e[0]
    if t == "length":
        vs = [e[1]] if e[1] is not None else sel
        ok = all(fixed_length(strings[v]) for v in vs)
        return ("length" if ok else "offset", e[1], sanitize(e[2], strings, sel))
    if t in ("and", "or"):
        return (t, [sanitize(x, strings, sel) for x in e[1]])
    if t == "for":
        return (t, e[1], sanitize(e[2], strings, sel) if e[2] is not None else None, e[3], sanitize(e[4], strings, e[3]))
    if t == "of":
        return (t, e[1], sanitize(e[2], strings, sel) if e[2] is not None else None, e[3])
    if t == "forlist":
        return (t, e[1], sanitize(e[2], strings, sel) if e[2] is not None else None,
                [sanitize(x, strings, sel) for x in e[3]], sanitize(e[4], strings, sel))
    return tuple(sanitize(x, strings, sel) if isinstance(x, tuple) else x for x in e)


def yara_cond(e, in_for=False):
    """restrictions of libyara's grammar that boreal does not have (the generator stays inside what libyara accepts):
    constant ranges must be ordered; `N% of` only without a body and with 1 <= N <= 100; for..of loops do not nest."""
    if not isinstance(e, tuple):
        return e
    t = e[0]
    if t in ("varin", "countin") and e[2][0] == "int" and e[3][0] == "int" and e[2][1] > e[3][1]:
        return (t, e[1], e[3], e[2])
    if t == "forrange" and e[3][0] == "int" and e[4][0] == "int" and e[3][1] > e[4][1]:
        e = (t, e[1], e[2], e[4], e[3], e[5])
    if t in ("forrange", "forlist", "forrules") and e[1] in ("expr", "pct") and not never_undef(e[2]):
        e = (t, e[1], ("int", 1 + (len(repr(e[2])) % 3))) + tuple(e[3:])
    if t in ("and", "or"):
        return (t, [yara_cond(x, in_for) for x in e[1]])
    if t == "bin" and e[2][0] == "bytes" and e[3][0] == "bytes":
        l, r = e[2][1], e[3][1]
        if e[1] in ("lt", "le", "gt", "ge"):
            # recorded finding C07-string-order-high-bytes: kept out of the main stream
            l, r = bytes(x & 0x7f for x in l), bytes(x & 0x7f for x in r)
        if e[1] == "contains" and len(r) == 0:
            # libyara's answer depends on which memmem it was built with (see notes): not generated
            r = b"a"
        return (t, e[1], ("bytes", l), ("bytes", r))
    if t in ("for", "of"):
        k, se = e[1], e[2]
        if k == "pct":
            if t == "for" or se[0] != "int" or not (1 <= se[1] <= 100):
                k, se = "expr", ("int", 1)
        se = yara_cond(se, in_for) if se is not None else None
        if k in ("expr", "pct") and not never_undef(se):
            # recorded finding C07-undefined-quantifier: kept out of the main stream
            se = ("int", 1 + (len(repr(se)) % 3))
        if t == "of":
            return (t, k, se, e[3])
        if in_for:
            return ("of", k, se, e[3])
        return (t, k, se, e[3], yara_cond(e[4], True))
    if t == "forlist":
        # recorded finding C07-list-undefined-element: elements that can be undefined are kept out of the main stream
        elems = [yara_cond(x, in_for) if never_undef(x) else ("int", 1 + (len(repr(x)) % 7)) for x in e[3]]
        return (t, e[1], yara_cond(e[2], in_for) if e[2] is not None else None, elems, yara_cond(e[4], in_for))
    return tuple(yara_cond(x, in_for) if isinstance(x, tuple) else x for x in e)


def never_undef(e):
    """integer expression that is defined whatever the input (mirror of never_undef in Model/ConformCase.v)"""
    t = e[0]
    if t in ("int", "filesize"):
        return True
    if t == "count":
        return e[1] is not None
    if t == "un":
        return e[1] in ("neg", "bnot") and never_undef(e[2])
    if t == "bin":
        return e[1] in ("add", "sub", "mul", "xor", "band", "bor") and never_undef(e[2]) and never_undef(e[3])
    return False


def hex_norm(toks, top=True):
    """libyara's hex grammar: no `[-m]`, `[1]` only as a jump (never first / last / in front of another jump), no two
    jumps in a row"""
    out = []
    for t in toks:
        if t[0] == "alt":
            out.append(["alt", [hex_norm(a, False) for a in t[1]]])
        elif t[0] == "j":
            if out and out[-1][0] == "j":
                continue
            out.append(t[:3])
        else:
            out.append(t[:3] if t[0] in ("m", "nm") else t)
    while out and out[-1][0] == "j":
        out.pop()
    return out or [["b", 0x61]]


def no_empty(n):
    """libyara's regex grammar has no empty group or empty alternation branch (`()`, `(|a)`, `(a|)`), which the C03
    generator produces and boreal accepts: they are dropped (a branch / group left with nothing becomes a literal)"""
    t = n[0]
    if t == "empty":
        return None
    if t == "alt":
        bs = [x for x in (no_empty(b) for b in n[1]) if x is not None]
        if not bs:
            return None
        return bs[0] if len(bs) == 1 else ["alt", bs]
    if t == "cat":
        xs = [x for x in (no_empty(b) for b in n[1]) if x is not None]
        if not xs:
            return None
        return xs[0] if len(xs) == 1 else ["cat", xs]
    if t == "group":
        x = no_empty(n[1])
        return None if x is None else ["group", x]
    if t == "rep":
        x = no_empty(n[1])
        return None if x is None else ["rep", x, n[2], n[3]]
    return n


def regex_uniform(n, greedy, inside=False):
    """libyara rejects a regex that mixes greedy and lazy quantifiers.  Also: an unbounded repetition nested in an
    unbounded repetition (`(.+.*b?)*`) is made bounded — the reference matcher of Spec/Regex.v takes minutes on it
    under vm_compute (evaluation cost only; the engines do not care)."""
    t = n[0]
    if t in ("alt", "cat"):
        return [t, [regex_uniform(x, greedy, inside) for x in n[1]]]
    if t == "group":
        return [t, regex_uniform(n[1], greedy, inside)]
    if t == "rep":
        k = n[2]
        unbounded = k[0] in ("*", "+", "n,")
        if unbounded and inside:
            lo = 1 if k[0] == "+" else (k[1] if k[0] == "n," else 0)
            k = ["n,m", lo, lo + 2]
            unbounded = False
        inside = inside or unbounded
        if k[0] == "n" and k[1] == 0:
            # `x{0}` inside a repeated group sends libyara 4.5.5's regex engine into an endless loop
            # (`/1_(x{0}b)+\\x2e/` on `1_b.`): not generated
            k = ["n", 1]
        return [t, regex_uniform(n[1], greedy, inside), k, greedy]
    return n


# ------------------------------------------------------------------ module probes (two-way only)
def checksum32(b):
    return sum(b) & 0xFFFFFFFF


def strtol_py(s, base):
    """strtoll with full consumption, as string.to_int documents; None = undefined"""
    i = 0
    ws = b" \t\n\v\f\r"
    while i < len(s) and s[i] in ws:
        i += 1
    neg = False
    if i < len(s) and s[i] in b"+-":
        neg = s[i] == 0x2d
        i += 1
    if base in (0, 16) and s[i:i + 2].lower() == b"0x" and i + 2 < len(s) and chr(s[i + 2]) in "0123456789abcdefABCDEF":
        i += 2
        base = 16
    elif base == 0:
        base = 8 if s[i:i + 1] == b"0" else 10
    digs = "0123456789abcdefghijklmnopqrstuvwxyz"[:base]
    j = i
    v = 0
    while j < len(s) and chr(s[j]).lower() in digs:
        v = v * base + digs.index(chr(s[j]).lower())
        j += 1
    if j == i or j != len(s):
        return None
    v = -v if neg else v
    if not (-I64 <= v < I64):
        return None
    return v


def gen_probe(rng, mem, mods):
    """(module, condition text).  The expected value is computed here only to make both verdicts occur; the check
    itself compares libyara with boreal."""
    n = len(mem)
    off = rng.choice([0, 0, 1, 2, n // 2, max(0, n - 1), n, n + 3])
    ln = rng.choice([0, 1, 2, 5, n, max(0, n - off), n + 1, 1 << 20])
    sl = mem[off:off + ln] if off <= n else b""
    pick = rng.below(14)
    perturb = rng.chance(1, 3)
    if pick < 4 and "hash" in mods:
        f = rng.choice(["md5", "sha1", "sha256", "crc32", "checksum32"])
        if rng.chance(1, 3):
            lit = rng.choice([b"", b"abc", b"\x00\xff", mem[:7]])
            arg, data = cond.ybytes(lit), lit
        else:
            arg, data = "%d, %d" % (off, ln), sl
        if f in ("md5", "sha1", "sha256"):
            v = getattr(hashlib, f)(data).hexdigest()
            if perturb:
                v = v[:-1] + ("0" if v[-1] != "0" else "1")
            return "hash", 'hash.%s(%s) == "%s"' % (f, arg, v)
        v = (zlib.crc32(data) & 0xFFFFFFFF) if f == "crc32" else checksum32(data)
        return "hash", "hash.%s(%s) == %d" % (f, arg, v + (1 if perturb else 0))
    if pick < 7 and "string" in mods:
        s = rng.choice([b"10", b"0x10", b"-7", b" 12", b"\x0b12", b"12a", b"", b"077", b"7fffffffffffffff", b"zz", b"+5",
                        b"0X1f", b"9223372036854775808", b"-9223372036854775808", b"1 ", b"0x", b"-0x10"])
        if rng.chance(1, 2):
            base = rng.choice([0, 2, 8, 10, 16, 36])
            v = strtol_py(s, base)
            call = "string.to_int(%s, %d)" % (cond.ybytes(s), base)
        else:
            v = strtol_py(s, 10)
            call = "string.to_int(%s)" % cond.ybytes(s)
        k = rng.below(3)
        if k == 0:
            return "string", "defined %s" % call
        if k == 1:
            return "string", "string.length(%s) == %d" % (cond.ybytes(s), len(s) + (1 if perturb else 0))
        return "string", "%s == %d" % (call, (v if v is not None else 0) + (1 if perturb and v is not None and abs(v) < I64 - 2 else 0))
    if "math" in mods:
        k = rng.below(8)
        a, b = rng.choice([0, 1, 5, 255, 256, 1 << 31, 1 << 40]), rng.choice([0, 2, 7, 255, 1 << 33])
        if k == 0:
            return "math", "math.min(%d, %d) == %d" % (a, b, min(a, b) + (1 if perturb else 0))
        if k == 1:
            return "math", "math.max(%d, %d) == %d" % (a, b, max(a, b) + (1 if perturb else 0))
        if k == 2:
            x = rng.choice([0, 3, -3, 1 << 40, -(1 << 40)])
            return "math", "math.abs(%d) == %d" % (x, abs(x) + (1 if perturb else 0))
        if k == 3:
            return "math", "math.to_number(#_s0 > %d) == %d" % (rng.below(3), rng.below(2)) if False else \
                "math.to_number(filesize > %d) == %d" % (rng.choice([0, n, n + 1]), rng.below(2))
        if k == 4:
            c = rng.choice([0, 0x61, 0xff, mem[0] if mem else 0])
            cnt = sl.count(bytes([c]))
            if rng.chance(1, 2):
                return "math", "math.count(%d, %d, %d) == %d" % (c, off, ln, cnt + (1 if perturb else 0))
            return "math", "math.count(%d) == %d" % (c, mem.count(bytes([c])) + (1 if perturb else 0))
        if k == 5:
            lo, hi = sorted([rng.below(256), rng.below(256)])
            x = rng.choice([lo, hi, max(0, lo - 1), hi + 1, rng.below(256)])
            return "math", "math.in_range(%d.0, %d.0, %d.0)" % (x, lo, hi)
        if k == 6:
            # mode: smallest most common byte
            if sl:
                cnts = [0] * 256
                for x in sl:
                    cnts[x] += 1
                m = max(range(256), key=lambda i: (cnts[i], -i))
            else:
                m = 0
            return "math", "math.mode(%d, %d) == %d" % (off, ln, m + (1 if perturb else 0))
        thr = rng.choice(["0.0", "1.5", "3.0", "4.5", "7.9"])
        f = rng.choice(["entropy", "mean", "deviation"])
        if f == "deviation":
            return "math", "math.deviation(%d, %d, 64.0) %s %s" % (off, ln, rng.choice(["<", ">="]), thr)
        return "math", "math.%s(%d, %d) %s %s" % (f, off, ln, rng.choice(["<", ">="]), thr)
    return None, "true"


# ------------------------------------------------------------------ generation
ALPHA = [0x61, 0x62, 0x63, 0x41, 0x00, 0xFF, 0x20, 0x0A, 0x31, 0x5F]
_C02 = c02.C02()
_C03 = c03.C03()


RAW_CLASSES = [
    ["br", [["range", 0x30, 0x39], ["lit", 0x3a]], False],            # [0-9:]
    ["br", [["range", 0x61, 0x63], ["lit", 0x2d]], False],            # [a-c-]
    ["br", [["perl", "d", False], ["lit", 0x2e]], False],             # [\d.]
    ["br", [["range", 0x41, 0x42], ["lit", 0x20], ["lit", 0x5f]], False],
    ["perl", "w", False], ["perl", "d", False],
    ["br", [["lit", 0x78]], True],                                    # [^x]
]


def gen_raw_fullword(rng, name):
    """a regex made of classes only (no literal to extract: boreal scans it on its own, candidate after candidate),
    of a single length, with fullword; its classes mix alphanumeric and other bytes, so that a delimited candidate can
    start inside a rejected one (`/[0-9:]{5}/ fullword` on `a12:34:56`)"""
    pieces = []
    for _ in range(rng.range(1, 3)):
        c = rng.choice(RAW_CLASSES)
        if rng.chance(2, 3):
            pieces.append(["rep", ["class", c], ["n", rng.range(2, 5)], True])
        else:
            pieces.append(["class", c])
    node = pieces[0] if len(pieces) == 1 else ["cat", pieces]
    mods = {"nocase": False, "wide": False, "ascii": False, "fullword": True}
    return {"name": name, "kind": "regex", "node": node, "ci": False, "da": rng.chance(1, 3), "mods": mods, "raw": True}


def gen_wide_wb(rng, name):
    """a `wide` regex with \\b / \\B (or an anchor), mostly without a literal long enough to be an atom, with exactly one
    of nocase and /s most of the time: boreal scans these with its own walk over the wide text and a helper regex
    built from the same flags (`/\\b[a-z]{4}\\b/ nocase wide`, `/^MZ\\b/ wide`, `/\\bend$/s wide`)"""
    def lit(c):
        return ["lit", c, 0]
    letters = rng.choice([b"MZ", b"end", b"Ab", b"xY", b"aB1", b"Qq"])
    az = ["class", rng.choice([["br", [["range", 0x61, 0x7a]], False], ["br", [["range", 0x41, 0x5a]], False],
                               ["perl", "w", False], ["br", [["range", 0x61, 0x63], ["lit", 0x78]], False]])]
    wb = ["assert", "wb"]
    form = rng.below(6)
    if form == 0:
        node = ["cat", [wb, ["rep", az, ["n", rng.range(2, 4)], True], wb]]
    elif form == 1:
        node = ["cat", [["assert", "start"]] + [lit(c) for c in letters] + [wb]]
    elif form == 2:
        node = ["cat", [wb] + [lit(c) for c in letters] + [["assert", "end"]]]
    elif form == 3:
        node = ["cat", [lit(letters[0]), ["dot"], ["assert", rng.choice(["wb", "nwb"])], lit(letters[-1])]]
    elif form == 4:
        node = ["cat", [wb, az, ["dot"], az, wb]]
    else:
        node = ["cat", [["assert", "nwb"], ["rep", az, ["n", 2], True], wb]]
    r = rng.below(8)
    nocase, da = (True, False) if r < 3 else (False, True) if r < 6 else (True, True) if r == 6 else (False, False)
    mods = {"nocase": nocase, "wide": True, "ascii": rng.chance(1, 4), "fullword": False}
    return {"name": name, "kind": "regex", "node": node, "ci": False, "da": da, "mods": mods, "wwb": True}


def gen_short_b64(rng, name):
    """texts of 1-4 bytes with base64 / base64wide (standard or custom alphabet): the three alignments of the text
    in a 3-byte group give encodings of different lengths, some of them empty for the shortest texts"""
    n = rng.choice([1, 2, 2, 2, 3, 4])
    text = rng.bytes(n, b"abAB01xy!\x00\xff")
    a = rng.below(4)
    alpha = None if a < 2 else bytes(rng.shuffle(list(c01.B64_STD))).hex() if a == 2 else rng.bytes(64).hex()
    bk = rng.below(3)
    aw = rng.below(4)
    d = {"text": text.hex(), "ascii": aw in (1, 3), "wide": aw in (2, 3), "nocase": False, "fullword": False,
         "xor": None, "b64": {"ascii": bk != 1, "wide": bk != 0, "alpha": alpha}}
    return {"name": name, "kind": "text", "decl": d}


def gen_string(rng, name):
    k = rng.below(13)
    if k == 12:
        return gen_short_b64(rng, name)
    if k == 10:
        return gen_raw_fullword(rng, name)
    if k == 11:
        return gen_wide_wb(rng, name)
    if k < 4:
        for _ in range(20):
            d = c01.gen_decl(rng)
            if len(d["text"]) <= 24:
                break
        else:
            d = {"text": "616263", "ascii": False, "wide": False, "nocase": False, "fullword": False, "xor": None,
                 "b64": None}
        if d["xor"] is not None and d["wide"] and not d["ascii"]:
            # libyara also accepts the xored *ascii* form of a wide-only xor string when an atom of the wide form
            # happens to hit (its verification tries the ascii comparison whatever the modifiers): not generated
            d["ascii"] = True
        # (after the line above, which can turn a wide-only string into an ascii wide one)
        if d["ascii"] and d["wide"] and d["fullword"] and "00" in [d["text"][i:i + 2] for i in range(0, len(d["text"]), 2)]:
            # `ascii wide fullword` and a text with NULs: where one form is a prefix of the other at the same offset
            # libyara verifies one form only (ascii first; for xor strings the wide form first) and, when its delimiter
            # test fails, never tries the other (corpus/C07/quirk_ascii_prefix_of_wide.json, quirk_xor_wide_first_fullword.json):
            # not generated
            d["fullword"] = False
        if d["xor"] is not None and d["xor"][1] - d["xor"][0] > 40 and (rng.chance(2, 3) or len(d["text"]) < 6):
            # (texts shorter than 3 bytes under a wide key range match almost everywhere: half a minute of vm_compute)
            d["xor"] = [d["xor"][0], d["xor"][0] + rng.range(0, 8)]
        return {"name": name, "kind": "text", "decl": d}
    if k < 7:
        return {"name": name, "kind": "hex", "toks": hex_norm(_C02.gen_tokens(rng, 0, False, 7))}
    mods = {"nocase": rng.chance(1, 4), "wide": rng.chance(1, 4), "ascii": False, "fullword": rng.chance(1, 5)}
    if mods["wide"]:
        mods["ascii"] = rng.chance(1, 2)
        # regex + wide + fullword: the engines differ on wide NUL characters next to a match (see notes): not generated
        mods["fullword"] = False
    ci, da = rng.chance(1, 5), rng.chance(1, 3)
    opts = {"wide": mods["wide"], "wb": (not mods["wide"]) and rng.chance(1, 3), "anchors": rng.chance(1, 8)}
    node = no_empty(_C03.gen_alt(rng, 0, opts, top=True)) or ["lit", 0x61, 0]
    if node[0] == "assert":
        node = ["cat", [node, ["lit", 0x61, 0]]]
    node = regex_uniform(node, not rng.chance(1, 3))
    return {"name": name, "kind": "regex", "node": node, "ci": ci, "da": da, "mods": mods}


def hex_member7(rng, toks, alphabet):
    """a member of the language of a hex token list; jumps take their bounds more often than not"""
    out = bytearray()
    for t in toks:
        if t[0] == "j":
            f, to = t[1], t[2]
            c = rng.below(4)
            if to is None:
                n = f + rng.choice([0, 0, 1, 2, 5])
            elif c == 0:
                n = f
            elif c == 1:
                n = to
            elif c == 2:
                n = max(f, to - 1)
            else:
                n = rng.range(f, to)
            out += rng.bytes(min(n, 40), alphabet)
        elif t[0] == "alt":
            out += hex_member7(rng, rng.choice(t[1]), alphabet)
        else:
            out += _hir.hex_member(rng, [t], alphabet)
    return bytes(out)


def member(rng, s, alphabet):
    k = s["kind"]
    if k == "text":
        encs = c01.encodings(s["decl"]) or [(bytes.fromhex(s["decl"]["text"]), False)]
        e, w = rng.choice(encs)
        return e[:40], w
    if k == "hex":
        return hex_member7(rng, s["toks"], alphabet)[:48], False
    m = s["mods"]
    if s.get("wwb"):
        # wide text with word / non-word / newline neighbours
        alpha = [0x61, 0x62, 0x78, 0x41, 0x5a, 0x4d, 0x0a, 0x20, 0x31, 0x65, 0x6e, 0x64, 0x59, 0x51, 0x71]
        b = c03.sample(rng, s["node"], m["nocase"], s["da"], alpha)
        pre = rng.choice([b"", b" ", b"a", b"\n", b"-", b"Z"])
        post = rng.choice([b"", b" ", b"b", b"\n", b".", b"1"])
        if m["ascii"] and rng.chance(1, 3):
            return (pre + b + post)[:30], False
        return c03.widen(pre + b + post)[:40], True
    if s.get("raw"):
        # overlapping candidates: an alphanumeric byte, then two or three members end to end
        alpha = [0x30, 0x31, 0x39, 0x3a, 0x61, 0x62, 0x2d, 0x2e, 0x20, 0x5f, 0x41, 0x78]
        b = b"".join(c03.sample(rng, s["node"], False, s["da"], alpha) for _ in range(rng.range(1, 3)))
        if rng.chance(1, 2):
            b = bytes([rng.choice(b"a1Z9")]) + b
        return b[:30], False
    b = c03.sample(rng, s["node"], s["ci"] or m["nocase"], s["da"], alphabet)[:30]
    if m["wide"] and (not m["ascii"] or rng.chance(1, 2)):
        return c03.widen(b), True
    return b, False


def gen_input(rng, strings, limit=72, hints=None):
    """strings: [(key, string)]; hints (out): [(key, offset, length)] of the members spliced in unmodified"""
    if not strings:
        return rng.bytes(rng.range(0, 12), ALPHA)
    parts, total = [], 0
    alphabet = ALPHA
    while total < limit - 12:
        r = rng.below(10)
        key, s = rng.choice(strings)
        if r < 6:
            m, w = member(rng, s, alphabet)
            exact = True
            if r == 5 and m:
                m = c01.near_miss(rng, m)
                exact = False
            pre = b""
            if rng.chance(1, 2):
                pre = c01.delim(rng, w)
                m = pre + m + c01.delim(rng, w)
            if parts and rng.chance(1, 5) and len(m) > 1:
                m = m[rng.range(1, len(m) - 1):]
                exact = False
            if exact and hints is not None and total + len(pre) < limit:
                hints.append((key, total + len(pre), len(m) - len(pre)))
        else:
            m = rng.bytes(rng.range(1, 4), alphabet)
        parts.append(m)
        total += len(m)
        if rng.chance(1, 6):
            break
    return b"".join(parts)[:limit + 24]


def computed_bound_atom(rng, v):
    """`in` / `at` / `#s in` with a bound computed from filesize, negative on the shorter inputs (libyara's compiler
    rejects negative literal bounds, not computed ones)"""
    K = rng.choice([1, 5, 20, 50, 100, 1000])
    lo = ("bin", "sub", ("filesize",), ("int", K))
    hi = rng.choice([("filesize",), ("bin", "sub", ("filesize",), ("int", rng.choice([0, 1, 3]))), ("int", 1000)])
    c = rng.below(4)
    if c == 0:
        return ("varin", v, lo, hi)
    if c == 1:
        return ("bin", rng.choice(["ge", "eq", "gt"]), ("countin", v, lo, hi), ("int", rng.choice([0, 1, 2])))
    if c == 2:
        return ("varat", v, lo)
    return ("varin", v, ("bin", "sub", ("count", v), ("int", rng.choice([1, 2, 3]))), hi)


def hinted_atom(rng, v, o, l):
    """conditions aimed at the boundaries of a (probable) match of string v at offset o"""
    k = rng.below(10)
    d = rng.choice([0, 0, 0, 1, -1])
    o1 = max(0, o + d)
    if k >= 8:
        return computed_bound_atom(rng, v)
    if k == 0:
        return ("varat", v, ("int", o1))
    if k == 1:
        a = rng.choice([0, o, max(0, o - 1), o + 1])
        b = rng.choice([o, o + 1, max(0, o - 1), o + l, 1000])
        a, b = min(a, b), max(a, b)
        return ("bin", rng.choice(["eq", "ge", "gt"]), ("countin", v, ("int", a), ("int", b)), ("int", rng.choice([0, 1, 1, 2])))
    if k == 2:
        a = rng.choice([0, o, o + 1, max(0, o - 1)])
        b = rng.choice([o, max(0, o - 1), o + 1])
        a, b = min(a, b), max(a, b)
        return ("varin", v, ("int", a), ("int", b))
    if k == 3:
        return ("bin", rng.choice(["eq", "le", "lt"]), ("offset", v, ("int", rng.choice([1, 1, 2]))), ("int", o1))
    if k == 4:
        return ("bin", "eq", ("length", v, ("int", 1)), ("int", max(0, l + rng.choice([0, 0, 1, -1]))))
    if k == 5:
        return ("forrange", "any", None, ("int", max(0, o - 1)), ("int", o + 1), ("varat", v, ("bound", 0)))
    if k == 6:
        return ("bin", rng.choice(["eq", "ge"]), ("count", v), ("int", rng.choice([1, 2, 3])))
    return ("forlist", rng.choice(["any", "all", "none"]), None, [("int", o1), ("int", o + l)], ("varat", v, ("bound", 0)))


def heavy_regex(s):
    """a regex whose reference evaluation (Spec/Regex.v `ends`: ordered, duplicate-free lists of end offsets, computed
    from every start) grows like the 4th-5th power of the input length: an unbounded repetition, or two or more
    bounded ones, over something wider than a literal"""
    if s["kind"] != "regex":
        return False
    cnt = [0, 0]

    def walk(n):
        t = n[0]
        if t in ("alt", "cat"):
            for x in n[1]:
                walk(x)
        elif t == "group":
            walk(n[1])
        elif t == "rep":
            wide_body = n[1][0] != "lit"
            if n[2][0] in ("*", "+", "n,") and wide_body:
                cnt[0] += 1
            elif wide_body and n[2][0] in ("?", "n,m"):
                cnt[1] += 1
            walk(n[1])
    walk(s["node"])
    return cnt[0] >= 1 or cnt[1] >= 3


def list_undef_atom(rng, nstr, hints=()):
    """`for K i in (e1, .., undefined, ..) : (body using $s and i)`: 0-2 string-dependent or constant elements, then an
    element that is undefined on these inputs, then possibly more.  With a hint (v, o, l) two times out of three the
    targeted shape: exactly one constant element o in front, body `$v at i` (true on it), quantifier `any`."""
    if hints and rng.chance(2, 3):
        v, o, l = rng.choice(list(hints))
        undef = rng.choice([("readint", "uint8", ("int", 5000)), ("bin", "div", ("int", 1), ("int", 0))])
        post = [("int", o + 1)] if rng.chance(1, 3) else []
        return ("forlist", rng.choice(["any", "any", "any", "expr"]), ("int", 1), [("int", o), undef] + post,
                rng.choice([("varat", v, ("bound", 0)), ("varin", v, ("bound", 0), ("bound", 0))]))
    v = rng.below(nstr)
    undef = rng.choice([("readint", "uint8", ("int", 5000)), ("offset", v, ("int", 50)), ("bin", "div", ("int", 1), ("int", 0))])
    pre = [rng.choice([("int", 0), ("int", 1), ("count", v), ("offset", v, ("int", 1))]) for _ in range(rng.range(0, 2))]
    post = [rng.choice([("int", 0), ("int", 2), ("count", v)]) for _ in range(rng.range(0, 1))]
    body = rng.choice([("varat", v, ("bound", 0)), ("bin", "ge", ("count", v), ("bound", 0)), ("bin", "eq", ("bound", 0), ("int", 0)),
                       ("varin", v, ("int", 0), ("bound", 0))])
    return ("forlist", rng.choice(["any", "any", "all", "none"]), None, pre + [undef] + post, body)


# (P, n, k) with n <= 64, 1 <= P <= 100, where libyara's binary64 test (k / n) * 100 >= P differs from the other natural
# binary64 form k * 100 / n >= P or from exact arithmetic k * 100 >= P * n: the rounding edges of `P% of them`
def percent_edges():
    out = []
    for n in range(1, 65):
        for k in range(0, n + 1):
            for P in range(1, 101):
                a = (float(k) / float(n)) * 100.0 >= float(P)
                b = float(k) * 100.0 / float(n) >= float(P)
                e = k * 100 >= P * n
                if a != b or a != e:
                    out.append((P, n, k))
    return out


PERCENT_EDGES = percent_edges()


def gen_percent_edge_case(rng):
    """a file of its own: n strings, `P% of them` on a rounding edge of libyara's test, inputs holding k-1, k, k+1 of the
    strings (two-way only)"""
    if rng.chance(1, 2):
        P, n, k = rng.choice(PERCENT_EDGES)
    else:
        # the quota is an integer: found / n * 100 lands on P exactly (up to rounding)
        n = rng.range(2, 64)
        k = rng.range(1, n)
        cands = [P for P in range(1, 101) if P * n == k * 100]
        P = rng.choice(cands) if cands else max(1, min(100, (100 * k) // n))
    names = ["k%02dz" % i for i in range(n)]
    strings = [{"name": "_k%d" % i, "kind": "text",
                "decl": {"text": t.encode().hex(), "ascii": False, "wide": False, "nocase": False, "fullword": False,
                         "xor": None, "b64": None}} for i, t in enumerate(names)]
    inputs = []
    for f in (k, max(0, k - 1), min(n, k + 1)):
        inputs.append(" ".join(rng.shuffle(names)[:f]).encode().hex())
    r = {"ns": 0, "name": "pc", "global": False, "private": False, "strings": strings, "cond": ("raw", "%d%% of them" % P),
         "id": 0, "tail": False, "ord_index": 0}
    return {"rules": [r], "nns": 1, "inputs": inputs, "imports": [], "split": False}


def nested_of_atom(rng, nstr):
    """`for K of (set) : ( <N of (set2)> op <anonymous reference> )`: the anonymous string must still be the loop's after
    the nested set quantifier"""
    vs = sorted(set(rng.below(nstr) for _ in range(rng.range(1, nstr + 1))))
    vs2 = sorted(set(rng.below(nstr) for _ in range(rng.range(1, nstr + 1))))
    inner = ("of", rng.choice(["any", "all", "none", "expr"]), ("int", rng.choice([1, 1, 2])), vs2)
    if inner[1] != "expr":
        inner = ("of", inner[1], None, vs2)
    anon = rng.choice([("var", None), ("bin", "ge", ("count", None), ("int", 1)),
                       ("varat", None, ("int", rng.choice([0, 1, 2, 5]))),
                       ("bin", "ge", ("offset", None, ("int", 1)), ("int", 0)),
                       ("varin", None, ("int", 0), ("int", rng.choice([10, 40, 100])))])
    parts = [inner, anon] if rng.chance(3, 4) else [anon, inner, anon]
    body = (rng.choice(["and", "and", "or"]), parts)
    return ("for", rng.choice(["any", "all", "any", "none"]), None, vs, body)


def gen_case(rng, kf_global=False):
    nns = rng.range(1, 2)
    nrules = rng.range(1, 4)
    rules, ord_count = [], 0
    keyed = []
    # 1. rules and their strings
    for i in range(nrules):
        kind = rng.below(12)
        nstr = rng.choice([0, 1, 1, 2, 2, 3])
        strings = [gen_string(rng.fork("s%d_%d" % (i, k)), "_s%d" % k) for k in range(nstr)]
        keyed += [((i, k), s) for k, s in enumerate(strings)]
        r = {"ns": rng.below(nns), "name": "r%d" % i, "global": kind < 2, "private": kind in (1, 2, 3),
             "strings": strings, "id": i}
        if not r["global"]:
            r["ord_index"] = ord_count
            ord_count += 1
        rules.append(r)
    # 2. inputs, remembering where members were put
    hints = [[] for _ in range(3)]
    # shorter inputs when a string is expensive to evaluate in Coq (cost of the check, not of the engines)
    limit = 22 if any(heavy_regex(s) for _, s in keyed) else 72
    inputs = [gen_input(rng.fork("i%d" % k), keyed, limit=limit, hints=hints[k]) for k in range(3)]
    all_hints = [h for hs in hints for h in hs]
    # 3. conditions
    for i, r in enumerate(rules):
        strings, nstr, ns, is_global = r["strings"], len(r["strings"]), r["ns"], r["global"]
        g = cond.Gen(rng, max(1, nstr), 40, (), max_depth=3)
        earlier = [x for x in rules[:i] if x["ns"] == ns]
        e_ord = [x for x in earlier if not x["global"]]
        e_glob = [x for x in earlier if x["global"]]
        mine = [(k[1], o, l) for k, o, l in all_hints if k[0] == i]

        def leaf():
            c = rng.below(13)
            if c == 12:
                if nstr and rng.chance(1, 3):
                    return computed_bound_atom(rng, rng.below(nstr))
                return nested_of_atom(rng, nstr) if nstr else ("bool", True)
            if c < 3 and mine:
                return hinted_atom(rng, *rng.choice(mine))
            if c < 6 and nstr:
                return g.gbool(rng.range(0, 3))
            if c < 8 and e_ord and (not is_global or kf_global):
                x = rng.choice(e_ord)
                return ("rule", x["ord_index"], x["name"])
            if c == 8 and e_glob:
                return ("ruleg", rng.choice(e_glob)["name"])
            if nstr:
                return ("var", rng.below(nstr))
            if c == 9:
                return ("bin", rng.choice(list(cond.BIN_CMP)), ("filesize",), ("int", rng.choice([0, 10, 40, 80])))
            return ("bool", rng.chance(2, 3))

        for attempt in range(30):
            shape = rng.below(5)
            if shape == 0:
                c = leaf()
            elif shape == 1:
                c = ("and", [leaf(), leaf()])
            elif shape == 2:
                c = ("or", [leaf(), leaf()])
            elif shape == 3:
                c = ("un", "not", leaf())
            else:
                c = leaf()
            c = yara_cond(c)
            if nstr:
                c = sanitize(c, strings, list(range(nstr)))
            if not cond.has_big_range(c) and not may_overflow(c):
                break
        else:
            c = ("bool", True)
        if nstr and rng.chance(1, 8):
            # a small stream inside recorded finding 14 (an enumeration with an element that can be undefined), with
            # string-dependent elements / bodies in front of the undefined one: the verdicts may differ from libyara's
            # (KNOWN-FINDING), but boreal's two configurations must still agree with each other
            atom = list_undef_atom(rng, nstr, mine)
            c = atom if rng.chance(1, 2) else (rng.choice(["and", "or"]), [c, atom])
        # a conjunct that is always true and makes libyara record every match of every string (see notes: without
        # it libyara keeps only the match at K for a string used only as `$s at K`)
        tail = nstr > 0 and not rng.chance(1, 6)
        if tail:
            c = ("and", [c, ("for", "all", None, list(range(nstr)), ("bin", "ge", ("count", None), ("int", 0)))])
        r["cond"], r["tail"] = c, tail
    case = {"rules": rules, "nns": nns, "inputs": [m.hex() for m in inputs], "imports": [], "split": rng.chance(1, 4)}
    return case


def gen_to_int_terms(rng, k=3):
    """string.to_int over prefix x explicit base x sign x leading whitespace: `0x` / `0X` / none with base 16, 0, 8, 10;
    every isspace byte (incl. \\x0b) in front; a trailing byte that must make the result undefined"""
    out = []
    for _ in range(k):
        ws = rng.choice([b"", b"", b" ", b"\t", b"\n", b"\x0b", b"\x0c", b"\r", b" \x0b "])
        sign = rng.choice([b"", b"", b"-", b"+"])
        prefix = rng.choice([b"", b"0x", b"0X", b"0X", b"0"])
        digits = rng.choice([b"1F", b"1f", b"ff", b"10", b"7", b"077", b"fF0", b"", b"8"])
        tail = rng.choice([b"", b"", b"", b" ", b"g", b"x"])
        base = rng.choice([16, 16, 16, 0, 0, 8, 10, 36])
        lit = ws + sign + prefix + digits + tail
        v = strtol_py(lit, base)
        call = "string.to_int(%s, %d)" % (cond.ybytes(lit), base)
        if v is None or rng.chance(1, 3):
            out.append("defined %s" % call)
        else:
            out.append("%s == %d" % (call, v))
    return out


def entropy_py(b):
    import math
    if not b:
        return 0.0
    cnt = [0] * 256
    for x in b:
        cnt[x] += 1
    return -sum(c / len(b) * math.log2(c / len(b)) for c in cnt if c)


def gen_float_probe(rng, mem, mods):
    """integer against float, both operand orders, where the fractional part decides (floats are outside the Gallina
    dialect: compared boreal vs libyara only).  Returns (imports, strings, condition text)."""
    pat = mem[:2] if len(mem) >= 2 and rng.chance(2, 3) else b"ab"
    d = {"text": pat.hex(), "ascii": False, "wide": False, "nocase": False, "fullword": False, "xor": None, "b64": None}
    strings = [{"name": "_s0", "kind": "text", "decl": d}]
    offs = cond.find_all(mem, pat)
    ints = [(str(v), v) for v in (0, 1, 2, 7)] + [("#_s0", len(offs)), ("filesize", len(mem)), ("!_s0[1]", 2 if offs else None),
                                                  ("@_s0[1]", offs[0] if offs else None),
                                                  ("uint8(0)", mem[0] if mem else None)]
    itext, ival = rng.choice(ints)
    base = ival if ival is not None else 1
    imports = []
    c = rng.below(6)
    if c < 4 or "math" not in mods:
        f = base + rng.choice([0.5, -0.5, 0.25, 0.0, 0.75, 1.5])
        ftext = "%.2f" % abs(f)          # (no unary minus on a float literal: kept non-negative)
    elif c == 4:
        imports = ["math"]
        ftext = "math.entropy(0, filesize)"
        itext = str(int(entropy_py(mem)) + rng.choice([0, 1]))
    else:
        imports = ["math"]
        ftext = "math.mean(0, filesize)"
        itext = str((sum(mem) // len(mem) if mem else 0) + rng.choice([0, 1]))
    op = rng.choice(["<", "<=", ">", ">=", "==", "!="])
    text = "%s %s %s" % ((itext, op, ftext) if rng.chance(1, 2) else (ftext, op, itext))
    return imports, strings, "(%s) and #_s0 >= 0" % text


def hash_value_text(f, data):
    if f in ("md5", "sha1", "sha256"):
        return '"%s"' % getattr(hashlib, f)(data).hexdigest()
    return "%d" % ((zlib.crc32(data) & 0xFFFFFFFF) if f == "crc32" else checksum32(data))


def gen_hash_chain(rng, mem):
    """several hash.* calls on the SAME (offset, length), in one condition and across two rules of the file, in a
    random order of md5 / sha1 / sha256 / crc32 / checksum32 (the digests are cached per scan, keyed by the range):
    each compared with its own expected value, plus cross-equalities between functions, which are false.
    Returns 1-2 condition texts."""
    n = len(mem)
    if n == 0:
        return []
    off = rng.choice([0, 0, rng.below(n)])
    ln = rng.range(1, n - off)
    data = mem[off:off + ln]
    funcs = rng.shuffle(["md5", "sha1", "sha256", "crc32", "checksum32"])
    k = rng.range(2, 4)

    def term(f):
        return "hash.%s(%d, %d) == %s" % (f, off, ln, hash_value_text(f, data))
    first = " and ".join(term(f) for f in funcs[:k])
    hexes = [f for f in funcs if f in ("md5", "sha1", "sha256")]
    if len(hexes) >= 2 and rng.chance(1, 2):
        first += " and not (hash.%s(%d, %d) == hash.%s(%d, %d))" % (hexes[0], off, ln, hexes[1], off, ln)
    out = [first]
    if rng.chance(2, 3):
        rest = rng.shuffle(funcs)[:rng.range(1, 3)]
        out.append(" and ".join(term(f) for f in rest))
    return out


MC_GROUPS = [bytes.fromhex("ffffff000000"), bytes.fromhex("000000ffffff"), b"\xff" * 6, b"\x00" * 6,
             bytes.fromhex("b504f3b504f3"), bytes.fromhex("b504f4b504f4"), bytes.fromhex("7fffff7fffff")]


def add_math_boundary(rng, case):
    """math.* over a block appended to the first input: 6-byte groups on / just inside / just outside the circle of
    monte_carlo_pi (FF FF FF 00 00 00 is on it), all-FF, all-00; thresholds next to the values both engines must give
    (0.2732 when every group is a hit, 1.0 when none is).  Two-way only."""
    n0 = len(case["inputs"][0]) // 2
    block = b"".join(rng.choice(MC_GROUPS) if rng.chance(4, 5) else rng.bytes(6) for _ in range(rng.range(1, 3)))
    case["inputs"][0] += block.hex()
    L = len(block)
    f = rng.below(6)
    if f < 3:
        c = rng.below(3)
        if c == 0:
            text = "math.in_range(math.monte_carlo_pi(%d, %d), %s)" % (n0, L, rng.choice(["0.27, 0.28", "0.99, 1.01", "0.0, 0.27", "0.28, 0.99"]))
        else:
            text = "math.monte_carlo_pi(%d, %d) %s %s" % (n0, L, rng.choice(["<", ">=", "<=", ">"]), rng.choice(["0.27", "0.28", "0.5", "0.99", "1.0"]))
    elif f == 3:
        text = "math.mean(%d, %d) %s %s" % (n0, L, rng.choice(["==", "<", ">="]), rng.choice(["255.0", "0.0", "127.5", "170.0"]))
    elif f == 4:
        text = "math.deviation(%d, %d, %s) %s %s" % (n0, L, rng.choice(["255.0", "0.0", "127.5"]), rng.choice(["==", "<", ">="]), rng.choice(["0.0", "127.5", "85.0"]))
    else:
        text = "math.entropy(%d, %d) %s %s" % (n0, L, rng.choice(["==", "<", ">="]), rng.choice(["0.0", "1.0", "0.5"]))
    case["rules"].append({"ns": case["rules"][-1]["ns"], "name": "mb", "global": False, "private": False, "strings": [],
                          "cond": ("raw", text), "id": len(case["rules"]), "tail": False,
                          "ord_index": sum(1 for x in case["rules"] if not x["global"])})
    case["imports"] = sorted(set(case.get("imports", [])) | {"math"})
    return case


# ------------------------------------------------------------------ acceptance at the limits both engines document
def gen_limits_case(rng):
    """one small rule at (or one step beyond) a limit of the dialect that libyara and boreal share or that boreal
    documents as defensive: what is compared is acceptance (accept_yara => accept_boreal) and, when both accept, the
    verdicts and offsets.  Source text carried as is; judged without Coq (class predicates on kind / parameter)."""
    k = rng.below(12)
    mem = b"ab"
    kind, param = None, None

    def hx(body):
        return "rule r { strings: $a = { %s } condition: $a }" % body

    def rx(body):
        return "rule r { strings: $a = /%s/ condition: $a }" % body
    if k <= 2:
        n = rng.choice([199, 200, 200, 200, 200, 201, 202])
        form = rng.below(4)
        j = "[%d]" % n if form == 0 else "[%d-%d]" % (rng.choice([0, 1, 150, n]), n) if form < 3 else "[%d-%d]" % (n, n)
        src = hx(rng.choice(["AB ( CD %s EF | 01 ) 02", "( AB %s CD | 01 02 )", "AB ( 01 | ( CD %s EF | 03 ) ) 02"]) % j)
        mem = bytes([0xab, 0xcd]) + bytes(n) + bytes([0xef, 0x02, 0xab, 0x01, 0x02])
        kind, param = "alt_jump", n
    elif k == 3:
        j = rng.choice(["[199]", "[200]", "[201]", "[255]", "[256]", "[1000]", "[0-201]", "[5-3]", "[0]", "[1]", "[3-3]", "[200-]", "[-]"])
        src = hx("AB CD %s EF 02" % j)
        mem = bytes([0xab, 0xcd]) + bytes(201) + bytes([0xef, 0x02])
        kind, param = "jump", j
    elif k == 4:
        src = hx(rng.choice(["61 [0-0] 62", "AB ( CD [0-0] EF | 01 ) 02"]))
        kind, param = "jump_zero_range", 0
    elif k == 5:
        q = rng.choice(["{32766}", "{32767}", "{32768}", "{1,32767}", "{1,32768}", "{32767,}", "{32768,}", "{5,3}", "{,5}", "{,}", "{0,0}",
                        "{0}", "{65535}"])
        src = rx("xa%sb" % q)
        mem = b"x" + b"a" * 20 + b"b"
        kind, param = "regex_repeat", q
    elif k == 6:
        n = rng.choice([127, 128, 128, 129])
        src = rng.choice(["rule %s { condition: true }" % ("r" * n), 'rule r { strings: $%s = "ab" condition: any of them }' % ("s" * n)])
        kind, param = "identifier", n
    elif k == 7:
        m = rng.choice(["xor(0-255)", "xor(255)", "xor(256)", "xor(5-3)", "xor(0-256)", "xor(3-3)"])
        src = 'rule r { strings: $a = "ab" %s condition: $a }' % m
        kind, param = "xor_range", m
    elif k == 8:
        n = rng.choice([63, 64, 64, 65])
        alpha = "ABCDEFGHIJKLMNOPQRSTUVWXYZabcdefghijklmnopqrstuvwxyz0123456789+/!!"[:n]
        src = 'rule r { strings: $a = "abcd" base64("%s") condition: $a }' % alpha
        mem = b"YWJjZA=="
        kind, param = "base64_alphabet", n
    elif k == 9:
        n = rng.choice([3, 4, 4, 5])
        body = "true"
        for i in range(n, 0, -1):
            body = "for any i%d in (1..2) : (%s)" % (i, body)
        src = "rule r { condition: %s }" % body
        kind, param = "loop_nesting", n
    elif k == 10:
        n = rng.choice([28, 29, 29, 30, 31])
        src = rng.choice([rx("(" * n + "a" + ")" * n + "b"), hx("61 " + "( " * n + "62" + " )" * n)])
        kind, param = "group_nesting", n
    else:
        c = rng.choice(["1KB == 1024", "9223372036854775807 > 0", "0x7fffffffffffffff > 0", "0x8000000000000000 > 0",
                        "9223372036854775808 > 0", "0o777 == 511", "-9223372036854775807 - 1 < 0", "1MB == 1048576"])
        src = "rule r { condition: %s }" % c
        kind, param = "integer_literal", c
    return {"raw_src": src, "inputs": [mem.hex()], "rules": [], "limits": {"kind": kind, "param": param}}


def limits_class(case):
    """documented deviation / recorded finding a limits case belongs to, from its kind and parameter"""
    lk = case["limits"]
    if lk["kind"] == "group_nesting" and lk["param"] >= 30:
        return K_LIMITS            # boreal's defensive limit on nested groups (README): 30
    if lk["kind"] == "jump_zero_range":
        return K_JUMP_ZERO_RANGE
    return 0


def add_percent_rule(rng, case):
    """a rule with many strings and `P% of them`, P*n a multiple of 100 more often than not, a different number of
    matching strings in each input (two-way only: libyara's test is made in binary64)"""
    n = rng.choice([4, 5, 8, 10, 20, 25])
    names = ["k%02dz" % i for i in range(n)]
    strings = [{"name": "_k%d" % i, "kind": "text",
                "decl": {"text": t.encode().hex(), "ascii": False, "wide": False, "nocase": False, "fullword": False,
                         "xor": None, "b64": None}} for i, t in enumerate(names)]
    k = rng.range(1, n)
    exact = [p for p in range(1, 101) if (p * n) % 100 == 0]
    P = rng.choice(exact) if exact and rng.chance(2, 3) else max(1, min(100, (100 * k) // n + rng.choice([0, 1, -1])))
    need = -((-P * n) // 100)
    new_inputs = []
    for j, h in enumerate(case["inputs"]):
        f = max(0, min(n, need + [0, -1, 1][j % 3]))
        pick = rng.shuffle(names)[:f]
        new_inputs.append(h + " ".join(pick).encode().hex())
    case["inputs"] = new_inputs
    r = {"ns": case["rules"][-1]["ns"], "name": "pc", "global": False, "private": False, "strings": strings,
         "cond": ("raw", "%d%% of them" % P), "id": len(case["rules"]), "tail": False,
         "ord_index": sum(1 for x in case["rules"] if not x["global"])}
    case["rules"].append(r)
    return case


def add_probes(rng, case, mods):
    """append 1-2 module probe rules (conditions outside the Gallina dialect: compared boreal vs libyara only)"""
    mem = bytes.fromhex(case["inputs"][0])
    imports = set()
    for k in range(rng.range(1, 3)):
        m, text = gen_probe(rng.fork("p%d" % k), mem, mods)
        if m is None:
            continue
        imports.add(m)
        r = {"ns": case["rules"][-1]["ns"], "name": "m%d" % k, "global": False, "private": False, "strings": [],
             "cond": ("raw", text), "id": len(case["rules"]), "tail": False,
             "ord_index": sum(1 for x in case["rules"] if not x["global"])}
        case["rules"].append(r)
    if rng.chance(1, 2):
        imps, strings, text = gen_float_probe(rng.fork("fp"), mem, mods)
        imports.update(imps)
        case["rules"].append({"ns": case["rules"][-1]["ns"], "name": "fp", "global": False, "private": False,
                              "strings": strings, "cond": ("raw", text), "id": len(case["rules"]), "tail": False,
                              "ord_index": sum(1 for x in case["rules"] if not x["global"])})
    if "string" in mods and rng.chance(1, 3):
        imports.add("string")
        for j, text in enumerate(gen_to_int_terms(rng.fork("ti"))):
            case["rules"].append({"ns": case["rules"][-1]["ns"], "name": "ti%d" % j, "global": False, "private": False,
                                  "strings": [], "cond": ("raw", text), "id": len(case["rules"]), "tail": False,
                                  "ord_index": sum(1 for x in case["rules"] if not x["global"])})
    if "hash" in mods and rng.chance(1, 2):
        for j, text in enumerate(gen_hash_chain(rng.fork("hc"), mem)):
            imports.add("hash")
            case["rules"].append({"ns": case["rules"][-1]["ns"], "name": "hc%d" % j, "global": False, "private": False,
                                  "strings": [], "cond": ("raw", text), "id": len(case["rules"]), "tail": False,
                                  "ord_index": sum(1 for x in case["rules"] if not x["global"])})
    case["imports"] = sorted(imports)
    return case


def load_corpus():
    return _hir.load_corpus("C07")


class C07(Prop):
    ID = "C07"
    LEVEL = "translation_validation"
    COQ_TARGETS = ["theories/Properties/C07.vo"]
    MODEL_TARGETS = ["theories/Model/ConformCase.vo"]
    CASE_HEADER = ("From Boreal Require Import Base.Prelude Base.ListX Base.Bytes Model.Literals Spec.TextSpec Spec.Regex "
                   "Model.Hir Model.Eval Spec.CondSem Model.Scanner Spec.RuleSetSpec Model.ConformCase.")
    NEEDS_HARNESS = False          # own crate (harness_yara), built in execute()
    KF = {K_FIXED_OFFSET: "C07-fixed-offset-listing", K_START_POS: "C07-start-position", K_FULLWORD_LEN: "C07-fullword-single-length",
          K_GLOBAL_REFS: "C07-global-refs-ordinary", K_LIST_UNDEF: "C07-list-undefined-element",
          K_HIGH_BYTE_ORDER: "C07-string-order-high-bytes", K_UNDEF_QUANT: "C07-undefined-quantifier",
          K_ALT_FIRST: "C07-alt-glue", K_WIDE_ASCII_WB: "C07-wide-ascii-boundary",
          K_MATH_SIGNED: "C07-math-string-signed-char", K_JUMP_ZERO_RANGE: "C07-jump-zero-range"}
    # classes 17 (C07-empty-class, fixed 861b829) and 18 (C07-regex-span-panic, fixed c526a27) are no longer produced
    RULE = ("generated rule files of the shared dialect: 1-4 rules over 1-2 namespaces (global / private / plain, "
            "references to earlier rules and to global rules), 0-3 strings per rule drawn from the C01 text generator "
            "(ascii wide nocase fullword xor base64 shapes), the C02 hex generator (masks, negations, jumps, "
            "alternatives) and the C03 regex generator (classes, greedy / lazy quantifiers, anchors, \\b \\B, /i /s, "
            "nocase wide ascii fullword), typed conditions of depth <= 3 (presence, at, in, #, @, !, of / for over "
            "sets, for-in over ranges and lists, arithmetic without overflow, comparisons, string operators, filesize, "
            "intXX/uintXX, defined, and/or/not), plus 1-2 hash / math / string module probes; 3 inputs per file "
            "spliced from members, near-members and delimiters.  Every file goes through libyara 4.5.5 and boreal "
            "(compute_full_matches + include_not_matched, and default parameters) and libyara's observations are "
            "checked against the Gallina specifications under vm_compute.  Non-trivial: libyara compiles the file, at "
            "least one string matches in some input and the rules do not all have the same verdict on all inputs; "
            "distinct by (rule texts, inputs).")
    TRUSTED = ["libyara 4.5.5 (vendored C source of yara-sys 0.32.0) as the executable specification",
               "yara crate 0.32 (Rust binding), harness_yara/src/main.rs",
               "Coq 8.16.1 kernel + vm_compute",
               "vlib/props/c07.py with the printers of c01.py / _hir.py / c03.py / cond.py (one object printed to YARA "
               "text and to a Gallina term)"]
    ASSUMPTIONS = ["spec = libyara is validated per generated program, not proved; model = spec is the business of "
                   "C01-C05 (restated in Properties/C07.v)",
                   "lengths are compared only at offsets where the specification admits a single member length",
                   "module probes (hash / math / string) are compared boreal vs libyara only"]

    def __init__(self):
        self.mods = None
        self.stats = {"programs": 0, "disagreements_checked": 0}

    def budget(self, tier):
        return 480 if tier == "quick" else 5200

    def corpus(self, ctx):
        return load_corpus()

    def generate(self, ctx, rng, n):
        mods = self.probe_modules()
        out = []
        for i in range(n):
            r = rng.fork("c%d" % i)
            c = gen_case(r)
            if mods and r.chance(3, 5):
                add_probes(r.fork("probe"), c, mods)
            if r.chance(1, 12) and not any(heavy_regex(x) for rl in c["rules"] for x in rl["strings"]):
                add_percent_rule(r.fork("pct"), c)
            if mods and "math" in mods and r.chance(1, 6):
                add_math_boundary(r.fork("mb"), c)
            out.append(json.loads(json.dumps(c, default=lambda b: list(b))))
        for i in range(max(12, n // 16)):
            out.append(gen_limits_case(rng.fork("lim%d" % i)))
        for i in range(max(6, n // 80)):
            out.append(json.loads(json.dumps(gen_percent_edge_case(rng.fork("pe%d" % i)), default=lambda b: list(b))))
        return out

    # ---------------------------------------------------------------- execution
    def build(self):
        with core.Lock("cargo_yara"):
            lock_dst = os.path.join(HY, "Cargo.lock")
            if not os.path.exists(lock_dst):
                import shutil
                shutil.copy(os.path.join(core.REPO, "Cargo.lock"), lock_dst)
            env = {"CARGO_NET_OFFLINE": "true", "RUSTFLAGS": "--cfg boreal_verif"}
            rc, out = core.cargo_build(["cargo", "build", "--offline", "--quiet"], HY, "debug",
                                       ("boreal", "boreal-parser", "bvy"), timeout=1500, env=env)
            return rc == 0, out, os.path.join(HY, "target", "debug")

    def probe_modules(self):
        if self.mods is None:
            ok, out, bind = self.build()
            if not ok:
                self.mods = []
                return self.mods
            res = core.harness_run(bind, "bvy", [{"probe": ["hash", "math", "string"]}])
            r = res[0] if res and isinstance(res[0], dict) else {}
            self.mods = [m for m in r.get("yara_modules", []) if m in r.get("boreal_modules", [])]
        return self.mods

    def harness_case(self, case):
        return {"rules": harness_rules(case), "inputs": case["inputs"]}

    def execute(self, ctx, cases):
        ok, out, bind = self.build()
        if not ok:
            raise RuntimeError("harness_yara does not build against /repo: " + out[-1500:])
        return core.harness_run(bind, "bvy", [self.harness_case(c) for c in cases])

    # ---------------------------------------------------------------- Coq term
    def term(self, ctx, case, out):
        if isinstance(out, dict) and out.get("hang") == "yara":
            ctx.count("oracle_hang")          # libyara did not return within 20 s: nothing to compare with
            return (True, True, 0)
        if isinstance(out, dict) and out.get("hang") == "boreal":
            ctx.count("boreal_hang")          # libyara answered, boreal did not return within 20 s
            return (True, False, 0)
        if not isinstance(out, dict) or "yara" not in out:
            ctx.count("harness_crash")
            return (False, False, 0)
        y, b = out["yara"], out["boreal"]
        if case.get("limits"):
            return self.limits_verdict(ctx, case, out)
        if "error" in y:
            ctx.count("yara_rejects")
            ctx.count("yara_rejects+boreal_%s" % ("rejects" if "error" in b else "accepts"))
            if len(ctx.notes) < 6:
                ctx.notes.append("libyara rejects: " + y["error"][:160])
            return (True, True, 0)          # accept_yara -> accept_boreal holds vacuously
        self.stats["programs"] += 1
        ctx.count("yara_accepts")
        if case.get("two_way_finding"):
            # corpus witnesses of a recorded finding that lives in conditions outside the Gallina dialect: the class is
            # a predicate on the rule text, checked here; a verdict difference is then reported as that finding
            k = int(case["two_way_finding"])
            in_class = k == K_MATH_SIGNED and any(MATH_SIGNED_RE.search(hr["src"]) for hr in harness_rules(case))
            yv = [[(r["ns"], r["name"], r["matched"]) for r in s["rules"]] for s in y["scans"]]
            bv = [sorted((r["ns"], r["name"], r["matched"]) for r in s["rules"]) for s in b.get("scans", [])]
            same = [sorted(x) for x in yv] == bv
            if same:
                return (True, True, 0)
            return (True, False, k if in_class else 0)
        if case.get("oracle_quirk"):
            # corpus witnesses of libyara behaviours that are defects or build artefacts of the oracle itself (see
            # notes/C07.md): run, counted, never compared
            same = "scans" in b and [s["rules"] for s in y["scans"]] == [
                sorted(s["rules"], key=lambda r: [(x["ns"], x["name"]) for x in y["scans"][0]["rules"]].index((r["ns"], r["name"]))
                       if (r["ns"], r["name"]) in [(x["ns"], x["name"]) for x in y["scans"][0]["rules"]] else 0)
                for s in b["scans"]]
            ctx.count("oracle_quirk[%s]=%s" % (case["oracle_quirk"], "gone" if same else "present"))
            return (True, True, 0)
        for r in case["rules"]:
            for s in r["strings"]:
                ctx.count("string=" + s["kind"])
        t1 = self.boreal_term(ctx, case, y, b, "speed")
        bm = out.get("boreal_mem")
        if bm is None:
            return t1
        if self.canon(bm) == self.canon(b):
            ctx.count("profiles_equal")
            return t1
        # the memory profile answers differently: both answers are judged against libyara
        ctx.count("profiles_differ")
        t2 = self.boreal_term(ctx, case, y, bm, "memory")
        if isinstance(t1, tuple) or isinstance(t2, tuple):
            return t2 if isinstance(t2, tuple) else t1
        return "C07_pair (%s) (%s)" % (t1, t2)

    def limits_verdict(self, ctx, case, out):
        y = out["yara"]
        kind = case["limits"]["kind"]
        if "error" in y:
            ctx.count("limits[%s]=yara_rejects" % kind)
            return (True, True, 0)
        self.stats["programs"] += 1
        k = limits_class(case)
        views = []
        for key in ("boreal", "boreal_mem"):
            b = out.get(key)
            if b is None:
                continue
            if "scans" not in b:
                ctx.count("limits[%s]=boreal_rejects" % kind)
                if k == K_LIMITS and "panic" not in b:
                    return (True, True, K_LIMITS)
                return (True, False, k if "panic" not in b else 0)
            views.append(b)
        yv = [sorted((r["name"], r["matched"], json.dumps([(s["name"], [m[0] for m in s["matches"]]) for s in r["strings"]]))
                     for r in sc["rules"]) for sc in y["scans"]]
        for b in views:
            bv = [sorted((r["name"], r["matched"], json.dumps([(s["name"], [m[0] for m in s["matches"]]) for s in r["strings"]]))
                         for r in sc["rules"]) for sc in b["scans"]]
            if bv != yv:
                ctx.count("limits[%s]=differ" % kind)
                return (True, False, 0)
        ctx.count("limits[%s]=agree" % kind)
        return (True, True, 0)

    @staticmethod
    def canon(b):
        if not isinstance(b, dict) or "scans" not in b:
            return ("fail", "panic" in (b or {}))
        return [(s.get("err"), sorted(json.dumps(r, sort_keys=True) for r in s["rules"]), sorted(s.get("default", [])))
                for s in b["scans"]]

    def boreal_term(self, ctx, case, y, b, profile):
        if "scans" not in b:
            # libyara accepts, boreal rejects or panics
            ctx.count("boreal_rejects[%s]" % profile)
            ctx.count("boreal_panics" if "panic" in b else "boreal_compile_error")
            return "C07_rejected %s %s" % (glist(g_rule(r) for r in case["rules"]), gbool("panic" in b))
        ins = glist(gbytes(bytes.fromhex(h)) for h in case["inputs"])
        yobs = glist(g_obs(case, s) for s in y["scans"])
        bobs = glist(g_obs(case, s) for s in b["scans"])
        bdef = glist(g_default(case, s) for s in b["scans"])
        errs = any(s.get("err") for s in y["scans"]) or any(s.get("err") for s in b["scans"])
        nl = nlits_of(case, b)
        if profile == "speed":
            for r in case["rules"]:
                for x, _ in nl[r["id"]]:
                    ctx.count("literals=%s" % ("0" if x == 0 else "1" if x == 1 else ">1"))
        return "C07_case %s %s %s %s %s %s" % (glist(g_rule(r, nl) for r in case["rules"]), ins, yobs, bobs, bdef,
                                               gbool(not errs))

    def nontrivial(self, case, out):
        if not isinstance(out, dict) or "scans" not in (out.get("yara") or {}):
            return None
        some_match = False
        verdicts = set()
        for s in out["yara"]["scans"]:
            for r in s["rules"]:
                verdicts.add(r["matched"])
                if r["strings"]:
                    some_match = True
        if case.get("limits"):
            return json.dumps([case["raw_src"], case["inputs"]])
        if some_match and len(verdicts) == 2:
            return json.dumps([harness_rules(case), case["inputs"]])
        return None

    def sample(self, case, out):
        o = out if isinstance(out, dict) else {}
        return {"rules": harness_rules(case), "inputs": case["inputs"], "libyara": o.get("yara"), "boreal": o.get("boreal")}

    def extra_coverage(self, ctx, results):
        dis = 0
        for r in results:
            v = r.get("verdict")
            if v is not None and not (v[0] and v[1]):
                dis += 1
        rej = ctx.dist.get("yara_rejects", 0)
        if rej * 10 > max(1, len(results)):
            ctx.notes.append("WARNING: libyara rejected %d of %d files: the generator has left libyara's grammar somewhere "
                             "(coverage loss, not a violation)" % (rej, len(results)))
        return {"programs": self.stats["programs"], "disagreements_checked": dis, "yara_rejected_files": rej,
                "explanation": "programs = rule files libyara compiled (each run on 3 inputs through libyara, boreal and "
                               "the Gallina specifications); disagreements_checked = cases in which some pair of the "
                               "three disagreed and that were classified (documented deviation, recorded finding or "
                               "violation)"}

    def extra_search(self, ctx, rng, around):
        return self.generate(ctx, rng, 200)


PROP = C07()
