# vlib/cond.py — condition ASTs: generation, YARA printer, Gallina printer (Model/Eval.v `expr`).
# An AST node is a tuple; the same object is printed for boreal and for Coq.
import json
from .core import gZ, gbool, glist, gbytes, gopt

RI_TYPES = ["int8", "uint8", "int16", "uint16", "int32", "uint32", "int16be", "uint16be", "int32be", "uint32be"]
RI_COQ = {"int8": "I8", "uint8": "U8", "int16": "I16", "uint16": "U16", "int32": "I32", "uint32": "U32",
          "int16be": "I16BE", "uint16be": "U16BE", "int32be": "I32BE", "uint32be": "U32BE"}
BIN_INT = {"add": "+", "sub": "-", "mul": "*", "div": "\\", "mod": "%", "xor": "^", "band": "&", "bor": "|",
           "shl": "<<", "shr": ">>"}
BIN_CMP = {"lt": "<", "le": "<=", "gt": ">", "ge": ">=", "eq": "==", "neq": "!="}
BIN_STR = {"contains": ("contains", "OContains false"), "icontains": ("icontains", "OContains true"),
           "startswith": ("startswith", "OStartsWith false"), "istartswith": ("istartswith", "OStartsWith true"),
           "endswith": ("endswith", "OEndsWith false"), "iendswith": ("iendswith", "OEndsWith true"),
           "iequals": ("iequals", "OIEquals")}
BIN_COQ = {"add": "OAdd", "sub": "OSub", "mul": "OMul", "div": "ODiv", "mod": "OMod", "xor": "OXor", "band": "OBand",
           "bor": "OBor", "shl": "OShl", "shr": "OShr", "lt": "OLt", "le": "OLe", "gt": "OGt", "ge": "OGe",
           "eq": "OEq", "neq": "ONeq"}


def ybytes(b):
    out = '"'
    for x in b:
        if x == 0x22:
            out += '\\"'
        elif x == 0x5c:
            out += "\\\\"
        elif 0x20 <= x < 0x7f:
            out += chr(x)
        else:
            out += "\\x%02x" % x
    return out + '"'


def y_float(x):
    """A non-negative finite binary64 as the YARA literal `digits.digits` (its exact decimal expansion, which
    `str::parse::<f64>` reads back to the same value)."""
    import decimal
    assert x >= 0 and x == x and x != float("inf")
    t = format(decimal.Decimal(x), "f")
    return t if "." in t else t + ".0"


def g_float(x):
    """The same binary64 as a Coq.Floats.SpecFloat.spec_float in canonical form."""
    import struct
    bits = struct.unpack(">Q", struct.pack(">d", x))[0]
    sg, ef, mf = bits >> 63, (bits >> 52) & 0x7ff, bits & ((1 << 52) - 1)
    sb = "true" if sg else "false"
    if ef == 0x7ff:
        return "SpecFloat.S754_nan" if mf else "(SpecFloat.S754_infinity %s)" % sb
    if ef == 0 and mf == 0:
        return "(SpecFloat.S754_zero %s)" % sb
    if ef == 0:
        return "(SpecFloat.S754_finite %s %d (-1074))" % (sb, mf)
    return "(SpecFloat.S754_finite %s %d (%d))" % (sb, mf | (1 << 52), ef - 1075)


class Printer:
    """names: list of string identifiers (without $) indexed by variable index; idents: bound identifier names."""

    def __init__(self, names, rule_names=None, sugar=0):
        self.names = names
        self.rule_names = rule_names or []
        self.sugar = sugar      # bit 0: `them` for the full set; bit 1: wildcards `$prefix*` where a prefix class is covered

    def sset(self, vs):
        """The string set `vs` as YARA text.  With sugar, the same set through `them` or wildcards (the compiler
        resolves both to the explicit list, in declaration order — the order the model iterates in)."""
        names = self.names
        if self.sugar & 1 and list(vs) == list(range(len(names))):
            return "them"
        if self.sugar & 2 and list(vs) == sorted(set(vs)):
            out, i, vs = [], 0, list(vs)
            while i < len(vs):
                best = None
                # the longest run vs[i:j] that is exactly the class of some prefix of names[vs[i]]
                for plen in range(1, len(names[vs[i]]) + 1):
                    pre = names[vs[i]][:plen]
                    cls = [k for k, n in enumerate(names) if n.startswith(pre)]
                    if cls and cls[0] == vs[i] and vs[i:i + len(cls)] == cls:
                        best = (pre, len(cls))
                        break
                if best and (best[1] > 1 or self.sugar & 4):
                    out.append("$%s*" % best[0])
                    i += best[1]
                else:
                    out.append("$" + names[vs[i]])
                    i += 1
            return "(" + ", ".join(out) + ")"
        return "(" + ", ".join("$" + names[v] for v in vs) + ")"

    # ---------------- YARA
    def vname(self, v, sigil):
        return sigil + (self.names[v] if v is not None else "")

    def sel_y(self, k, se, depth):
        if k == "any" or k == "all" or k == "none":
            return k
        if k == "pct":
            return "%s%%" % self.y(se, depth)
        return self.y(se, depth)

    def y(self, e, depth=0):
        t = e[0]
        if t == "int":
            return "%d" % e[1]
        if t == "bytes":
            return ybytes(e[1])
        if t == "float":
            return y_float(e[1])
        if t == "bool":
            return "true" if e[1] else "false"
        if t == "filesize":
            return "filesize"
        if t == "readint":
            return "%s(%s)" % (e[1], self.y(e[2], depth))
        if t == "count":
            return self.vname(e[1], "#")
        if t == "countin":
            return "(%s in (%s..%s))" % (self.vname(e[1], "#"), self.y(e[2], depth), self.y(e[3], depth))
        if t == "offset":
            return "%s[%s]" % (self.vname(e[1], "@"), self.y(e[2], depth))
        if t == "length":
            return "%s[%s]" % (self.vname(e[1], "!"), self.y(e[2], depth))
        if t == "var":
            return self.vname(e[1], "$")
        if t == "varat":
            return "(%s at %s)" % (self.vname(e[1], "$"), self.y(e[2], depth))
        if t == "varin":
            return "(%s in (%s..%s))" % (self.vname(e[1], "$"), self.y(e[2], depth), self.y(e[3], depth))
        if t == "un":
            op = {"neg": "-", "bnot": "~", "not": "not "}[e[1]]
            return "(%s%s)" % (op, self.y(e[2], depth))
        if t == "matches":   # (matches, subject, regex AST of vlib/props/c03.py as JSON text, nocase, dot_all)
            from .props import c03
            return "(%s matches /%s/%s%s)" % (self.y(e[1], depth), c03.re_text(json.loads(e[2])), "i" if e[3] else "", "s" if e[4] else "")
        if t == "bin":
            if e[1] in BIN_STR:
                op = BIN_STR[e[1]][0]
            else:
                op = BIN_INT.get(e[1]) or BIN_CMP[e[1]]
            return "(%s %s %s)" % (self.y(e[2], depth), op, self.y(e[3], depth))
        if t == "and" or t == "or":
            return "(" + (" %s " % t).join(self.y(x, depth) for x in e[1]) + ")"
        if t == "defined":
            return "(defined %s)" % self.y(e[1], depth)
        if t == "for":
            _, k, se, vs, body = e
            return "(for %s of %s : (%s))" % (self.sel_y(k, se, depth), self.sset(vs), self.y(body, depth))
        if t == "of":     # sugar: body is the anonymous variable
            _, k, se, vs = e
            return "(%s of %s)" % (self.sel_y(k, se, depth), self.sset(vs))
        if t == "ofat":   # `N of (set) at X` = for N of (set) : ($ at X)
            _, k, se, vs, x = e
            return "(%s of %s at %s)" % (self.sel_y(k, se, depth), self.sset(vs), self.y(x, depth))
        if t == "ofin":   # `N of (set) in (A..B)` = for N of (set) : ($ in (A..B))
            _, k, se, vs, a, b = e
            return "(%s of %s in (%s..%s))" % (self.sel_y(k, se, depth), self.sset(vs), self.y(a, depth), self.y(b, depth))
        if t == "forrange":
            _, k, se, f, to, body = e
            return "(for %s i%d in (%s..%s) : (%s))" % (self.sel_y(k, se, depth), depth, self.y(f, depth),
                                                       self.y(to, depth), self.y(body, depth + 1))
        if t == "forlist":
            _, k, se, elems, body = e
            return "(for %s i%d in (%s) : (%s))" % (self.sel_y(k, se, depth), depth,
                                                   ", ".join(self.y(x, depth) for x in elems), self.y(body, depth + 1))
        if t == "forrules":
            _, k, se, already, elems, text = e
            return "(%s of (%s))" % (self.sel_y(k, se, depth), text)
        if t == "rule":
            return self.rule_names[e[1]] if isinstance(e[1], int) and e[1] < len(self.rule_names) else e[2]
        if t == "ruleg":   # reference to a global rule: compiles to `true`... printed by name
            return e[1]
        if t == "ext":
            return e[2]
        if t == "bound":
            return "i%d" % e[1]
        raise ValueError(t)

    # ---------------- Gallina
    def gsel(self, k, se):
        ks = {"any": "KAny", "all": "KAll", "none": "KNone", "expr": "(KExpr false)", "pct": "(KExpr true)"}[k]
        return ks, (self.g(se) if k in ("expr", "pct") else "(EInt 0)")

    def gv(self, v):
        return "None" if v is None else "(Some %d%%nat)" % v

    def g(self, e):
        t = e[0]
        if t == "int":
            return "(EInt %s)" % gZ(e[1])
        if t == "bytes":
            return "(EBytes %s)" % gbytes(e[1])
        if t == "float":
            return "(EDouble %s)" % g_float(e[1])
        if t == "bool":
            return "(EBool %s)" % gbool(e[1])
        if t == "filesize":
            return "EFilesize"
        if t == "readint":
            return "(EReadInt %s %s)" % (RI_COQ[e[1]], self.g(e[2]))
        if t == "count":
            return "(ECount %s)" % self.gv(e[1])
        if t == "countin":
            return "(ECountIn %s %s %s)" % (self.gv(e[1]), self.g(e[2]), self.g(e[3]))
        if t == "offset":
            return "(EOffset %s %s)" % (self.gv(e[1]), self.g(e[2]))
        if t == "length":
            return "(ELength %s %s)" % (self.gv(e[1]), self.g(e[2]))
        if t == "var":
            return "(EVar %s)" % self.gv(e[1])
        if t == "varat":
            return "(EVarAt %s %s)" % (self.gv(e[1]), self.g(e[2]))
        if t == "varin":
            return "(EVarIn %s %s %s)" % (self.gv(e[1]), self.g(e[2]), self.g(e[3]))
        if t == "un":
            return "(EUn %s %s)" % ({"neg": "UNeg", "bnot": "UBnot", "not": "UNot"}[e[1]], self.g(e[2]))
        if t == "matches":
            from .props import c03
            return "(EUn (UMatches %s %s %s) %s)" % (gbool(e[3]), gbool(e[4]), c03.g_node(json.loads(e[2])), self.g(e[1]))
        if t == "bin":
            op = BIN_STR[e[1]][1] if e[1] in BIN_STR else BIN_COQ[e[1]]
            return "(EBin (%s) %s %s)" % (op, self.g(e[2]), self.g(e[3]))
        if t == "and":
            return "(EAnd %s)" % glist(self.g(x) for x in e[1])
        if t == "or":
            return "(EOr %s)" % glist(self.g(x) for x in e[1])
        if t == "defined":
            return "(EDefined %s)" % self.g(e[1])
        if t == "for":
            _, k, se, vs, body = e
            ks, ses = self.gsel(k, se)
            return "(EFor %s %s %s %s)" % (ks, ses, glist("%d%%nat" % v for v in vs), self.g(body))
        if t == "of":
            _, k, se, vs = e
            ks, ses = self.gsel(k, se)
            return "(EFor %s %s %s (EVar None))" % (ks, ses, glist("%d%%nat" % v for v in vs))
        if t == "ofat":
            _, k, se, vs, x = e
            ks, ses = self.gsel(k, se)
            return "(EFor %s %s %s (EVarAt None %s))" % (ks, ses, glist("%d%%nat" % v for v in vs), self.g(x))
        if t == "ofin":
            _, k, se, vs, a, b = e
            ks, ses = self.gsel(k, se)
            return "(EFor %s %s %s (EVarIn None %s %s))" % (ks, ses, glist("%d%%nat" % v for v in vs), self.g(a), self.g(b))
        if t == "forrange":
            _, k, se, f, to, body = e
            ks, ses = self.gsel(k, se)
            return "(EForRange %s %s %s %s %s)" % (ks, ses, self.g(f), self.g(to), self.g(body))
        if t == "forlist":
            _, k, se, elems, body = e
            ks, ses = self.gsel(k, se)
            return "(EForList %s %s %s %s)" % (ks, ses, glist(self.g(x) for x in elems), self.g(body))
        if t == "forrules":
            _, k, se, already, elems, text = e
            ks, ses = self.gsel(k, se)
            return "(EForRules %s %s %d%%nat %s)" % (ks, ses, already, glist("%d%%nat" % i for i in elems))
        if t == "rule":
            return "(ERule %d%%nat)" % e[1]
        if t == "ruleg":
            return "(EBool true)"
        if t == "ext":
            return "(EExt %d%%nat)" % e[1]
        if t == "bound":
            return "(EBound %d%%nat)" % e[1]
        raise ValueError(t)


# ------------------------------------------------------------------ generation
class Gen:
    """Typed random conditions over `nvars` strings.  `in_for` = an anonymous variable is selected;
    `depth_id` = number of bound identifiers in scope."""

    def __init__(self, rng, nvars, mem_len, exts=(), max_depth=4, allow_for=True, of_at_in=False):
        self.r, self.nvars, self.mem_len, self.exts, self.max_depth = rng, nvars, mem_len, list(exts), max_depth
        self.allow_for = allow_for
        self.of_at_in = of_at_in      # `N of (set) at X` / `N of (set) in (A..B)`
        self.floats = False           # float literals and mixed integer / float arithmetic and comparisons

    FLOATS = [0.0, 0.5, 1.0, 1.5, 2.0, 2.5, 3.0, 0.1, 0.2, 0.30000000000000004, 100.0, 255.0, 1e-9, 2.220446049250313e-16,
              2.2e-16, 4503599627370496.0, 9007199254740992.0, 9007199254740993.0, 9.223372036854775807e18, 1e300,
              1.7976931348623157e308, 5e-324, 2.5e-320]

    def gfloat(self, d, in_for=False, nid=0):
        """A float-typed expression (at least one float operand somewhere)."""
        r = self.r
        if d <= 0 or r.chance(1, 3):
            return ("float", r.choice(self.FLOATS))
        c = r.below(8)
        if c == 0:
            return ("un", "neg", self.gfloat(d - 1, in_for, nid))
        op = r.choice(["add", "sub", "mul", "div", "add", "sub"])
        a = self.gfloat(d - 1, in_for, nid)
        b = self.gint(d - 1, in_for, nid) if r.chance(1, 2) else self.gfloat(d - 1, in_for, nid)
        if r.chance(1, 2):
            a, b = b, a
        return ("bin", op, a, b)

    def gfloat_bool(self, d, in_for=False, nid=0):
        r = self.r
        a = self.gfloat(d, in_for, nid)
        b = r.choice([self.gfloat, self.gint, self.gint])(d, in_for, nid)
        if r.chance(1, 8):
            b = a
        if r.chance(1, 2):
            a, b = b, a
        k = r.below(10)
        if k == 0:
            return ("defined", ("bin", r.choice(["add", "div", "mul"]), a, b))
        if k == 1:
            # a float as a truth value: `x != 0.0`
            return (r.choice(["and", "or"]), [("bin", "sub", a, b), ("bool", r.chance(1, 2))])
        if k == 2:
            return ("un", "not", ("bin", "sub", a, b))
        return ("bin", r.choice(list(BIN_CMP)), a, b)

    def var(self, in_for):
        if in_for and self.r.chance(1, 2):
            return None
        return self.r.below(self.nvars)

    def small(self):
        r = self.r
        return ("int", r.choice([0, 0, 1, 1, 2, 3, 4, 5, 7, 8, 10, 16, 31, 63, 64, 100, 255, 256, 1000,
                                 self.mem_len, max(0, self.mem_len - 1), self.mem_len + 1,
                                 2147483647, 4294967295, 4294967296, 4294967300, 8589934593, 9223372036854775807]))

    def gint(self, d, in_for=False, nid=0):
        r = self.r
        if d <= 0 or r.chance(1, 4):
            c = r.below(10)
            if c < 5:
                return self.small()
            if c == 5:
                return ("filesize",)
            if c == 6:
                return ("count", self.var(in_for))
            if c == 7 and nid > 0:
                return ("bound", r.below(nid))
            if c == 8 and self.exts:
                i = r.below(len(self.exts))
                if self.exts[i][1] == "int":
                    return ("ext", i, self.exts[i][0])
            return self.small()
        c = r.below(16)
        if c < 6:
            op = r.choice(["add", "sub", "mul", "div", "mod", "xor", "band", "bor", "shl", "shr", "add", "sub"])
            return ("bin", op, self.gint(d - 1, in_for, nid), self.gint(d - 1, in_for, nid))
        if c == 6:
            return ("un", r.choice(["neg", "bnot"]), self.gint(d - 1, in_for, nid))
        if c == 7:
            return ("readint", r.choice(RI_TYPES), self.gint(d - 1, in_for, nid))
        if c == 8:
            return ("offset", self.var(in_for), self.gint(d - 1, in_for, nid))
        if c == 9:
            return ("length", self.var(in_for), self.gint(d - 1, in_for, nid))
        if c == 10:
            return ("countin", self.var(in_for), self.gint(d - 1, in_for, nid), self.gint(d - 1, in_for, nid))
        if c == 11:
            return ("count", self.var(in_for))
        if c == 12:
            return ("offset", self.var(in_for), ("int", r.choice([0, 1, 1, 2, 3, 9])))
        return self.gint(0, in_for, nid)

    def gbytes_(self, d, nid=0):
        r = self.r
        if self.exts and r.chance(1, 6):
            cands = [i for i, x in enumerate(self.exts) if x[1] == "bytes"]
            if cands:
                i = r.choice(cands)
                return ("ext", i, self.exts[i][0])
        n = r.choice([0, 1, 2, 3, 5])
        return ("bytes", bytes(r.choice([0x61, 0x62, 0x41, 0x42, 0x00, 0x7a, 0xff]) for _ in range(n)))

    def gsel(self, d, in_for, nid, n, allow_pct):
        r = self.r
        c = r.below(8)
        if c == 0:
            return "any", None
        if c == 1:
            return "all", None
        if c == 2:
            return "none", None
        if c == 3 and allow_pct and n > 0:
            # percentages on which binary64 and exact arithmetic agree (see DESIGN C04)
            # (n itself: a percentage equal to the size of the set is still a percentage)
            cands = [p for p in [0, 1, 2, 3, 4, 5, n, n, n, 10, 25, 33, 50, 51, 66, 75, 99, 100, 101, 150, 200] if pct_exact(p, n)]
            return "pct", ("int", r.choice(cands))
        if c == 4:
            return "expr", self.gint(min(d, 1), in_for, nid)
        return "expr", ("int", r.choice([0, 1, 1, 2, 2, 3, n, n + 1]))

    def gbool(self, d, in_for=False, nid=0):
        r = self.r
        if d <= 0 or r.chance(1, 5):
            c = r.below(8)
            if c == 0:
                return ("bool", r.chance(1, 2))
            if c <= 3:
                return ("var", self.var(in_for))
            if c == 4:
                return ("varat", self.var(in_for), self.small())
            if c == 5:
                return ("bin", r.choice(list(BIN_CMP)), self.small(), self.small())
            if c == 6:
                return ("varin", self.var(in_for), self.small(), self.small())
            return ("defined", self.gint(0, in_for, nid))
        if self.floats and r.chance(1, 12):
            return self.gfloat_bool(min(d, 2), in_for, nid)
        c = r.below(22)
        if c < 3:
            return ("and", [self.gbool(d - 1, in_for, nid) for _ in range(r.range(2, 4))])
        if c < 6:
            return ("or", [self.gbool(d - 1, in_for, nid) for _ in range(r.range(2, 4))])
        if c == 6:
            return ("un", "not", self.gbool(d - 1, in_for, nid))
        if c == 7:
            return ("defined", r.choice([self.gint, self.gbool])(d - 1, in_for, nid))
        if c < 11:
            return ("bin", r.choice(list(BIN_CMP)), self.gint(d - 1, in_for, nid), self.gint(d - 1, in_for, nid))
        if c == 11:
            return ("bin", r.choice(list(BIN_STR)), self.gbytes_(d - 1, nid), self.gbytes_(d - 1, nid))
        if c == 12:
            return ("bin", r.choice(["eq", "neq", "lt", "ge"]), self.gbytes_(d - 1, nid), self.gbytes_(d - 1, nid))
        if c == 13:
            return ("varat", self.var(in_for), self.gint(d - 1, in_for, nid))
        if c == 14:
            return ("varin", self.var(in_for), self.gint(d - 1, in_for, nid), self.gint(d - 1, in_for, nid))
        if not self.allow_for:
            return self.gbool(d - 1, in_for, nid)
        if c == 15 and self.nvars >= 2:
            # nested string-set loops: the outer body uses the anonymous string after an inner loop that may
            # exit early (the selected string must be restored)
            vs_o = sorted(set(r.below(self.nvars) for _ in range(r.range(1, self.nvars))))
            vs_i = sorted(set(r.below(self.nvars) for _ in range(r.range(1, self.nvars))))
            ko, seo = self.gsel(0, in_for, nid, len(vs_o), True)
            ki, sei = self.gsel(0, True, nid, len(vs_i), True)
            inner = r.choice([("of", ki, sei, vs_i), ("for", ki, sei, vs_i, self.gbool(0, True, nid)),
                              ("un", "not", ("of", ki, sei, vs_i))])
            after = r.choice([("var", None), ("bin", "gt", ("count", None), ("int", r.choice([0, 1, 2]))),
                              ("varat", None, self.small()),
                              ("bin", "eq", ("length", None, ("int", 1)), ("int", r.choice([1, 2, 3]))),
                              ("bin", "lt", ("offset", None, ("int", 1)), ("int", r.choice([1, 3, 8])))])
            return ("for", ko, seo, vs_o, (r.choice(["and", "or"]), [inner, after]))
        if c <= 16:
            vs = sorted(set(r.below(self.nvars) for _ in range(r.range(1, self.nvars + 1))))
            k, se = self.gsel(d - 1, in_for, nid, len(vs), True)
            return ("for", k, se, vs, self.gbool(d - 1, True, nid))
        if c == 17:
            vs = sorted(set(r.below(self.nvars) for _ in range(r.range(1, self.nvars + 1))))
            k, se = self.gsel(d - 1, in_for, nid, len(vs), True)
            if self.of_at_in and r.chance(1, 2):
                # the position expressions are compiled outside the loop (no anonymous string of their own) and
                # evaluated once per selected string
                if r.chance(1, 2):
                    return ("ofat", k, se, vs, r.choice([self.small(), self.gint(min(d - 1, 1), in_for, nid),
                                                         ("offset", r.below(self.nvars), ("int", r.choice([1, 1, 2])))]))
                lo = r.choice([("int", r.choice([0, 0, 1, 3])), self.gint(min(d - 1, 1), in_for, nid)])
                hi = r.choice([self.small(), ("filesize",), ("bin", "add", lo, ("int", r.choice([0, 1, 2, 5]))),
                               self.gint(min(d - 1, 1), in_for, nid)])
                return ("ofin", k, se, vs, lo, hi)
            return ("of", k, se, vs)
        if c <= 19 and nid < 3:
            k, se = self.gsel(d - 1, in_for, nid, 0, False)
            f = r.choice([("int", r.choice([0, 1, 2])), self.gint(min(d - 1, 1), in_for, nid)])
            to = r.choice([("int", r.choice([0, 1, 3, 5])), ("bin", "add", f, ("int", r.choice([0, 1, 2, 4]))),
                           ("count", self.var(in_for))])
            return ("forrange", k, se, f, to, self.gbool(d - 1, in_for, nid + 1))
        if nid < 3:
            k, se = self.gsel(d - 1, in_for, nid, 0, False)
            elems = [self.gint(min(d - 1, 1), in_for, nid) for _ in range(r.range(1, 4))]
            return ("forlist", k, se, elems, self.gbool(d - 1, in_for, nid + 1))
        return self.gbool(d - 1, in_for, nid)


def has_big_range(e):
    """Reject conditions whose ranges could iterate too long (from..to with huge literal distance)."""
    if not isinstance(e, tuple):
        return False
    if e[0] == "forrange":
        f, to = e[3], e[4]
        # only allow syntactically small upper bounds
        def small(x):
            if x[0] == "int":
                return x[1] <= 64
            if x[0] == "count":
                return True
            if x[0] == "bin" and x[1] == "add":
                return small(x[2]) and small(x[3])
            return False
        if not (small(f) and small(to)):
            return True
    for x in e[1:]:
        if isinstance(x, tuple) and has_big_range(x):
            return True
        if isinstance(x, list) and any(has_big_range(y) for y in x if isinstance(y, tuple)):
            return True
    return False


def pct_quota_impl(p, n):
    """The number of elements `p% of` <n elements> asks for, computed as the code does in binary64 (after fix
    a93a70c: the smallest count passing libyara's test found / n * 100 >= p when 0 <= p <= 100)."""
    import math
    v = float(math.ceil(p / 100.0 * n))
    if n > 0 and 0 <= p <= 100:
        passes = lambda k: (k / float(n)) * 100.0 >= float(p)
        while v > 0 and passes(v - 1.0):
            v -= 1.0
        while v <= n and not passes(v):
            v += 1.0
    return int(v)


def pct_exact(p, n):
    """(p, n) on which the binary64 computation of the code gives the exact ceil(p * n / 100) of the model."""
    return pct_quota_impl(p, n) == -((-p * n) // 100)


def find_all(mem, pat):
    """All (overlapping) occurrences of a plain byte string — the match set of an ascii text string."""
    out, i = [], mem.find(pat)
    while i >= 0:
        out.append(i)
        i = mem.find(pat, i + 1)
    return out
