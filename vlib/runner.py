# vlib/runner.py — the check protocol of DESIGN §6, shared by every property.
import json, os, sys, time, traceback
from . import core


class Prop:
    """Interface a property module implements (see vlib/props/*.py)."""
    ID = None
    LEVEL = "proof"
    COQ_TARGETS = []       # property .vo (proofs)
    MODEL_TARGETS = []     # .vo needed to evaluate cases (Model/ and Spec/ only)
    CASE_HEADER = ""       # Require lines for case files
    ALLOW_AXIOMS = ()      # regexes over axiom names acceptable in Print Assumptions
    TRUSTED = []
    ASSUMPTIONS = []
    RULE = ""
    KF = {}                # kf class number -> known-finding id
    NEEDS_HARNESS = True
    HARNESS_BINS = ("scan",)

    def translators(self, ctx):
        """Regenerate .v files from /repo. Return list of problems (strings)."""
        return []

    def corpus(self, ctx):
        return []

    def generate(self, ctx, rng, n):
        raise NotImplementedError

    def execute(self, ctx, cases):
        """Run the implementation; return outputs (one per case)."""
        raise NotImplementedError

    def term(self, ctx, case, out):
        """Gallina term : bool*bool*N, or a tuple (corr, spec, kf) decided without Coq."""
        raise NotImplementedError

    def nontrivial(self, case, out):
        """Key (hashable) if the case is non-trivial by RULE, else None."""
        return json.dumps(case, sort_keys=True)

    def sample(self, case, out):
        return {"case": case, "impl": out}

    def budget(self, tier):
        return 300 if tier == "quick" else 5000

    def extra_search(self, ctx, rng, around):
        """More cases for the failing-input search (around disagreeing cases, then fresh)."""
        return self.generate(ctx, rng, 400)

    def cleanup(self, ctx):
        pass


class Ctx:
    def __init__(self, prop, tier, seed):
        self.prop, self.tier, self.seed = prop, tier, seed
        self.binp = None
        self.t0 = time.time()
        self.notes = []
        self.dist = {}

    def count(self, key, n=1):
        self.dist[key] = self.dist.get(key, 0) + n


def _brief(kind, r):
    """one line about a further violating case, for the replay file of the first one"""
    c = r.get("case")
    c = c if isinstance(c, dict) else {}
    return {"kind": kind, "failure": c.get("_failure") or c.get("_problems"), "verdict": r.get("verdict"),
            "mutation": c.get("mutation"), "asset": c.get("asset")}


def evaluate(prop, ctx, cases):
    """Run impl + Coq on cases. Returns list of dict(case,out,verdict) where verdict=(corr,spec,kf)|None."""
    outs = prop.execute(ctx, cases)
    terms, slots, results = [], [], []
    for i, (c, o) in enumerate(zip(cases, outs)):
        t = prop.term(ctx, c, o)
        if isinstance(t, tuple):
            results.append({"case": c, "out": o, "verdict": t})
        else:
            results.append({"case": c, "out": o, "verdict": None})
            terms.append(t)
            slots.append(i)
    vs, logs = core.coq_eval(prop.ID, prop.CASE_HEADER, terms)
    for i, v in zip(slots, vs):
        results[i]["verdict"] = v
    return results, logs


def run_check(prop, tier, seed, replay=None):
    ctx = Ctx(prop, tier, seed)
    pid = prop.ID
    broken = []          # proof obligations / ties that no longer check
    lines = []
    kf_db = [f for f in core.load_known_findings()["findings"] if f["property"] == pid]
    kf_open = {f["id"]: f for f in kf_db if f.get("status") == "open"}
    ev = {"property_id": pid, "tier": tier, "seed": seed, "level": prop.LEVEL, "violations": 0}
    cov = {"rule": prop.RULE, "trusted_base": list(prop.TRUSTED), "samples": []}

    # 1. translators
    try:
        for p in prop.translators(ctx):
            broken.append("translator: " + p)
    except Exception as e:
        broken.append("translator failed: %r" % (e,))

    # 2. Coq: model first (so cases can be evaluated even when a proof breaks), then proofs
    ok_model, log_model = core.coq_make(prop.MODEL_TARGETS)
    if not ok_model:
        broken.append("model does not compile: " + log_model[-1500:])
    ok_proof, log_proof = (False, "")
    if ok_model:
        ok_proof, log_proof = core.coq_make(prop.COQ_TARGETS)
        if not ok_proof:
            broken.append("proof obligation does not check: " + log_proof[-1500:])
    hits = core.audit_sources()
    for h in hits:
        broken.append("forbidden token: " + h)
    theorems, problems = core.audit_property_file(pid)
    broken.extend(problems)
    axinfo = {"closed": 0, "axioms": []}
    if ok_proof:
        okpa, outpa = core.coq_assumptions(os.path.join("theories", "Properties", pid + ".v"))
        if not okpa:
            broken.append("Properties/%s.v does not recompile: %s" % (pid, outpa[-800:]))
        else:
            axinfo, probs = core.check_assumptions_output(outpa, len(theorems), prop.ALLOW_AXIOMS)
            broken.extend(probs)
            if axinfo["closed"] + (1 if axinfo["axioms"] else 0) == 0:
                broken.append("no Print Assumptions output")
    if tier == "thorough" and ok_proof:
        rc, out = core.sh(["coqchk", "-o", "-silent", "-Q", "theories", "Boreal", "Boreal.Properties." + pid],
                          cwd=core.COQ, timeout=1500)
        cov["coqchk"] = out[-1500:]
        if rc != 0:
            broken.append("coqchk failed: " + out[-800:])
    cov["obligations"] = len(theorems)
    cov["discharged"] = len(theorems) if (ok_proof and not problems and not hits) else 0
    cov["theorems"] = theorems
    cov["axioms_printed"] = axinfo
    cov["checker_cmd"] = "make -C coq %s && coqc Properties/%s.v (Print Assumptions)%s" % (
        " ".join(prop.COQ_TARGETS), pid, " && coqchk -o" if tier == "thorough" else "")

    # 3. harness
    results, logs = [], ""
    if prop.NEEDS_HARNESS:
        okh, outh, binp = core.harness_build(prop.HARNESS_BINS)
        if not okh:
            broken.append("harness does not build against /repo: " + outh[-1500:])
        ctx.binp = binp if okh else None
    can_run = ok_model and (ctx.binp is not None or not prop.NEEDS_HARNESS)

    ctx.notes.append("build+audit %.1fs" % (time.time() - ctx.t0))
    # 4. cases
    violations = []   # (kind, replay obj)
    known_hit = {}
    n_eval = 0
    distinct = set()
    corr_broken_cases = []

    def classify(results):
        nonlocal n_eval
        for r in results:
            n_eval += 1
            v = r["verdict"]
            key = prop.nontrivial(r["case"], r["out"])
            if key is not None:
                distinct.add(key)
            if v is None:
                corr_broken_cases.append(r)
                r["why"] = "case could not be evaluated in Coq"
                continue
            corr, spec, kf = v
            if corr and spec:
                continue
            kfid = prop.KF.get(kf)
            if corr and not spec:
                if kfid and kfid in kf_open:
                    known_hit.setdefault(kfid, r)
                else:
                    violations.append(("model-faithful defect not recorded", r))
            elif not corr and not spec:
                violations.append(("implementation deviates from model and property", r))
            else:
                corr_broken_cases.append(r)

    if can_run:
        try:
            rng = core.Rng(seed)
            if replay:
                cases = [core.load_case_file(replay)["case"]]
            else:
                cases = list(prop.corpus(ctx)) + prop.generate(ctx, rng.fork("gen"), prop.budget(tier))
            t1 = time.time()
            results, logs = evaluate(prop, ctx, cases)
            ctx.notes.append("evaluate %.1fs" % (time.time() - t1))
            classify(results)
            if logs:
                ctx.notes.append("coq eval log: " + logs[-1500:])
            # 6. search when something broke and no failing input is known yet
            if (broken or corr_broken_cases) and not violations and not replay:
                around = [r["case"] for r in corr_broken_cases[:20]]
                extra = prop.extra_search(ctx, rng.fork("search"), around)
                res2, logs2 = evaluate(prop, ctx, extra)
                n_before = len(corr_broken_cases)
                classify(res2)
                results += res2
        except Exception as e:
            broken.append("check machinery failed: %r\n%s" % (e, traceback.format_exc()[-1500:]))
        finally:
            try:
                prop.cleanup(ctx)
            except Exception:
                pass

    # 5. report
    rc = 0
    for kfid, r in sorted(known_hit.items()):
        lines.append("KNOWN-FINDING: property=%s %s: %s" % (pid, kfid, kf_open[kfid]["what"]))
    if violations:
        kind, r = violations[0]
        path = core.write_replay(pid, seed, "violation", {"property": pid, "kind": kind, "case": r["case"],
                                                         "impl": r["out"], "verdict": r["verdict"],
                                                         "n_violations": len(violations),
                                                         "other_failures": [
                                                             _brief(k2, r2) for k2, r2 in violations[1:60]]})
        lines.append("VIOLATION property=%s replay=%s" % (pid, path))
        rc = 1
    elif broken or corr_broken_cases:
        obj = {"property": pid, "kind": "proof obligation or correspondence no longer checks",
               "broken": broken,
               "correspondence_disagreements": [{"case": r["case"], "impl": r["out"], "verdict": r["verdict"]}
                                                for r in corr_broken_cases[:5]],
               "note": "no input found on which the implementation violates the specification"}
        if corr_broken_cases:
            obj["case"] = corr_broken_cases[0]["case"]
        path = core.write_replay(pid, seed, "broken", obj)
        lines.append("VIOLATION property=%s replay=%s no-failing-input-found" % (pid, path))
        rc = 1

    cov["evaluations"] = n_eval
    cov["distinct_nontrivial"] = len(distinct)
    cov["distribution"] = ctx.dist
    cov["known_findings_hit"] = sorted(known_hit)
    cov["correspondence_disagreements"] = len(corr_broken_cases)
    for r in results[:3] + results[-2:]:
        try:
            cov["samples"].append(prop.sample(r["case"], r["out"]))
        except Exception:
            pass
    if not cov["samples"]:
        cov["samples"] = [{"theorems": theorems}]
    # optional hook: a property may add coverage keys of its level (e.g. translation_validation: programs,
    # disagreements_checked) computed from the evaluated cases
    hook = getattr(prop, "extra_coverage", None)
    if hook is not None:
        try:
            cov.update(hook(ctx, results) or {})
        except Exception as e:
            ctx.notes.append("extra_coverage failed: %r" % (e,))
    if getattr(prop, "LEVEL_DETAIL", None):
        cov["level_detail"] = prop.LEVEL_DETAIL
    ev["coverage"] = cov
    ev["assumptions"] = list(prop.ASSUMPTIONS) + ctx.notes
    ev["violations"] = len(violations) + (1 if (rc and not violations) else 0)
    ev["wall_s"] = round(time.time() - ctx.t0, 2)
    head, dirty = core.repo_head()
    ev["repo_head"] = head + ("+dirty" if dirty else "")
    # content digest of the sources the harness was built from (core.cargo_build): the build output is tied to the
    # content of /repo's working tree, not to modification times
    cov["repo_source_digest"] = core.source_digest()
    core.write_evidence(pid, ev)
    for l in lines:
        print(l)
    print("%s %s: %d cases, %d distinct non-trivial, %d/%d obligations, %d broken, %.1fs" % (
        pid, tier, n_eval, len(distinct), cov["discharged"], cov["obligations"], len(broken) + len(corr_broken_cases),
        ev["wall_s"]))
    if broken:
        for b in broken[:5]:
            print("  broken:", b[:400].replace("\n", " | "))
    return rc
