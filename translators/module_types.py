#!/usr/bin/env python3
"""translators/module_types.py — re-extract, on every run, from /repo/boreal/src/module/*.rs:

  * the declared *dynamic type tree* of each module (body of `fn get_dynamic_types`),
  * the signatures of the static functions (`StaticValue::function(Self::f, vec![..], Type::X)`),
  * the collection cap constants (`const MAX_…: usize = …;`),

and write them as Gallina definitions into coq/theories/Model/ModuleTrees.v (consumed by C17 / C09) plus a JSON
rendering (returned to the caller) that the check compares with the tree the *running* code declares
(`Module::get_dynamic_types()` dumped by the harness).  Source the parser does not understand raises
TranslateError: a broken tie, never skipped.

The parser is a small recursive-descent parser over a Rust token stream restricted to the constructs the
declarations use:  Type::{Integer,Float,Bytes,Regex,Boolean}, Type::array(T), Type::dict(T), Type::object([..]),
Type::object(var.clone()), Type::function(vec![vec![T,..],..], T), `[ ("name", T), .. ]` with optional
`#[cfg(feature = "f")]` on an entry, and for the statement level: `let x = [..];`, `let mut out: HashMap<_, _> =
[..].into();`, `let _r = out.insert("k", T);`, `out.extend(x);`, a trailing `out` or `[..].into()`.
"""
import json, os, re, sys

MODULES = [  # (module name as imported in rules, source file, Coq identifier)
    ("pe", "pe.rs"), ("elf", "elf.rs"), ("macho", "macho.rs"), ("dotnet", "dotnet.rs"), ("dex", "dex.rs"),
    ("math", "math.rs"), ("hash", "hash.rs"), ("string", "string.rs"), ("time", "time.rs"), ("console", "console.rs"),
]

# Which collection each documented cap bounds.  Hand-written (this is the *specification* of "documented maxima");
# the numeric values are translated.  Path steps: field name, or "*" for "every element".
CAP_TABLE = [
    ("pe", ["sections"], "pe.rs", "MAX_PE_SECTIONS"),
    ("pe", ["data_directories"], "pe.rs", "MAX_NB_DATA_DIRECTORIES"),
    ("pe", ["import_details"], "pe.rs", "MAX_PE_IMPORTS"),
    ("pe", ["import_details", "*", "functions"], "pe.rs", "MAX_PE_IMPORTS"),
    ("pe", ["delayed_import_details"], "pe.rs", "MAX_PE_IMPORTS"),
    ("pe", ["delayed_import_details", "*", "functions"], "pe.rs", "MAX_PE_IMPORTS"),
    ("pe", ["export_details"], "pe.rs", "MAX_PE_EXPORTS"),
    ("pe", ["resources"], "pe.rs", "MAX_RESOURCES"),
    ("pe", ["version_info_list"], "pe.rs", "MAX_NB_VERSION_INFOS"),
    ("pe", ["version_info"], "pe.rs", "MAX_NB_VERSION_INFOS"),
    ("pe", ["signatures"], "pe/signatures.rs", "MAX_PE_CERTS"),
    ("elf", ["sections"], "elf.rs", "MAX_NB_SECTIONS"),
    ("elf", ["segments"], "elf.rs", "MAX_NB_SEGMENTS"),
    ("elf", ["dynamic"], "elf.rs", "MAX_NB_DYNAMIC"),
    ("elf", ["symtab"], "elf.rs", "MAX_NB_SYMBOLS"),
    ("elf", ["dynsym"], "elf.rs", "MAX_NB_SYMBOLS"),
    ("macho", ["segments"], "macho.rs", "MAX_NB_SEGMENTS"),
    ("macho", ["segments", "*", "sections"], "macho.rs", "MAX_NB_SECTIONS"),
    ("macho", ["fat_arch"], "macho.rs", "MAX_NB_ARCHS"),
    ("macho", ["file"], "macho.rs", "MAX_NB_ARCHS"),
    ("macho", ["file", "*", "segments"], "macho.rs", "MAX_NB_SEGMENTS"),
    ("macho", ["file", "*", "segments", "*", "sections"], "macho.rs", "MAX_NB_SECTIONS"),
    ("dotnet", ["classes", "*", "methods", "*", "parameters"], "dotnet.rs", "MAX_PARAM_COUNT"),
    ("dotnet", ["classes", "*", "methods", "*", "generic_parameters"], "dotnet.rs", "MAX_GEN_PARAM_COUNT"),
    ("dotnet", ["classes", "*", "generic_parameters"], "dotnet.rs", "MAX_GEN_PARAM_COUNT"),
]

# Byte-string length caps (same remark).
BYTES_CAP_TABLE = [
    ("pe", ["export_details", "*", "name"], "pe.rs", "MAX_EXPORT_NAME_LENGTH"),
    ("pe", ["export_details", "*", "forward_name"], "pe.rs", "MAX_EXPORT_NAME_LENGTH"),
    ("pe", ["import_details", "*", "library_name"], "pe.rs", "MAX_IMPORT_DLL_NAME_LENGTH"),
    ("pe", ["delayed_import_details", "*", "library_name"], "pe.rs", "MAX_IMPORT_DLL_NAME_LENGTH"),
]

# Published integers bounded by a documented maximum (totals over several collections).
INT_CAP_TABLE = [
    ("pe", ["number_of_imported_functions"], "pe.rs", "MAX_PE_IMPORTS"),
    ("pe", ["number_of_delayed_imported_functions"], "pe.rs", "MAX_PE_IMPORTS"),
]

# Counters that are *not* `number_of_<collection>` by name but are documented as the size of a collection the
# module builds (not raw header fields).  (module, prefix, counter, collection)
EXTRA_COUNT_PAIRS = [
    ("elf", [], "dynamic_section_entries", "dynamic"),
    ("elf", [], "symtab_entries", "symtab"),
    ("elf", [], "dynsym_entries", "dynsym"),
    ("pe", [], "number_of_imports", "import_details"),
    ("pe", [], "number_of_delayed_imports", "delayed_import_details"),
    ("pe", [], "number_of_exports", "export_details"),
    ("pe", [], "number_of_version_infos", "version_info_list"),
    ("pe", ["import_details", "*"], "number_of_functions", "functions"),
    ("pe", ["delayed_import_details", "*"], "number_of_functions", "functions"),
    ("pe", ["signatures", "*"], "number_of_certificates", "certificates"),
    ("pe", ["signatures", "*"], "number_of_countersignatures", "countersignatures"),
    ("pe", ["signatures", "*", "signer_info"], "length_of_chain", "chain"),
    ("pe", ["signatures", "*", "countersignatures", "*"], "length_of_chain", "chain"),
    ("dex", ["map_list"], "size", "map_item"),
    ("dex", [], "number_of_fields", "field"),
    ("dex", [], "number_of_methods", "method"),
]

# `number_of_<x>` fields that are raw header fields (the number the *file* claims), not the size of the published
# collection, which is additionally bounded by the cap and by what could be read.  Excluded from the counter check
# (kept in the generated file as documentation).  Decided by reading the producers; see notes/C17.md.
HEADER_COUNTERS = [
    ("pe", [], "number_of_sections"),       # IMAGE_FILE_HEADER.NumberOfSections
    ("elf", [], "number_of_sections"),      # e_shnum
    ("elf", [], "number_of_segments"),      # e_phnum
]


class TranslateError(Exception):
    pass


# ------------------------------------------------------------------------------------------------ lexer
TOKEN_RE = re.compile(r"""
    (?P<ws>\s+)
  | (?P<lcomment>//[^\n]*)
  | (?P<bcomment>/\*.*?\*/)
  | (?P<str>"(?:[^"\\]|\\.)*")
  | (?P<lifetime>'[A-Za-z_][A-Za-z0-9_]*(?!'))
  | (?P<num>[0-9][0-9_]*(?:usize|u32|u64|i64)?)
  | (?P<ident>[A-Za-z_][A-Za-z0-9_]*!?)
  | (?P<op>::|->|=>|==|[()\[\]{},;=.:<>&#!|*+\-/?'])
""", re.X | re.S)


def lex(src, where):
    out, i = [], 0
    while i < len(src):
        m = TOKEN_RE.match(src, i)
        if not m:
            raise TranslateError("%s: cannot tokenise at %r" % (where, src[i:i + 40]))
        i = m.end()
        k = m.lastgroup
        if k in ("ws", "lcomment", "bcomment"):
            continue
        out.append((k, m.group(0)))
    return out


def fn_body(src, name, where):
    """Text between the braces of `fn <name>(`…`) … { … }` (first occurrence outside doc comments)."""
    for m in re.finditer(r"^[ \t]*(?:pub(?:\([a-z]+\))? )?fn %s\s*\(" % re.escape(name), src, flags=re.M):
        i = src.index("{", m.end())
        depth, j = 0, i
        in_str = False
        while j < len(src):
            c = src[j]
            if in_str:
                if c == "\\":
                    j += 1
                elif c == '"':
                    in_str = False
            elif c == '"':
                in_str = True
            elif c == "/" and src[j:j + 2] == "//":
                j = src.index("\n", j)
                continue
            elif c == "{":
                depth += 1
            elif c == "}":
                depth -= 1
                if depth == 0:
                    return src[i + 1:j]
            j += 1
        raise TranslateError("%s: unbalanced braces in fn %s" % (where, name))
    return None


# ------------------------------------------------------------------------------------------------ parser
class P:
    def __init__(self, toks, where, features):
        self.t, self.i, self.where, self.features = toks, 0, where, features
        self.env = {}

    def peek(self, k=0):
        return self.t[self.i + k][1] if self.i + k < len(self.t) else None

    def next(self):
        if self.i >= len(self.t):
            raise TranslateError("%s: unexpected end of declaration" % self.where)
        v = self.t[self.i]
        self.i += 1
        return v

    def expect(self, s):
        k, v = self.next()
        if v != s:
            ctx = " ".join(x[1] for x in self.t[max(0, self.i - 8):self.i + 4])
            raise TranslateError("%s: expected %r, found %r near `%s`" % (self.where, s, v, ctx))

    def accept(self, s):
        if self.peek() == s:
            self.i += 1
            return True
        return False

    def string(self):
        k, v = self.next()
        if k != "str":
            raise TranslateError("%s: expected a string literal, found %r" % (self.where, v))
        s = v[1:-1]
        if "\\" in s or not re.fullmatch(r"[A-Za-z0-9_]+", s):
            raise TranslateError("%s: field name %r is not a plain identifier" % (self.where, s))
        return s

    def cfg_attr(self):
        """#[cfg(feature = "x")] → True when the entry is compiled in; other attributes are an error."""
        self.expect("#")
        self.expect("[")
        k, v = self.next()
        if v == "allow":
            depth = 0
            while True:
                k, v = self.next()
                if v == "(":
                    depth += 1
                elif v == ")":
                    depth -= 1
                    if depth == 0:
                        break
            self.expect("]")
            return True
        if v != "cfg":
            raise TranslateError("%s: unsupported attribute #[%s…]" % (self.where, v))
        self.expect("(")
        neg = False
        if self.peek() == "not":
            self.next()
            self.expect("(")
            neg = True
        self.expect("feature")
        self.expect("=")
        k, v = self.next()
        if k != "str":
            raise TranslateError("%s: bad cfg attribute" % self.where)
        if neg:
            self.expect(")")
        self.expect(")")
        self.expect("]")
        on = v[1:-1] in self.features
        return on != neg

    def ty(self):
        self.expect("Type")
        self.expect("::")
        k, v = self.next()
        if v in ("Integer", "Float", "Bytes", "Regex", "Boolean"):
            return {"t": v.lower()}
        if v in ("array", "dict"):
            self.expect("(")
            e = self.ty()
            self.accept(",")
            self.expect(")")
            return {"t": v, "elem": e}
        if v == "object":
            self.expect("(")
            if self.peek() == "[":
                fields = self.entries()
            else:
                k2, var = self.next()
                if var not in self.env:
                    raise TranslateError("%s: Type::object(%s…): unknown variable" % (self.where, var))
                self.expect(".")
                self.expect("clone")
                self.expect("(")
                self.expect(")")
                fields = list(self.env[var])
            self.accept(",")
            self.expect(")")
            return {"t": "object", "fields": fields}
        if v == "function":
            self.expect("(")
            args = self.vec(lambda: self.vec(self.ty))
            self.expect(",")
            ret = self.ty()
            self.accept(",")
            self.expect(")")
            return {"t": "function", "args": args, "ret": ret}
        raise TranslateError("%s: unknown type constructor Type::%s" % (self.where, v))

    def vec(self, item):
        self.expect("vec!")
        self.expect("[")
        out = []
        while self.peek() != "]":
            out.append(item())
            if not self.accept(","):
                break
        self.expect("]")
        return out

    def entries(self):
        """[ ("name", T), #[cfg(..)] ("name", T), ... ]  →  list of [name, type] in source order."""
        self.expect("[")
        out = []
        while self.peek() != "]":
            keep = True
            while self.peek() == "#":
                keep = self.cfg_attr() and keep
            self.expect("(")
            name = self.string()
            self.expect(",")
            t = self.ty()
            self.accept(",")
            self.expect(")")
            if keep:
                out.append([name, t])
            if not self.accept(","):
                break
        self.expect("]")
        return out

    def body(self):
        """Statement level of get_dynamic_types.  Returns the field list of the module's root object (HashMap
        semantics: a later insert/extend of an existing key replaces it)."""
        out = None
        while self.i < len(self.t):
            if self.peek() == "let":
                self.next()
                self.accept("mut")
                k, name = self.next()
                if self.accept(":"):
                    # type annotation `HashMap<_, _>`
                    depth = 0
                    while True:
                        k2, v2 = self.next()
                        if v2 == "<":
                            depth += 1
                        elif v2 == ">":
                            depth -= 1
                            if depth == 0:
                                break
                self.expect("=")
                if self.peek() == "[":
                    val = self.entries()
                    if self.accept("."):
                        self.expect("into")
                        self.expect("(")
                        self.expect(")")
                    self.expect(";")
                    self.env[name] = val
                elif name == "_r" and self.peek(1) == "." and self.peek(2) == "insert":
                    k2, var = self.next()
                    self.expect(".")
                    self.expect("insert")
                    self.expect("(")
                    key = self.string()
                    self.expect(",")
                    t = self.ty()
                    self.accept(",")
                    self.expect(")")
                    self.expect(";")
                    self.env[var] = hm_extend(self.env[var], [[key, t]])
                else:
                    raise TranslateError("%s: unsupported `let %s = …`" % (self.where, name))
            elif self.peek() == "[":
                val = self.entries()
                self.expect(".")
                self.expect("into")
                self.expect("(")
                self.expect(")")
                out = val
                break
            elif self.peek(1) == "." and self.peek(2) == "extend":
                k, var = self.next()
                self.expect(".")
                self.expect("extend")
                self.expect("(")
                k, src = self.next()
                self.expect(")")
                self.expect(";")
                if var not in self.env or src not in self.env:
                    raise TranslateError("%s: extend of unknown variable" % self.where)
                self.env[var] = hm_extend(self.env[var], self.env[src])
            elif self.peek() in self.env and self.i == len(self.t) - 1:
                out = self.env[self.peek()]
                self.next()
                break
            else:
                raise TranslateError("%s: unsupported statement starting at `%s`" % (
                    self.where, " ".join(x[1] for x in self.t[self.i:self.i + 8])))
        if out is None or self.i != len(self.t):
            raise TranslateError("%s: declaration does not end in a map expression" % self.where)
        return out


def hm_extend(base, more):
    out = [list(x) for x in base]
    idx = {k: i for i, (k, _) in enumerate(out)}
    for k, t in more:
        if k in idx:
            out[idx[k]] = [k, t]
        else:
            idx[k] = len(out)
            out.append([k, t])
    return out


def check_unique(fields, where):
    seen = set()
    for k, t in fields:
        if k in seen:
            raise TranslateError("%s: duplicate key %r in a map literal" % (where, k))
        seen.add(k)
        check_unique_ty(t, where + "." + k)


def check_unique_ty(t, where):
    if t["t"] == "object":
        check_unique(t["fields"], where)
    elif t["t"] in ("array", "dict"):
        check_unique_ty(t["elem"], where + "[]")
    elif t["t"] == "function":
        check_unique_ty(t["ret"], where + "()")


# ------------------------------------------------------------------------------------------------ features
def enabled_features(repo, harness_toml):
    cargo = open(os.path.join(repo, "boreal", "Cargo.toml")).read()
    m = re.search(r"^default\s*=\s*\[(.*?)\]", cargo, flags=re.M | re.S)
    if not m:
        raise TranslateError("boreal/Cargo.toml: no default feature list")
    feats = set(re.findall(r'"([^"]+)"', m.group(1)))
    ht = open(harness_toml).read()
    m2 = re.search(r'^boreal\s*=\s*\{[^}]*features\s*=\s*\[(.*?)\]', ht, flags=re.M | re.S)
    if m2:
        feats |= set(re.findall(r'"([^"]+)"', m2.group(1)))
    if re.search(r'^boreal\s*=\s*\{[^}]*default-features\s*=\s*false', ht, flags=re.M):
        feats -= set(re.findall(r'"([^"]+)"', m.group(1)))
    return feats


# ------------------------------------------------------------------------------------------------ extraction
def extract_dynamic(src, where, features):
    body = fn_body(src, "get_dynamic_types", where)
    if body is None:
        return []          # trait default: no dynamic values
    p = P(lex(body, where), where, features)
    fields = p.body()
    check_unique(fields, where)
    return fields


def extract_static_functions(src, where, features):
    """[(name, args, ret)] for every `("name", StaticValue::function(Self::f, vec![..], Type::X))` of
    get_static_values; the count is cross-checked against the number of `StaticValue::function(` occurrences."""
    body = fn_body(src, "get_static_values", where)
    if body is None:
        raise TranslateError("%s: no get_static_values" % where)
    toks = lex(body, where)
    out = []
    n_occ = 0
    i = 0
    while i < len(toks):
        if toks[i][1] == "StaticValue" and toks[i + 1][1] == "::" and toks[i + 2][1] == "function":
            n_occ += 1
            # the name is the string literal before the preceding comma
            j = i - 1
            if toks[j][1] != "," or toks[j - 1][0] != "str" or toks[j - 2][1] != "(":
                raise TranslateError("%s: StaticValue::function not in a (\"name\", …) entry" % where)
            name = toks[j - 1][1][1:-1]
            # feature gate on the entry?
            keep = True
            k = j - 3
            if k >= 0 and toks[k][1] == "]":
                # walk back to the '#'
                s = k
                while s >= 0 and toks[s][1] != "#":
                    s -= 1
                pa = P(toks[s:k + 1], where, features)
                keep = pa.cfg_attr()
            p = P(toks, where, features)
            p.i = i + 3
            p.expect("(")
            # function path: Self::f  or  path::f
            while p.peek() != ",":
                p.next()
            p.expect(",")
            args = p.vec(lambda: p.vec(p.ty))
            p.expect(",")
            ret = p.ty()
            p.accept(",")
            p.expect(")")
            if keep:
                out.append([name, args, ret])
            i = p.i
        else:
            i += 1
    if n_occ != len(re.findall(r"StaticValue::function\s*\(", body)):
        raise TranslateError("%s: static function count mismatch" % where)
    return out


def extract_const(repo, rel, name):
    src = open(os.path.join(repo, "boreal", "src", "module", rel)).read()
    m = re.search(r"^\s*(?:pub(?:\([a-z]+\))? )?const %s\s*:\s*(?:usize|u32|u64)\s*=\s*([0-9][0-9_]*)\s*;" % re.escape(name),
                  src, flags=re.M)
    if not m:
        raise TranslateError("module/%s: constant %s not found as an integer literal" % (rel, name))
    return int(m.group(1).replace("_", ""))


def resolve(fields, path, where):
    """Type reached from the object `fields` through path ('*' = element)."""
    t = {"t": "object", "fields": fields}
    for s in path:
        if s == "*":
            if t["t"] not in ("array", "dict"):
                raise TranslateError("%s: '*' step on a %s" % (where, t["t"]))
            t = t["elem"]
        else:
            if t["t"] != "object":
                raise TranslateError("%s: field step %s on a %s" % (where, s, t["t"]))
            d = dict((k, v) for k, v in t["fields"])
            if s not in d:
                raise TranslateError("%s: no field %s" % (where, s))
            t = d[s]
    return t


def count_pairs(module, fields):
    """(prefix, counter, collection) by the naming convention number_of_<x> next to an array/dict <x>, plus the
    EXTRA table, minus HEADER_COUNTERS."""
    out = []

    def walk(prefix, t):
        if t["t"] == "object":
            d = dict((k, v) for k, v in t["fields"])
            for k, v in t["fields"]:
                if k.startswith("number_of_") and v["t"] == "integer":
                    x = k[len("number_of_"):]
                    if x in d and d[x]["t"] in ("array", "dict"):
                        if (module, prefix, k) not in [(m, p, c) for m, p, c in HEADER_COUNTERS]:
                            out.append([list(prefix), k, x])
                walk(prefix + [k], v)
        elif t["t"] in ("array", "dict"):
            walk(prefix + ["*"], t["elem"])

    walk([], {"t": "object", "fields": fields})
    for m, prefix, c, x in EXTRA_COUNT_PAIRS:
        if m == module and [prefix, c, x] not in out:
            try:
                resolve(fields, prefix + [c], module)
                resolve(fields, prefix + [x], module)
            except TranslateError:
                continue   # not declared with the enabled features; C17_counts checks what is generated
            out.append([list(prefix), c, x])
    return out


# ------------------------------------------------------------------------------------------------ Gallina
def g_str(s):
    return '"%s"' % s


def g_ty(t, ind=0):
    k = t["t"]
    if k in ("integer", "float", "bytes", "regex", "boolean"):
        return "T" + k.capitalize()
    if k == "array":
        return "(TArray %s)" % g_ty(t["elem"], ind)
    if k == "dict":
        return "(TDict %s)" % g_ty(t["elem"], ind)
    if k == "object":
        pad = "\n" + " " * (ind + 2)
        return "(TObject [" + (";" + pad).join("(%s, %s)" % (g_str(n), g_ty(ft, ind + 2)) for n, ft in t["fields"]) + "])"
    if k == "function":
        return "(TFunction [%s] %s)" % ("; ".join("[" + "; ".join(g_ty(a) for a in alt) + "]" for alt in t["args"]),
                                        g_ty(t["ret"], ind))
    raise TranslateError("bad type node %r" % (t,))


def g_path(p):
    return "[" + "; ".join("SElem" if s == "*" else "SField %s" % g_str(s) for s in p) + "]"


def translate(repo="/repo", harness_toml=None):
    harness_toml = harness_toml or os.path.join(os.path.dirname(os.path.dirname(os.path.abspath(__file__))),
                                                "harness", "Cargo.toml")
    feats = enabled_features(repo, harness_toml)
    info = {"features": sorted(feats), "modules": {}, "static_functions": {}, "caps": [], "bytes_caps": [], "int_caps": [],
            "count_pairs": {}, "header_counters": [list(x) for x in HEADER_COUNTERS]}
    for name, rel in MODULES:
        path = os.path.join(repo, "boreal", "src", "module", rel)
        src = open(path).read()
        where = "module/" + rel
        info["modules"][name] = extract_dynamic(src, where + ":get_dynamic_types", feats)
        info["static_functions"][name] = extract_static_functions(src, where + ":get_static_values", feats)
        info["count_pairs"][name] = count_pairs(name, info["modules"][name])
    for m, p, rel, cname in CAP_TABLE:
        try:
            resolve(info["modules"][m], p, "cap table %s.%s" % (m, ".".join(p)))
        except TranslateError:
            if m == "pe" and p[0] == "signatures" and "authenticode" not in feats:
                continue
            raise
        info["caps"].append([m, p, cname, extract_const(repo, rel, cname)])
    for m, p, rel, cname in BYTES_CAP_TABLE:
        resolve(info["modules"][m], p, "bytes cap table %s.%s" % (m, ".".join(p)))
        info["bytes_caps"].append([m, p, cname, extract_const(repo, rel, cname)])
    for m, p, rel, cname in INT_CAP_TABLE:
        t = resolve(info["modules"][m], p, "int cap table %s.%s" % (m, ".".join(p)))
        if t["t"] != "integer":
            raise TranslateError("int cap table: %s.%s is not an integer" % (m, ".".join(p)))
        info["int_caps"].append([m, p, cname, extract_const(repo, rel, cname)])
    return info


def render(info):
    L = []
    L.append("(* Model/ModuleTrees.v — GENERATED by translators/module_types.py from /repo/boreal/src/module/*.rs on every")
    L.append("   check run; do not edit.  Declared dynamic type tree of each module (get_dynamic_types), static function")
    L.append("   signatures, (counter, collection) pairs and collection caps.  Features: %s *)" % " ".join(info["features"]))
    L.append("From Coq Require Import String.")
    L.append("From Boreal Require Import Base.Prelude Model.ModuleTypes.")
    L.append("Local Open Scope string_scope.")
    L.append("")
    for name, _ in MODULES:
        L.append("Definition tree_%s : mtype :=\n  %s." % (name, g_ty({"t": "object", "fields": info["modules"][name]}, 2)))
        L.append("")
    L.append("Definition module_trees : list (string * mtype) :=\n  [%s]." % "; ".join(
        "(%s, tree_%s)" % (g_str(n), n) for n, _ in MODULES))
    L.append("")
    L.append("(* (module, function name, accepted argument lists, return type) *)")
    sf = []
    for name, _ in MODULES:
        for fn, args, ret in info["static_functions"][name]:
            sf.append("(%s, %s, %s)" % (g_str(name), g_str(fn), g_ty({"t": "function", "args": args, "ret": ret})))
    L.append("Definition static_functions : list (string * string * mtype) :=\n  [%s]." % ";\n   ".join(sf))
    L.append("")
    L.append("(* (module, path to the enclosing object, counter field, collection field) *)")
    cp = []
    for name, _ in MODULES:
        for prefix, c, x in info["count_pairs"][name]:
            cp.append("(%s, %s, %s, %s)" % (g_str(name), g_path(prefix), g_str(c), g_str(x)))
    L.append("Definition count_pairs : list (string * list step * string * string) :=\n  [%s]." % ";\n   ".join(cp))
    L.append("")
    L.append("(* (module, path to the collection, maximum length) — values of the MAX_* constants in the source *)")
    L.append("Definition collection_caps : list (string * list step * N) :=\n  [%s]." % ";\n   ".join(
        "(%s, %s, %d) (* %s *)" % (g_str(m), g_path(p), v, c) for m, p, c, v in info["caps"]))
    L.append("")
    L.append("Definition bytes_caps : list (string * list step * N) :=\n  [%s]." % ";\n   ".join(
        "(%s, %s, %d) (* %s *)" % (g_str(m), g_path(p), v, c) for m, p, c, v in info["bytes_caps"]))
    L.append("")
    L.append("(* published integers (totals) bounded by a documented maximum *)")
    L.append("Definition int_caps : list (string * list step * N) :=\n  [%s]." % ";\n   ".join(
        "(%s, %s, %d) (* %s *)" % (g_str(m), g_path(p), v, c) for m, p, c, v in info["int_caps"]))
    L.append("")
    return "\n".join(L)


def main():
    repo = sys.argv[1] if len(sys.argv) > 1 else "/repo"
    info = translate(repo)
    sys.stdout.write(render(info))


if __name__ == "__main__":
    try:
        main()
    except TranslateError as e:
        sys.stderr.write("module_types.py: %s\n" % e)
        sys.exit(2)
