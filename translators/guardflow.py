"""translators/guardflow.py — control flow of a *guarded* function, as far as its recursion counter is concerned.

Input: the body text of the function (comments / literals blanked, nested fns blanked), its header, the name of
the counter field, and for every callee the positions of the references to it in the body.
Output: a small control-flow graph whose instructions only speak about *carriers* (variables that hold the
counter: the `Input` values of the parser, the `&mut RuleCompiler` of the compiler):

    nop | inc v | dec v | bind dst srcs | call callees srcs | ret_ok v | ret_err

and, per node, the *certificate* computed here (carrier -> counter relative to the counter on entry).  The Coq
checker (`check_prog` in Model/CallGraphCheck.v) re-checks the certificate node by node, so a mistake of the
data-flow below makes the check fail; what is trusted is the reading of the Rust text into this graph.

Rust subset understood (anything else in a guarded function raises GuardFlowError naming the site — "reject what
you cannot see"):
  * statements: `let PAT = EXPR;`, `X = EXPR;`, `X.counter += 1;`, `X.counter -= 1;`, expression statements,
    `return EXPR;`, `continue;`, `break;`, tail expressions
  * `if COND {..} else if .. else {..}`, `match SCRUT { PAT => EXPR|BLOCK, .. }`, `loop {..}`, `while COND {..}`,
    `while let PAT = EXPR {..}`, `for PAT in EXPR {..}`
  * a carrier is bound by `let (mut X, ..) = EXPR` / `let (X, ..) = EXPR` / `Ok((X, ..))` / `Ok((mut X, ..))`
    patterns and by `X = EXPR` when EXPR mentions carriers (they must all carry the same counter), and by
    `let X = Y;` for a carrier Y
  * exits: `Ok((X, ..))` (ret_ok X), `Err(..)` (ret_err), `?` (ret_err), for the compiler's struct-held counter
    a bare identifier tail (`res`) counts as ret_ok of the struct
Accepted by pattern (listed in the generated file): an expression without control-flow keywords is *flat*: every
function referred to in it (also inside closures handed to combinators) is taken to receive the carriers the
expression mentions; such an expression may not write a counter, `return Ok`, `break` or `continue`."""
import re


class GuardFlowError(Exception):
    pass


IDENT = r"[A-Za-z_][A-Za-z0-9_]*"


def match_close(s, i, open_ch="{", close_ch="}"):
    depth = 0
    for j in range(i, len(s)):
        if s[j] == open_ch:
            depth += 1
        elif s[j] == close_ch:
            depth -= 1
            if depth == 0:
                return j + 1
    raise GuardFlowError("unbalanced %s" % open_ch)


def find_top(s, i, chars, stop_at_brace=False):
    """index of the first char of `chars` at bracket depth 0 from i, or len(s)"""
    depth = 0
    j = i
    while j < len(s):
        c = s[j]
        if c in "([{":
            if c == "{" and stop_at_brace and depth == 0:
                return j
            depth += 1
        elif c in ")]}":
            depth -= 1
            if depth < 0:
                return j
        elif depth == 0 and c in chars:
            if c == "=" and s[j:j + 2] == "=>":
                j += 2
                continue
            return j
        j += 1
    return len(s)


class Builder:
    def __init__(self, fname, body, header, cname, occ, struct_held):
        self.fname, self.body, self.cname, self.occ, self.struct_held = fname, body, cname, occ, struct_held
        self.nodes = []          # {"instr": (op, ...), "succs": [], "site": text}
        self.frontier = []
        self.vars = {}           # carrier name -> id
        self.sites = {"closure": [], "question_mark": 0, "flat": 0}
        params = re.search(r"\((.*)\)", header, flags=re.S).group(1)
        self.params = []
        for m in re.finditer(r"(?:mut\s+)?(%s)\s*:\s*([^,]+)" % IDENT, params):
            if (struct_held and re.search(r"\b%s\s*\.\s*%s\b" % (m.group(1), cname), body)) or \
               (not struct_held and re.match(r"\s*Input\b", m.group(2))):
                self.params.append(self.var(m.group(1)))
        if not self.params:
            raise GuardFlowError("%s: no parameter carries %s" % (fname, cname))

    def var(self, name):
        if name not in self.vars:
            self.vars[name] = len(self.vars)
        return self.vars[name]

    # ---- graph construction
    def emit(self, instr, site=""):
        nid = len(self.nodes)
        self.nodes.append({"instr": instr, "succs": [], "site": site})
        for f in self.frontier:
            self.nodes[f]["succs"].append(nid)
        self.frontier = [nid]
        return nid

    def carriers_in(self, text):
        return sorted({self.vars[m] for m in re.findall(r"\b(%s)\b" % IDENT, text) if m in self.vars})

    def callees_in(self, a, b):
        return sorted({t for t, qs in self.occ.items() if any(a <= q < b for q in qs)})

    def where(self, a):
        return "%s, body offset %d: `%s`" % (self.fname, a, " ".join(self.body[a:a + 60].split()))

    def flat(self, a, b):
        """an expression / simple statement body[a:b] without control flow of its own"""
        text = self.body[a:b]
        if re.search(r"\b%s\s*(\+=|-=|=[^=])" % self.cname, text):
            raise GuardFlowError("counter written inside an expression: " + self.where(a))
        if re.search(r"\breturn\s+Ok\b", text) or \
           (re.search(r"\bbreak\b|\bcontinue\b", text) and not re.search(r"\b(for|while|loop)\b", text)):
            raise GuardFlowError("`return Ok` / break / continue inside an expression: " + self.where(a))
        cs = self.callees_in(a, b)
        srcs = self.carriers_in(text)
        if re.search(r"\|[^|]*\|", text) and cs:
            self.sites["closure"].append(" ".join(text.split())[:70])
        self.sites["flat"] += 1
        if cs:
            if not srcs:
                srcs = list(self.params) if self.struct_held else []
            self.emit(("call", cs, srcs), self.where(a))
        if "?" in text or re.search(r"\breturn\s+Err\b", text):
            self.sites["question_mark"] += text.count("?")
            keep = list(self.frontier)
            self.emit(("ret_err",), self.where(a))
            self.frontier = keep
        return srcs

    def bind(self, name, srcs, a):
        if not srcs:
            return
        self.emit(("bind", self.var(name), srcs), self.where(a))

    def pattern_carrier(self, pat):
        """the variable a pattern binds to the carrier returned by a parser call, if it has that shape"""
        m = re.match(r"\s*(?:Ok\s*\(\s*)?\(\s*(?:mut\s+)?(%s)\s*[,)]" % IDENT, pat)
        return m.group(1) if m else None

    # ---- statements
    def block(self, a, b, tail, loop):
        """statements of body[a:b] (the inside of a `{ }`); tail: the value of the block is the function result"""
        i = a
        while True:
            while i < b and self.body[i] in " \t\n;":
                i += 1
            if i >= b:
                return
            i = self.statement(i, b, tail, loop)

    def statement(self, i, b, tail, loop):
        s = self.body
        m = re.match(r"(if|match|loop|while|for|return|continue|break|let|unsafe)\b", s[i:b])
        kw = m.group(1) if m else None
        if kw in ("if", "match"):
            e_ = self.chain_end(i, b, kw)
            last = tail and not s[e_:b].strip(" \t\n;")
            return self.stmt_if(i, b, last, loop) if kw == "if" else self.stmt_match(i, b, last, loop)
        if kw in ("loop", "while", "for"):
            return self.stmt_loop(i, b, kw, loop)
        if kw == "unsafe":
            raise GuardFlowError("unsafe block: " + self.where(i))
        end = find_top(s, i, ";")
        end = min(end, b)
        is_last = not s[end:b].strip(" \t\n;") and (end >= b or s[end] != ";")
        text = s[i:end]
        if kw == "return":
            self.exit_expr(i + 6, end)
            return end + 1
        if kw in ("continue", "break"):
            if loop is None:
                raise GuardFlowError("%s outside a loop: %s" % (kw, self.where(i)))
            if kw == "continue":
                for f in self.frontier:
                    self.nodes[f]["succs"].append(loop["head"])
            else:
                loop["breaks"] += self.frontier
            self.frontier = []
            return end + 1
        if kw == "let":
            eq = find_top(s, i, "=")
            if eq >= end:
                return end + 1                      # declaration without value
            pat, rhs_a = s[i + 3:eq], eq + 1
            if re.match(r"\s*(if|match|loop|while)\b", s[rhs_a:end]) and \
               re.search(r"\b%s\s*(\+=|-=)|\breturn\s+Ok\b" % self.cname, s[rhs_a:end]):
                raise GuardFlowError("control flow touching the counter on the right of a `let`: " + self.where(i))
            srcs = self.flat(rhs_a, end)
            name = self.pattern_carrier(pat)
            if name and srcs and not self.struct_held:
                self.bind(name, srcs, i)
            else:
                cm = re.fullmatch(r"\s*(?:mut\s+)?(%s)\s*" % IDENT, pat)
                rm = re.fullmatch(r"\s*(%s)\s*" % IDENT, s[rhs_a:end])
                if cm and rm and rm.group(1) in self.vars:
                    self.bind(cm.group(1), [self.vars[rm.group(1)]], i)
            return end + 1
        # counter writes
        wm = re.fullmatch(r"\s*(%s)\s*\.\s*%s\s*(\+=|-=)\s*1\s*" % (IDENT, self.cname), text)
        if wm:
            if wm.group(1) not in self.vars:
                raise GuardFlowError("counter of an unknown value written: " + self.where(i))
            self.emit(("inc" if wm.group(2) == "+=" else "dec", self.vars[wm.group(1)]), self.where(i))
            return end + 1
        # assignment to a carrier
        am = re.match(r"\s*(%s)\s*=[^=]" % IDENT, text)
        if am and am.group(1) in self.vars and not self.struct_held:
            srcs = self.flat(i + text.index("=") + 1, end)
            if not srcs:
                raise GuardFlowError("carrier assigned from something that carries no counter: " + self.where(i))
            self.bind(am.group(1), srcs, i)
            return end + 1
        if tail and is_last:
            self.exit_expr(i, end)
            return b
        self.flat(i, end)
        return end + 1

    def chain_end(self, i, b, kw):
        s = self.body
        if kw == "match":
            return match_close(s, find_top(s, i + 5, "", stop_at_brace=True))
        while True:
            end = match_close(s, find_top(s, i + 2, "", stop_at_brace=True))
            em = re.match(r"\s*else\b\s*", s[end:b])
            if not em:
                return end
            j = end + em.end()
            if s[j:j + 2] == "if" and not s[j + 2].isalnum():
                i = j
                continue
            return match_close(s, j)

    def exit_expr(self, a, b):
        text = self.body[a:b].strip()
        m = re.match(r"Ok\s*\(\s*\(\s*(%s)\s*," % IDENT, text)
        if m and not self.struct_held:
            if m.group(1) not in self.vars:
                raise GuardFlowError("Ok result built on an unknown value: " + self.where(a))
            self.flat(a, b)
            self.emit(("ret_ok", self.vars[m.group(1)]), self.where(a))
        elif re.match(r"Err\s*\(", text):
            self.flat(a, b)
            self.emit(("ret_err",), self.where(a))
        elif self.struct_held and (re.fullmatch(IDENT, text) or re.match(r"Ok\s*\(", text)):
            self.flat(a, b)
            self.emit(("ret_ok", self.params[0]), self.where(a))
        else:
            raise GuardFlowError("exit value not understood: " + self.where(a))
        self.frontier = []

    def stmt_if(self, i, b, tail, loop):
        s = self.body
        outs = []
        falls_through = True
        while True:
            brace = find_top(s, i + 2, "", stop_at_brace=True)
            cond_a = i + 2
            lm = re.match(r"\s*let\b(.*?)=(?!=)", s[cond_a:brace], flags=re.S)
            srcs = self.flat(cond_a + (lm.end() if lm else 0), brace)
            start = list(self.frontier)
            if lm:
                name = self.pattern_carrier(lm.group(1))
                if name and srcs and not self.struct_held:
                    self.bind(name, srcs, i)
            end = match_close(s, brace)
            self.block(brace + 1, end - 1, tail, loop)
            outs += self.frontier
            self.frontier = start
            em = re.match(r"\s*else\b\s*", s[end:b])
            if not em:
                i = end
                break
            j = end + em.end()
            if s[j:j + 2] == "if" and not s[j + 2].isalnum():
                i = j
                continue
            end2 = match_close(s, j)
            self.block(j + 1, end2 - 1, tail, loop)
            outs += self.frontier
            falls_through = False
            i = end2
            break
        self.frontier = outs + (self.frontier if falls_through else [])
        if tail and falls_through and not s[i:b].strip(" \t\n;"):
            raise GuardFlowError("`if` without `else` as the value of the function: " + self.where(i))
        return i

    def stmt_match(self, i, b, tail, loop):
        s = self.body
        brace = find_top(s, i + 5, "", stop_at_brace=True)
        srcs = self.flat(i + 5, brace)
        end = match_close(s, brace)
        start = list(self.frontier)
        outs = []
        j = brace + 1
        while True:
            while j < end - 1 and s[j] in " \t\n,":
                j += 1
            if j >= end - 1:
                break
            k = j
            depth = 0
            while k < end - 1:
                if s[k] in "([{":
                    depth += 1
                elif s[k] in ")]}":
                    depth -= 1
                elif depth == 0 and s[k:k + 2] == "=>":
                    break
                k += 1
            if k >= end - 1:
                raise GuardFlowError("match arm without `=>`: " + self.where(j))
            pat = s[j:k]
            self.frontier = list(start)
            name = self.pattern_carrier(pat)
            if name and srcs and not self.struct_held and re.match(r"\s*Ok\b", pat):
                self.bind(name, srcs, j)
            k += 2
            while s[k] in " \t\n":
                k += 1
            if s[k] == "{":
                e2 = match_close(s, k)
                self.block(k + 1, e2 - 1, tail, loop)
                j = e2
            else:
                e2 = min(find_top(s, k, ","), end - 1)
                self.statement_expr(k, e2, tail, loop)
                j = e2
            outs += self.frontier
        self.frontier = outs
        return end

    def statement_expr(self, a, b, tail, loop):
        """an arm body that is a bare expression"""
        text = self.body[a:b]
        if re.match(r"\s*(if|match|loop|while|for|return|continue|break)\b", text):
            self.statement(a, b, tail, loop)
            return
        am = re.match(r"\s*(%s)\s*=[^=]" % IDENT, text)
        if am or not tail:
            self.statement(a, b, False, loop)
        else:
            self.exit_expr(a, b)

    def stmt_loop(self, i, b, kw, loop):
        s = self.body
        brace = find_top(s, i + len(kw), "", stop_at_brace=True)
        head = self.emit(("nop",), self.where(i))
        mine = {"head": head, "breaks": []}
        head_text_a = i + len(kw)
        if kw == "while":
            lm = re.match(r"\s*let\b(.*?)=(?!=)", s[head_text_a:brace], flags=re.S)
            srcs = self.flat(head_text_a + (lm.end() if lm else 0), brace)
            exit_from = list(self.frontier)
            if lm:
                name = self.pattern_carrier(lm.group(1))
                if name and srcs and not self.struct_held:
                    self.bind(name, srcs, i)
        elif kw == "for":
            im = re.search(r"\bin\b", s[head_text_a:brace])
            self.flat(head_text_a + (im.end() if im else 0), brace)
            exit_from = list(self.frontier)
        else:
            exit_from = []
        end = match_close(s, brace)
        self.block(brace + 1, end - 1, False, mine)
        for f in self.frontier:
            self.nodes[f]["succs"].append(head)
        self.frontier = exit_from + mine["breaks"]
        return end

    # ---- certificate: forward data flow, intersection at joins
    def certificate(self):
        n = len(self.nodes)
        env = [None] * n
        env[0] = {v: 0 for v in self.params}
        work = [0]
        steps = 0
        while work:
            steps += 1
            if steps > 20000:
                raise GuardFlowError("%s: counter not invariant in a loop" % self.fname)
            k = work.pop()
            out = self.transfer(k, env[k])
            for sx in self.nodes[k]["succs"]:
                if env[sx] is None:
                    new = dict(out)
                else:
                    new = {v: d for v, d in env[sx].items() if out.get(v) == d}
                if new != env[sx]:
                    env[sx] = new
                    work.append(sx)
        for k in range(n):
            if env[k] is None:
                env[k] = {}
        return env

    def transfer(self, k, e):
        ins = self.nodes[k]["instr"]
        site = self.nodes[k]["site"]
        e = dict(e)
        if ins[0] == "inc":
            if ins[1] not in e:
                raise GuardFlowError("increment of a counter whose value is not known on every path: " + site)
            e[ins[1]] += 1
        elif ins[0] == "dec":
            if e.get(ins[1], 0) < 1:
                raise GuardFlowError("UNBALANCED: decrement below the counter on entry: " + site)
            e[ins[1]] -= 1
        elif ins[0] == "bind":
            ds = {e.get(x) for x in ins[2]}
            if len(ds) != 1 or None in ds:
                raise GuardFlowError("values with different / unknown counters meet: " + site)
            e[ins[1]] = ds.pop()
        elif ins[0] == "ret_ok":
            if e.get(ins[1]) != 0:
                raise GuardFlowError("UNBALANCED: Ok exit with the counter at entry%+d (%s): %s"
                                     % (e.get(ins[1], 0) if ins[1] in e else 0,
                                        "known" if ins[1] in e else "not known on every path", site))
        return e


def analyse_guard(fname, body, header, cname, occ, struct_held):
    """-> dict(nodes=[(instr, succs, cert)], params=[..], vars={name: id}, sites=..)"""
    bld = Builder(fname, body, header, cname, occ, struct_held)
    bld.emit(("nop",), "entry")
    inner_a, inner_b = 1, len(body) - 1
    bld.block(inner_a, inner_b, True, None)
    if bld.frontier:
        raise GuardFlowError("%s: control reaches the end of the function without a recognised exit" % fname)
    env = bld.certificate()
    return {"nodes": [(nd["instr"], nd["succs"], env[k], nd["site"]) for k, nd in enumerate(bld.nodes)],
            "params": bld.params, "vars": bld.vars, "sites": bld.sites}
