#!/usr/bin/env python3
"""translators/consts.py — re-extract, on every run, constants of /repo that theorems and models import, and write
them to coq/theories/Base/Consts.v:

  * ATOM_SIZE                      (boreal/src/atoms.rs)
  * the byte-rank table            (boreal/src/atoms.rs `fn byte_rank`, a `match` over u8 patterns / `is_ascii_*` guards)
  * the "very common byte" set and the penalty/bonus factors of `atom_rank`   (boreal/src/atoms.rs)
  * the default base64 alphabet    (boreal/src/matcher/base64.rs DEFAULT_ALPHABET)
  * default ScanParams values      (boreal/src/scanner/params.rs: match_max_length, string_max_nb_matches,
                                    max_fetched_region_size)
  * MAX_SPLIT_MATCH_LENGTH         (boreal/src/matcher/validator.rs) when present

Source it cannot parse raises TranslateError: a broken tie (reported by the check), never silently skipped.
"""
import os, re, sys


class TranslateError(Exception):
    pass


def read(repo, rel):
    p = os.path.join(repo, rel)
    try:
        return open(p, encoding="utf-8").read()
    except OSError as e:
        raise TranslateError("cannot read %s: %s" % (rel, e))


def rust_int(s):
    s = s.strip().replace("_", "")
    s = re.sub(r"(usize|u8|u16|u32|u64|i64|i32)$", "", s)
    # products such as 1024 * 1024 * 1024
    if "*" in s:
        v = 1
        for part in s.split("*"):
            v *= rust_int(part)
        return v
    if s.startswith("0x") or s.startswith("0X"):
        return int(s[2:], 16)
    if re.fullmatch(r"\d+", s):
        return int(s)
    if re.fullmatch(r"b'(.)'", s):
        return ord(s[2])
    raise TranslateError("unsupported integer literal %r" % s)


def const_value(src, name, rel):
    m = re.search(r"\bconst\s+%s\s*:\s*\w+\s*=\s*([^;]+);" % re.escape(name), src)
    if not m:
        raise TranslateError("constant %s not found in %s" % (name, rel))
    return rust_int(m.group(1))


GUARDS = {
    "is_ascii_lowercase": lambda b: 97 <= b <= 122,
    "is_ascii_uppercase": lambda b: 65 <= b <= 90,
    "is_ascii_digit": lambda b: 48 <= b <= 57,
    "is_ascii_alphabetic": lambda b: 97 <= b <= 122 or 65 <= b <= 90,
    "is_ascii_alphanumeric": lambda b: 97 <= b <= 122 or 65 <= b <= 90 or 48 <= b <= 57,
}


def fn_body(src, name, rel):
    m = re.search(r"\bfn\s+%s\s*\(" % re.escape(name), src)
    if not m:
        raise TranslateError("fn %s not found in %s" % (name, rel))
    i = src.index("{", m.end())
    depth, j = 0, i
    while j < len(src):
        if src[j] == "{":
            depth += 1
        elif src[j] == "}":
            depth -= 1
            if depth == 0:
                return src[i + 1:j]
        j += 1
    raise TranslateError("unbalanced braces in fn %s (%s)" % (name, rel))


def byte_rank_table(src, rel):
    body = fn_body(src, "byte_rank", rel)
    m = re.search(r"match\s+(\w+)\s*\{(.*)\}", body, flags=re.S)
    if not m:
        raise TranslateError("byte_rank: no match expression")
    arms_txt = re.sub(r"//[^\n]*", "", m.group(2))
    arms = [a.strip() for a in arms_txt.split(",") if a.strip()]
    parsed = []
    for a in arms:
        mm = re.fullmatch(r"(.+?)=>\s*([0-9_xa-fA-F]+)", a, flags=re.S)
        if not mm:
            raise TranslateError("byte_rank: cannot parse arm %r" % a)
        pat, val = mm.group(1).strip(), rust_int(mm.group(2))
        g = re.fullmatch(r"(\w+)\s+if\s+(\w+)\.(\w+)\(\)", pat)
        if g:
            if g.group(1) != g.group(2) or g.group(3) not in GUARDS:
                raise TranslateError("byte_rank: unsupported guard %r" % pat)
            parsed.append((GUARDS[g.group(3)], val))
        elif pat == "_":
            parsed.append((lambda b: True, val))
        else:
            alts = []
            for alt in pat.split("|"):
                alt = alt.strip()
                r = re.fullmatch(r"(\S+)\s*\.\.=\s*(\S+)", alt)
                if r:
                    lo, hi = rust_int(r.group(1)), rust_int(r.group(2))
                    alts.append((lo, hi))
                else:
                    v = rust_int(alt)
                    alts.append((v, v))
            parsed.append((lambda b, alts=alts: any(lo <= b <= hi for lo, hi in alts), val))
    table = []
    for b in range(256):
        for pred, val in parsed:
            if pred(b):
                table.append(val)
                break
        else:
            raise TranslateError("byte_rank: byte %d not covered" % b)
    return table


def atom_rank_params(src, rel):
    body = fn_body(src, "atom_rank", rel)
    m = re.search(r"nb_uniq\s*==\s*1\s*&&\s*\(([^)]*)\)", body)
    if not m:
        raise TranslateError("atom_rank: common-byte condition not found")
    common = []
    for t in m.group(1).split("||"):
        mm = re.fullmatch(r"bitmask\[([^\]]+)\]", t.strip())
        if not mm:
            raise TranslateError("atom_rank: cannot parse %r" % t)
        common.append(rust_int(mm.group(1)))
    m1 = re.search(r"quality\s*-=\s*(\d+)\s*\*\s*u32::try_from\(atom\.len\(\)\)\.unwrap_or\((\d+)\)", body)
    m2 = re.search(r"quality\s*\+=\s*(\d+)\s*\*\s*nb_uniq", body)
    if not m1 or not m2:
        raise TranslateError("atom_rank: penalty/bonus statements not found")
    return common, int(m1.group(1)), int(m2.group(1))


def default_alphabet(src, rel):
    m = re.search(r'DEFAULT_ALPHABET\s*:\s*&\[u8;\s*64\]\s*=\s*b"([^"]*)"', src, flags=re.S)
    if not m:
        raise TranslateError("DEFAULT_ALPHABET not found in %s" % rel)
    s = m.group(1)
    if "\\" in s or len(s) != 64:
        raise TranslateError("DEFAULT_ALPHABET: unexpected content")
    return [ord(c) for c in s]


def default_param(src, field, rel):
    m = re.search(r"impl\s+Default\s+for\s+ScanParams\s*\{.*?fn\s+default\(\)\s*->\s*Self\s*\{\s*Self\s*\{(.*?)\}",
                  src, flags=re.S)
    if not m:
        raise TranslateError("ScanParams::default not found in %s" % rel)
    mm = re.search(r"\b%s\s*:\s*([^,]+)," % re.escape(field), m.group(1))
    if not mm:
        raise TranslateError("ScanParams::default: field %s not found" % field)
    return rust_int(mm.group(1))


def nlist(xs):
    return "[" + "; ".join("%d" % x for x in xs) + "]"


def generate(repo):
    atoms = read(repo, "boreal/src/atoms.rs")
    b64 = read(repo, "boreal/src/matcher/base64.rs")
    params = read(repo, "boreal/src/scanner/params.rs")
    out = []
    out.append("(* Base/Consts.v — GENERATED by translators/consts.py from /repo on every check run. Do not edit. *)")
    out.append("From Coq Require Import List NArith.")
    out.append("Import ListNotations.")
    out.append("Local Open Scope N_scope.")
    out.append("")
    out.append("(* boreal/src/atoms.rs *)")
    out.append("Definition ATOM_SIZE : N := %d." % const_value(atoms, "ATOM_SIZE", "atoms.rs"))
    tbl = byte_rank_table(atoms, "atoms.rs")
    out.append("Definition BYTE_RANK_TABLE : list N :=\n  %s." % nlist(tbl))
    common, pen, bonus = atom_rank_params(atoms, "atoms.rs")
    out.append("Definition ATOM_COMMON_BYTES : list N := %s." % nlist(common))
    out.append("Definition ATOM_UNIFORM_PENALTY : N := %d." % pen)
    out.append("Definition ATOM_UNIQ_BONUS : N := %d." % bonus)
    out.append("")
    out.append("(* boreal/src/matcher/base64.rs *)")
    out.append("Definition BASE64_DEFAULT_ALPHABET : list N :=\n  %s." % nlist(default_alphabet(b64, "base64.rs")))
    out.append("")
    out.append("(* boreal/src/scanner/params.rs, ScanParams::default *)")
    for f in ("match_max_length", "string_max_nb_matches", "max_fetched_region_size"):
        out.append("Definition DEFAULT_%s : N := %d." % (f.upper(), default_param(params, f, "params.rs")))
    vpath = os.path.join(repo, "boreal/src/matcher/validator.rs")
    if os.path.exists(vpath):
        v = open(vpath, encoding="utf-8").read()
        if re.search(r"\bconst\s+MAX_SPLIT_MATCH_LENGTH\b", v):
            out.append("")
            out.append("(* boreal/src/matcher/validator.rs *)")
            out.append("Definition MAX_SPLIT_MATCH_LENGTH : N := %d." % const_value(v, "MAX_SPLIT_MATCH_LENGTH",
                                                                               "validator.rs"))
    return "\n".join(out) + "\n"


def run(repo, verif):
    """Regenerate Base/Consts.v; returns a list of problems (empty when fine)."""
    try:
        txt = generate(repo)
    except TranslateError as e:
        return ["consts.py: %s" % e]
    path = os.path.join(verif, "coq", "theories", "Base", "Consts.v")
    try:
        if open(path).read() == txt:
            return []
    except OSError:
        pass
    tmp = path + ".tmp%d" % os.getpid()
    open(tmp, "w").write(txt)
    os.replace(tmp, path)
    return []


if __name__ == "__main__":
    repo = sys.argv[1] if len(sys.argv) > 1 else "/repo"
    sys.stdout.write(generate(repo))
