#!/usr/bin/env python3
"""translators/wire_schema.py — re-extract boreal's wire format from the source (C10).

Reads every `mod wire { … }` block under <repo>/boreal/src plus the struct/enum definitions of the types they
serialise, and writes coq/theories/Model/WireSchemas.v:

  write_env  : per Rust type, the sequence written by `serialize`, each entry tagged with the Rust field it is
               taken from and typed from the field's declared type;
  read_env   : per Rust type, the sequence read by `deserialize…`, each entry tagged with the constructor field
               the value ends up in and typed from the explicit type of the read;
  discriminant tables are part of the SEnum entries on both sides;
  build_sites / rebuild_sites : literal constructor arguments of the objects that are rebuilt on load;
  header constants (magic, version, kind).

Anything that does not fit the shapes handled here raises Untranslatable: the check then reports a broken tie.
Only the Python standard library is used.
"""
import os, re, sys

class Untranslatable(Exception):
    pass

def fail(msg, where=None):
    raise Untranslatable(msg + ((" @ " + where) if where else ""))

# ------------------------------------------------------------------------------------------------ tokens
TOK = re.compile(r'''
    (?P<ws>\s+)
  | (?P<lc>//[^\n]*)
  | (?P<bc>/\*.*?\*/)
  | (?P<rstr>b?r(?P<h>\#*)".*?"(?P=h))
  | (?P<str>b?"(?:\\.|[^"\\])*")
  | (?P<chr>b?'(?:\\.[^']*|[^'\\])')
  | (?P<life>'[A-Za-z_]\w*)
  | (?P<num>\d\w*(?:\.\d\w*)?)
  | (?P<id>[A-Za-z_]\w*)
  | (?P<op>::|->|=>|\.\.=|\.\.|&&|\|\||==|!=|[-+*/%^!&|=<>@.,;:\#$?~(){}\[\]])
''', re.X | re.S)

class G:
    """a delimited group of tokens"""
    __slots__ = ("d", "c")
    def __init__(self, d, c):
        self.d, self.c = d, c
    def __repr__(self):
        return "G%s%s" % (self.d, self.c)

CLOSE = {"(": ")", "[": "]", "{": "}"}

def tokenize(src, fname):
    out, pos = [], 0
    while pos < len(src):
        m = TOK.match(src, pos)
        if not m:
            fail("cannot tokenize %r" % src[pos:pos + 30], fname)
        pos = m.end()
        k = m.lastgroup
        if k == "h":
            k = "rstr"
        if k in ("ws", "lc", "bc"):
            continue
        out.append(m.group(0))
    return out

def tree(toks, fname):
    stack = [G("", [])]
    for t in toks:
        if t in CLOSE:
            stack.append(G(t, []))
        elif t in (")", "]", "}"):
            g = stack.pop()
            if CLOSE.get(g.d) != t or not stack:
                fail("unbalanced delimiters", fname)
            stack[-1].c.append(g)
        else:
            stack[-1].c.append(t)
    if len(stack) != 1:
        fail("unbalanced delimiters at end", fname)
    return strip_attrs(stack[0].c)

DROP_CFG = ("cfg(boreal_verif)", "cfg(test)", 'cfg(not(feature="serialize"))')

def flat(ts):
    out = []
    for t in ts:
        if isinstance(t, G):
            out.append(t.d + flat(t.c) + CLOSE[t.d])
        else:
            out.append(t)
    return "".join(out)

def strip_attrs(ts):
    """drop attributes; an item guarded by a cfg that is off in the configuration the harness builds
    (tests, serialize disabled) or that belongs to the verification hooks is dropped with its attribute"""
    out, i = [], 0
    while i < len(ts):
        t = ts[i]
        if t == "#" and i + 1 < len(ts) and isinstance(ts[i + 1], G) and ts[i + 1].d == "[":
            attr = flat(ts[i + 1].c)
            i += 2
            if attr in DROP_CFG:
                # skip the guarded item: up to and including `,` / `;`, or through its `{…}` body
                while i < len(ts):
                    u = ts[i]
                    i += 1
                    if u in (",", ";"):
                        break
                    if isinstance(u, G) and u.d == "{":
                        if i < len(ts) and ts[i] in (",", ";"):
                            i += 1
                        break
            continue
        if t == "#" and i + 2 < len(ts) and ts[i + 1] == "!" and isinstance(ts[i + 2], G):
            i += 3
            continue
        if isinstance(t, G):
            t = G(t.d, strip_attrs(t.c))
        out.append(t)
        i += 1
    return out

def is_id(t):
    return isinstance(t, str) and re.fullmatch(r"[A-Za-z_]\w*", t) is not None

def txt(ts):
    """canonical text of a token sequence"""
    if isinstance(ts, (str, G)):
        ts = [ts]
    out = []
    for t in ts:
        if isinstance(t, G):
            s = t.d + txt(t.c) + CLOSE[t.d]
        else:
            s = t
        if out and re.match(r"\w", s[:1] or " ") and re.match(r"\w", out[-1][-1:] or " "):
            out.append(" ")
        out.append(s)
    return "".join(out)

def split_top(ts, sep=","):
    """split on `sep` outside groups and outside <...> (generic arguments)"""
    parts, cur, depth = [], [], 0
    for i, t in enumerate(ts):
        if t == "<" and cur and (is_id(cur[-1]) or cur[-1] == "::"):
            depth += 1
        elif t == ">" and depth > 0 and (not cur or cur[-1] != "-"):
            depth -= 1
        if t == sep and depth == 0:
            parts.append(cur)
            cur = []
        else:
            cur.append(t)
    if cur:
        parts.append(cur)
    return parts

def contains(ts, word):
    for t in ts:
        if isinstance(t, G):
            if contains(t.c, word):
                return True
        elif t == word:
            return True
    return False

def idents(ts):
    out = []
    for t in ts:
        if isinstance(t, G):
            out += idents(t.c)
        elif is_id(t):
            out.append(t)
    return out

# ------------------------------------------------------------------------------------------------ items
class Fn:
    def __init__(self, name, params, ret, body, owner, fname):
        self.name, self.params, self.ret, self.body, self.owner, self.fname = name, params, ret, body, owner, fname

def parse_fn(ts, i, owner, fname):
    """ts[i] == 'fn'. Returns (Fn or None, next index)."""
    name = ts[i + 1]
    j = i + 2
    if ts[j] == "<":
        depth = 0
        while True:
            if ts[j] == "<":
                depth += 1
            elif ts[j] == ">":
                depth -= 1
                if depth == 0:
                    j += 1
                    break
            j += 1
    if not (isinstance(ts[j], G) and ts[j].d == "("):
        fail("fn %s: parameter list not found" % name, fname)
    params = []
    for p in split_top(ts[j].c):
        if not p:
            continue
        if "self" in [x for x in p if isinstance(x, str)] and ":" not in p:
            params.append(("self", []))
            continue
        k = p.index(":")
        pn = [x for x in p[:k] if x != "mut"]
        params.append((pn[-1], p[k + 1:]))
    j += 1
    ret = []
    if j < len(ts) and ts[j] == "->":
        j += 1
        while j < len(ts) and not (isinstance(ts[j], G) and ts[j].d == "{") and ts[j] not in (";", "where"):
            ret.append(ts[j])
            j += 1
    if j < len(ts) and ts[j] == "where":
        while not (isinstance(ts[j], G) and ts[j].d == "{"):
            j += 1
    if j < len(ts) and isinstance(ts[j], G) and ts[j].d == "{":
        return Fn(name, params, ret, ts[j].c, owner, fname), j + 1
    return None, j + 1

class Source:
    """definitions collected from one file"""
    def __init__(self):
        self.structs = {}     # name -> [(field, type tokens)] ; tuple structs use "0","1",…
        self.enums = {}       # name -> [(variant, kind, [(field, type tokens)])] kind in unit/tuple/struct
        self.impl_fns = {}    # (Type, fn name) -> Fn      (outside mod wire)
        self.wire = None      # list of token trees of the `mod wire` body
        self.consts = {}

def parse_fields(g, fname):
    out = []
    for p in split_top(g.c):
        p = list(p)
        while p and (p[0] == "pub"):
            p = p[1:]
            if p and isinstance(p[0], G) and p[0].d == "(":
                p = p[1:]
        if not p:
            continue
        if g.d == "{":
            if len(p) < 3 or p[1] != ":":
                fail("field not understood: " + txt(p), fname)
            out.append((p[0], p[2:]))
        else:
            out.append((str(len(out)), p))
    return out

def scan_items(ts, src, fname, owner=None, in_wire=False):
    i = 0
    while i < len(ts):
        t = ts[i]
        if t == "mod" and i + 2 < len(ts) and isinstance(ts[i + 2], G) and ts[i + 2].d == "{":
            name = ts[i + 1]
            if name == "wire" and not in_wire:
                if src.wire is not None:
                    fail("two `mod wire` blocks in one file", fname)
                src.wire = ts[i + 2].c
            elif name == "tests":
                pass
            else:
                scan_items(ts[i + 2].c, src, fname, owner, in_wire)
            i += 3
            continue
        if t == "const" and is_id(ts[i + 1]) and ts[i + 2] == ":":
            j = i
            while ts[j] != ";":
                j += 1
            seg = ts[i:j]
            if "=" in seg:
                k = seg.index("=")
                src.consts[ts[i + 1]] = seg[k + 1:]
            i = j + 1
            continue
        if t == "struct" and is_id(ts[i + 1]):
            name = ts[i + 1]
            j = i + 2
            while not isinstance(ts[j], G) and ts[j] != ";":
                j += 1
            if isinstance(ts[j], G):
                src.structs[name] = parse_fields(ts[j], fname)
            else:
                src.structs[name] = []
            i = j + 1
            continue
        if t == "enum" and is_id(ts[i + 1]):
            name = ts[i + 1]
            j = i + 2
            while not (isinstance(ts[j], G) and ts[j].d == "{"):
                j += 1
            vs = []
            for p in split_top(ts[j].c):
                if not p:
                    continue
                vn = p[0]
                if len(p) == 1:
                    vs.append((vn, "unit", []))
                elif isinstance(p[1], G) and p[1].d == "(":
                    vs.append((vn, "tuple", parse_fields(p[1], fname)))
                elif isinstance(p[1], G) and p[1].d == "{":
                    vs.append((vn, "struct", parse_fields(p[1], fname)))
                elif p[1] == "=":
                    vs.append((vn, "unit", []))
                else:
                    fail("enum variant not understood: " + txt(p), fname)
            src.enums[name] = vs
            i = j + 1
            continue
        if t == "impl":
            j = i + 1
            while not (isinstance(ts[j], G) and ts[j].d == "{"):
                j += 1
            head = ts[i + 1:j]
            if head and head[0] == "<":      # impl<...> generics
                depth, k = 0, 0
                while True:
                    if head[k] == "<":
                        depth += 1
                    elif head[k] == ">":
                        depth -= 1
                        if depth == 0:
                            break
                    k += 1
                head = head[k + 1:]
            if "for" in head:
                k = head.index("for")
                trait, ty = txt(head[:k]), head[k + 1:]
            else:
                trait, ty = None, head
            tyname = [x for x in ty if is_id(x)]
            tyname = tyname[0] if tyname else "?"
            scan_impl(ts[j].c, src, fname, trait, tyname)
            i = j + 1
            continue
        if t == "fn":
            f, i2 = parse_fn(ts, i, owner, fname)
            if f:
                src.impl_fns[(None, f.name)] = f
            i = i2
            continue
        i += 1

def scan_impl(ts, src, fname, trait, tyname):
    i = 0
    while i < len(ts):
        if ts[i] == "fn":
            f, i2 = parse_fn(ts, i, tyname, fname)
            if f:
                f.trait = trait
                src.impl_fns[(tyname, f.name) if trait is None else (tyname, trait + "::" + f.name)] = f
            i = i2
        else:
            i += 1

# ------------------------------------------------------------------------------------------------ types -> schemas
PRIM = {"u8": ("U8",), "u32": ("U32",), "u64": ("U64",), "usize": ("U64",), "i64": ("I64",), "f64": ("F64",),
        "bool": ("Bool",), "String": ("Str",), "str": ("Str",), "NonZeroU32": ("NZ32",)}
TRANSPARENT = {"Box", "Arc", "Rc"}

def parse_type(ts, where):
    s, rest = parse_type_(list(ts), where)
    if rest:
        fail("trailing tokens in type %s" % txt(ts), where)
    return s

def parse_type_(ts, where):
    if not ts:
        fail("empty type", where)
    t = ts[0]
    if t == "&":
        ts = ts[1:]
        if ts and isinstance(ts[0], str) and ts[0].startswith("'"):
            ts = ts[1:]
        if ts and ts[0] == "mut":
            ts = ts[1:]
        return parse_type_(ts, where)
    if t == "dyn":
        return ("Dyn", txt(ts[1:])), []
    if isinstance(t, G) and t.d == "(":
        parts = split_top(t.c)
        return ("Struct", [(str(i), parse_type(p, where)) for i, p in enumerate(parts)]), ts[1:]
    if isinstance(t, G) and t.d == "[":
        if ";" in t.c:
            k = t.c.index(";")
            return ("Array", parse_type(t.c[:k], where), txt(t.c[k + 1:])), ts[1:]
        el = parse_type(t.c, where)
        return (("Bytes",) if el == ("U8",) else ("Seq", el)), ts[1:]
    if t == "<":      # <Type>::…  not a type by itself
        fail("unexpected `<` in type " + txt(ts), where)
    if not is_id(t):
        fail("type not understood: " + txt(ts), where)
    # path
    i, name = 0, t
    while i + 2 < len(ts) + 0 and i + 1 < len(ts) and ts[i + 1] == "::" and i + 2 < len(ts) and is_id(ts[i + 2]):
        i += 2
        name = ts[i]
    i += 1
    args = []
    if i < len(ts) and ts[i] == "<":
        depth, j = 0, i
        while True:
            if j >= len(ts):
                fail("unterminated generics in " + txt(ts), where)
            if ts[j] == "<":
                depth += 1
            elif ts[j] == ">":
                depth -= 1
                if depth == 0:
                    break
            j += 1
        args = [parse_type(p, where) for p in split_top(ts[i + 1:j]) if not (len(p) == 1 and isinstance(p[0], str) and p[0].startswith("'"))]
        i = j + 1
    rest = ts[i:]
    if name in PRIM and not args:
        return PRIM[name], rest
    if name in TRANSPARENT and len(args) == 1:
        return args[0], rest
    if name == "Vec" and len(args) == 1:
        return (("Bytes",) if args[0] == ("U8",) else ("Seq", args[0])), rest
    if name == "Option" and len(args) == 1:
        return ("Opt", args[0]), rest
    if name == "HashMap" and len(args) == 2:
        return ("Map", args[0], args[1]), rest
    if args:
        fail("generic type not understood: " + txt(ts), where)
    return ("Ref", name), rest

# ------------------------------------------------------------------------------------------------ the translator
DURATION_WRITE = {"as_secs": ("secs", ("U64",)), "subsec_nanos": ("nanos", ("U32",))}
DURATION_NEW = ["secs", "nanos"]

class Translator:
    def __init__(self, repo):
        self.repo = repo
        self.src = {}          # relative file -> Source
        self.structs, self.enums = {}, {}
        self.write, self.read = {}, {}
        self.wfn = {}          # wire free fns by (file, name)
        self.notes = []
        self.nimpl = 0
        self.sites_build, self.sites_rebuild = [], []

    # -------------------------------------------------------------------------------------- loading
    def load(self):
        base = os.path.join(self.repo, "boreal", "src")
        for root, _, files in os.walk(base):
            for f in sorted(files):
                if not f.endswith(".rs"):
                    continue
                p = os.path.join(root, f)
                text = open(p).read()
                if "mod wire" not in text and "enum CompilerProfile" not in text:
                    continue
                rel = os.path.relpath(p, base)
                s = Source()
                scan_items(tree(tokenize(text, rel), rel), s, rel)
                self.src[rel] = s
        pp = os.path.join(self.repo, "boreal-parser", "src", "expression", "mod.rs")
        if not os.path.exists(pp):
            pp = os.path.join(self.repo, "boreal-parser", "src", "expression.rs")
        text = open(pp).read()
        s = Source()
        scan_items(tree(tokenize(text, "parser/expression"), "parser/expression"), s, "parser/expression")
        self.src["parser/expression"] = s
        for rel, s in self.src.items():
            for n, d in s.structs.items():
                self.structs.setdefault(n, (rel, d))
            for n, d in s.enums.items():
                self.enums.setdefault(n, (rel, d))
        blocks = [rel for rel, s in self.src.items() if s.wire is not None]
        if len(blocks) < 10:
            fail("only %d `mod wire` blocks found" % len(blocks))
        self.blocks = sorted(blocks)

    # -------------------------------------------------------------------------------------- helpers
    def field_type(self, tyname, field, where):
        if tyname in self.structs:
            for f, ty in self.structs[tyname][1]:
                if f == field:
                    return parse_type(ty, where)
        fail("no field %s in struct %s" % (field, tyname), where)

    def variant(self, tyname, vname, where):
        if tyname not in self.enums:
            fail("enum %s not found" % tyname, where)
        for v in self.enums[tyname][1]:
            if v[0] == vname:
                return v
        fail("no variant %s::%s" % (tyname, vname), where)

    # -------------------------------------------------------------------------------------- statements
    def statements(self, ts):
        """split a block body into statements; block-like expressions end a statement without `;`"""
        out, cur = [], []
        i = 0
        while i < len(ts):
            t = ts[i]
            if t == ";":
                if cur:
                    out.append(cur)
                cur = []
            else:
                cur.append(t)
                if isinstance(t, G) and t.d == "{" and cur[0] in ("match", "for", "if", "while", "loop") \
                        and not (i + 1 < len(ts) and ts[i + 1] in ("else", ".", "?")):
                    out.append(cur)
                    cur = []
            i += 1
        if cur:
            out.append(cur)
        return out

    def arms(self, g, where):
        """match arms: [(pattern tokens, body tokens)]"""
        out, ts, i = [], g.c, 0
        while i < len(ts):
            j = i
            while j < len(ts) and ts[j] != "=>":
                j += 1
            if j >= len(ts):
                fail("match arm without =>", where)
            pat = ts[i:j]
            k = j + 1
            if isinstance(ts[k], G) and ts[k].d == "{" and (k + 1 >= len(ts) or ts[k + 1] == "," or
                                                            not (ts[k + 1] in (".", "?"))):
                body = ts[k].c
                k += 1
                is_block = True
            else:
                body, depth = [], 0
                while k < len(ts) and not (ts[k] == "," and depth == 0):
                    body.append(ts[k])
                    k += 1
                is_block = False
            if k < len(ts) and ts[k] == ",":
                k += 1
            out.append((pat, body, is_block))
            i = k
        return out

    # -------------------------------------------------------------------------------------- write side
    def write_item(self, e, env, tyname, where):
        """expression being `.serialize(writer)`d -> ('tag', n) | ('field', name, schema)"""
        e = list(e)
        while len(e) == 1 and isinstance(e[0], G) and e[0].d == "(":
            e = list(e[0].c)
        m = re.fullmatch(r"(\d+)_u8", txt(e))
        if m:
            return ("tag", int(m.group(1)))
        while e and e[0] in ("*", "&"):
            e = e[1:]
        # cast
        if len(e) >= 3 and e[-2] == "as":
            inner = self.write_item(e[:-2], env, tyname, where)
            to = parse_type([e[-1]], where)
            if inner[0] != "field" or inner[2] != to:
                fail("cast changes the wire type: " + txt(e), where)
            return inner
        # newtype wrapper defined in the wire block: RIType(*ty)
        if len(e) == 2 and is_id(e[0]) and isinstance(e[1], G) and e[1].d == "(" and e[0] in self.structs \
                and len(self.structs[e[0]][1]) == 1:
            inner = self.write_item(e[1].c, env, tyname, where)
            wrapped = parse_type(self.structs[e[0]][1][0][1], where)
            if inner[0] != "field" or inner[2] != wrapped:
                fail("newtype %s wraps %s, field has %s" % (e[0], wrapped, inner[2]), where)
            return ("field", inner[1], ("Ref", e[0]))
        if e[0] == "self" and len(e) >= 3 and e[1] == ".":
            name = e[2]
            if re.fullmatch(r"\d+", name):
                sch = self.field_type(tyname, name, where)
            else:
                sch = self.field_type(tyname, name, where)
            rest = e[3:]
        elif is_id(e[0]) and e[0] in env:
            name, sch = env[e[0]]
            rest = e[1:]
        else:
            fail("written expression not understood: " + txt(e), where)
        # postfix operations
        while rest:
            if rest[0] == "." and len(rest) >= 2 and re.fullmatch(r"\d+", rest[1]):
                # projection out of a newtype / tuple
                if sch[0] == "Ref" and sch[1] in self.structs:
                    sch = self.field_type(sch[1], rest[1], where)
                elif sch[0] == "Struct":
                    sch = dict(sch[1])[rest[1]]
                else:
                    fail("projection .%s of %s" % (rest[1], sch), where)
                rest = rest[2:]
            elif isinstance(rest[0], G) and rest[0].d == "[":
                if sch[0] != "Array":
                    fail("indexing a non-array " + txt(e), where)
                name = "%s[%s]" % (name, txt(rest[0].c))
                sch = sch[1]
                rest = rest[1:]
            elif rest[0] == "." and rest[1] == "as_ref" and isinstance(rest[2], G):
                rest = rest[3:]
            elif rest[0] == "." and rest[1] == "get_name" and isinstance(rest[2], G) and not rest[2].c:
                if sch != ("Dyn", "Module"):
                    fail("get_name() on " + str(sch), where)
                sch = ("Str",)
                rest = rest[3:]
            elif rest[0] == "." and rest[1] == "map" and isinstance(rest[2], G):
                arg = txt(rest[2].c)
                if sch[0] != "Opt":
                    fail(".map on a non-Option " + txt(e), where)
                if arg == "Regex::as_str" and sch[1] == ("Ref", "Regex"):
                    sch = ("Opt", ("Str",))
                else:
                    m = re.fullmatch(r"\|(\w+)\|\((.*)\)", arg)
                    if not m or sch[1] != ("Ref", "Duration"):
                        fail(".map argument not understood: " + arg, where)
                    v, comps = m.group(1), m.group(2).split(",")
                    fs = []
                    for c in comps:
                        mm = re.fullmatch(re.escape(v) + r"\.(\w+)\(\)", c)
                        if not mm or mm.group(1) not in DURATION_WRITE:
                            fail("Duration component not understood: " + c, where)
                        fs.append(DURATION_WRITE[mm.group(1)])
                    sch = ("Opt", ("Struct", fs))
                rest = rest[3:]
            else:
                fail("written expression not understood: " + txt(e), where)
        return ("field", name, sch)

    def serialize_stmt(self, st):
        """st = X . serialize ( writer ) [?]  -> tokens of X, else None"""
        s = list(st)
        if s and s[-1] == "?":
            s = s[:-1]
        if len(s) >= 4 and s[-3] == "." and s[-2] == "serialize" and isinstance(s[-1], G) and txt(s[-1].c) == "writer":
            return s[:-3]
        return None

    def bind_pattern(self, pat, tyname, where):
        """`Self::V(a, b)` / `Self::V { a, b: _, c }` / `Self::V` / `T::V` -> (variant, env)"""
        p = list(pat)
        if len(p) < 3 or p[1] != "::" or p[0] not in ("Self", tyname):
            fail("pattern not understood: " + txt(pat), where)
        vname = p[2]
        v = self.variant(tyname, vname, where)
        env = {}
        if len(p) == 3:
            if v[1] != "unit":
                fail("pattern %s ignores the payload" % txt(pat), where)
            return vname, env
        g = p[3]
        if g.d == "(":
            parts = split_top(g.c)
            if v[1] != "tuple" or len(parts) != len(v[2]):
                fail("pattern arity " + txt(pat), where)
            for i, q in enumerate(parts):
                if len(q) == 1 and is_id(q[0]) and q[0] != "_":
                    env[q[0]] = (str(i), parse_type(v[2][i][1], where))
                elif txt(q) == "_":
                    pass
                else:
                    fail("pattern component " + txt(q), where)
        else:
            if v[1] != "struct":
                fail("pattern kind " + txt(pat), where)
            ftys = dict(v[2])
            seen = set()
            for q in split_top(g.c):
                if txt(q) == "..":
                    fail("`..` in a serialize pattern hides fields: " + txt(pat), where)
                if len(q) == 1:
                    f, var = q[0], q[0]
                elif len(q) == 3 and q[1] == ":":
                    f, var = q[0], q[2]
                else:
                    fail("pattern component " + txt(q), where)
                if f not in ftys:
                    fail("unknown field %s in %s" % (f, txt(pat)), where)
                seen.add(f)
                if var != "_":
                    env[var] = (f, parse_type(ftys[f], where))
            if seen != set(ftys):
                fail("pattern does not name all fields: " + txt(pat), where)
        return vname, env

    def write_seq(self, stmts, env, tyname, where):
        """statements -> list of items"""
        items, i = [], 0
        while i < len(stmts):
            st = stmts[i]
            s = txt(st)
            if s in ("Ok(())",):
                i += 1
                continue
            # let Self { a, b } = self
            if st[0] == "let" and len(st) >= 5 and st[1] == "Self" and isinstance(st[2], G) and txt(st[3:]) == "=self":
                names = [txt(q) for q in split_top(st[2].c)]
                declared = [f for f, _ in self.structs[tyname][1]]
                if sorted(names) != sorted(declared):
                    fail("destructuring of %s does not name all fields" % tyname, where)
                for n in names:
                    env[n] = (n, self.field_type(tyname, n, where))
                i += 1
                continue
            # length-prefixed loop: let len = u32::try_from(X.len())…; len.serialize(writer)?; for V in X { … }
            m = re.match(r"let (\w+)=u32::try_from\((\w+)\.len\(\)\)", s)
            if m and i + 2 < len(stmts):
                lenv, coll = m.group(1), m.group(2)
                s1 = self.serialize_stmt(stmts[i + 1])
                lp = stmts[i + 2]
                if s1 is None or txt(s1) != lenv or lp[0] != "for" or txt(lp[2:4]) != "in " + coll \
                        and txt(lp[2:4]) != "in" + coll:
                    fail("length-prefixed loop not understood", where)
                if coll not in env or env[coll][1][0] != "Seq":
                    fail("loop over %s: not a sequence" % coll, where)
                env2 = dict(env)
                env2[lp[1]] = (lp[1], env[coll][1][1])
                inner = self.write_seq(self.statements(lp[-1].c), env2, tyname, where)
                if len(inner) != 1 or inner[0][0] != "field":
                    fail("loop body writes more than one item", where)
                items.append(("field", env[coll][0], ("Seq", inner[0][2])))
                i += 3
                continue
            # call of a wire fn:  serialize_xxx(&self.f, writer)?
            m = re.fullmatch(r"(serialize_\w+)\(&self\.(\w+),writer\)\??", s)
            if m:
                fn = self.cur_wire_fns.get(m.group(1))
                if fn is None:
                    fail("unknown wire fn " + m.group(1), where)
                pname, pty = fn.params[0]
                sch = self.field_type(tyname, m.group(2), where)
                if parse_type(pty, where) != sch:
                    fail("%s: parameter type differs from field type" % m.group(1), where)
                sub = self.write_seq(self.statements(fn.body), {pname: (m.group(2), sch)}, tyname, where + "/" + fn.name)
                if len(sub) != 1:
                    fail(fn.name + " writes more than one item", where)
                items.append(("field", m.group(2), sub[0][2]))
                self.nimpl += 1
                i += 1
                continue
            # let v = match self.0 { Path::A => 0_u8, Path::B => 1, … }; v.serialize(writer)
            if st[0] == "let" and len(st) >= 6 and st[2] == "=" and st[3] == "match" and isinstance(st[-1], G):
                scrut = txt(st[4:-1])
                nxt = self.serialize_stmt(stmts[i + 1]) if i + 1 < len(stmts) else None
                if nxt is None or txt(nxt) != st[1] or not scrut.startswith("self."):
                    fail("let-match not understood: " + s[:60], where)
                fty = self.field_type(tyname, scrut[5:], where)
                if fty[0] != "Ref" or fty[1] not in self.enums:
                    fail("let-match scrutinee is not an enum", where)
                en = fty[1]
                vs = []
                for pat, body, blk in self.arms(st[-1], where):
                    if len(pat) != 3 or pat[0] != en or pat[1] != "::":
                        fail("let-match pattern " + txt(pat), where)
                    self.variant(en, pat[2], where)
                    mm = re.fullmatch(r"(\d+)(_u8)?", txt(body))
                    if not mm:
                        fail("let-match value " + txt(body), where)
                    vs.append((pat[2], int(mm.group(1)), ("Struct", [])))
                if sorted(v[0] for v in vs) != sorted(v[0] for v in self.enums[en][1]):
                    fail("let-match over %s is not exhaustive by name" % en, where)
                items.append(("field", scrut[5:], ("Enum", vs)))
                i += 2
                continue
            if st[0] == "match" and isinstance(st[-1], G):
                if txt(st[1:-1]) != "self":
                    fail("match on " + txt(st[1:-1]), where)
                vs = []
                for pat, body, blk in self.arms(st[-1], where):
                    vname, env2 = self.bind_pattern(pat, tyname, where)
                    e2 = dict(env)
                    e2.update(env2)
                    sub = self.write_seq(self.statements(body), e2, tyname, where + "::" + vname)
                    if not sub or sub[0][0] != "tag":
                        fail("variant %s does not start with its discriminant" % vname, where)
                    if any(x[0] == "tag" for x in sub[1:]):
                        fail("variant %s writes two discriminants" % vname, where)
                    vs.append((vname, sub[0][1], ("Struct", [(x[1], x[2]) for x in sub[1:]])))
                declared = [v[0] for v in self.enums[tyname][1]]
                if sorted(v[0] for v in vs) != sorted(declared):
                    fail("serialize of %s does not cover all variants" % tyname, where)
                items.append(("enum", vs))
                i += 1
                continue
            x = self.serialize_stmt(st)
            if x is not None:
                items.append(self.write_item(x, env, tyname, where))
                i += 1
                continue
            fail("statement not understood on the write side: " + s[:100], where)
        return items

    def note_unwritten(self, key, declared, written):
        base = {w.split("[")[0] for w in written}
        miss = [f for f in declared if f not in base]
        if miss:
            self.unwritten_fields[key] = miss

    def translate_write(self, tyname, fn, where):
        items = self.write_seq(self.statements(fn.body), {}, tyname, where)
        if len(items) == 1 and items[0][0] == "enum":
            for vname, tag, sch in items[0][1]:
                v = self.variant(tyname, vname, where)
                self.note_unwritten(tyname + "::" + vname, [f for f, _ in v[2]], [f for f, _ in sch[1]])
            return ("Enum", items[0][1])
        if tyname in self.structs and all(x[0] == "field" for x in items):
            self.note_unwritten(tyname, [f for f, _ in self.structs[tyname][1]], [x[1] for x in items])
        if any(x[0] != "field" for x in items):
            fail("struct %s writes a bare discriminant" % tyname, where)
        # a newtype around an enum written through let-match: RIType
        if len(items) == 1 and items[0][2][0] == "Enum" and len(self.structs.get(tyname, (0, [0, 0]))[1]) == 1:
            return items[0][2]
        return ("Struct", [(x[1], x[2]) for x in items])

    # -------------------------------------------------------------------------------------- read side
    def read_expr(self, e, where, ctxname=None):
        """expression containing `reader` -> schema (and records extra arguments as rebuild parameters)"""
        e = list(e)
        if e and e[-1] == "?":
            e = e[:-1]
        while len(e) == 1 and isinstance(e[0], G) and e[0].d == "(":
            e = list(e[0].c)
        if len(e) == 4 and txt(e[:3]) == "Box::new" and isinstance(e[3], G):
            return self.read_expr(e[3].c, where, ctxname)
        if not e or not isinstance(e[-1], G) or e[-1].d != "(":
            fail("read not understood: " + txt(e), where)
        args = split_top(e[-1].c)
        if not args or txt(args[-1]) != "reader":
            fail("read does not end with `reader`: " + txt(e), where)
        extra = [txt(a) for a in args[:-1]]
        head = e[:-1]
        if len(head) >= 3 and txt(head[-2:]) == "::deserialize_reader":
            if extra:
                fail("deserialize_reader with extra arguments", where)
            tys = head[:-2]
            if tys[0] == "<" and tys[-1] == ">":
                tys = tys[1:-1]
            return parse_type(tys, where)
        if len(head) >= 3 and txt(head[-2:]) == "::deserialize":
            ty = parse_type(head[:-2], where)
            if ty[0] != "Ref":
                fail("deserialize on " + txt(head), where)
            self.check_wrapper(ty[1], len(extra), where)
            self.calls.append((ctxname, ty[1] + "::deserialize", extra))
            return ty
        if len(head) == 1 and head[0] in self.cur_wire_fns:
            fn = self.cur_wire_fns[head[0]]
            self.calls.append((ctxname, head[0], extra))
            rt = self.ret_type(fn, where)
            if rt[0] == "Ref" and (rt[1] in self.structs or rt[1] in self.enums):
                return rt
            # helper returning a std container: inline
            sch = self.translate_read_fn(fn, None, where + "/" + fn.name)
            if sch[0] == "Struct" and len(sch[1]) == 1:
                sch = sch[1][0][1]
            if rt != sch and not (rt[0] == "Seq" and sch[0] == "Seq"):
                fail("%s: declared %s, reads %s" % (fn.name, rt, sch), where)
            return sch
        fail("read not understood: " + txt(e), where)

    def ret_type(self, fn, where):
        r = txt(fn.ret)
        m = re.fullmatch(r"(?:std::)?io::Result<(.*)>", r)
        if not m:
            fail("return type of %s: %s" % (fn.name, r), where)
        inner = fn.ret[fn.ret.index("<") + 1:-1]
        if txt(inner) == "Self":
            return ("Ref", fn.owner)
        return parse_type(inner, where)

    def check_wrapper(self, tyname, nextra, where):
        """`T::deserialize(args…, reader)` must be the thin wrapper around the wire function returning T"""
        for rel, s in self.src.items():
            f = s.impl_fns.get((tyname, "deserialize"))
            if f is None:
                continue
            m = re.fullmatch(r"wire::(\w+)\((.*)\)", txt(f.body))
            if not m:
                fail("%s::deserialize is not a thin wrapper: %s" % (tyname, txt(f.body)[:80]), where)
            target = None
            for g in (s.wire or []):
                pass
            wf = self.wire_fns_by_file[rel].get(m.group(1))
            if wf is None:
                fail("%s::deserialize calls unknown wire::%s" % (tyname, m.group(1)), where)
            if self.ret_type(wf, where) != ("Ref", tyname):
                fail("wire::%s does not return %s" % (m.group(1), tyname), where)
            wa = [a for a in m.group(2).split(",")]
            pa = [p for p, _ in f.params]
            if wa != pa:
                fail("%s::deserialize reorders its arguments: %s vs %s" % (tyname, wa, pa), where)
            return
        fail("no wrapper %s::deserialize found" % tyname, where)

    def find_ctor(self, ts, tyname, where):
        """first constructor expression of `tyname` in ts: returns (variant or None, kind, group or None, fn name or None)"""
        i = 0
        while i < len(ts):
            t = ts[i]
            if isinstance(t, G):
                r = self.find_ctor(t.c, tyname, where)
                if r:
                    return r
                i += 1
                continue
            if t in ("Err", "format", "return") and t != "return":
                # skip error constructors
                if t == "Err" and i + 1 < len(ts) and isinstance(ts[i + 1], G):
                    i += 2
                    continue
                if t == "format" and i + 2 < len(ts):
                    i += 3
                    continue
            if t in ("Self", tyname) and (i == 0 or ts[i - 1] not in ("::", ".")):
                j = i + 1
                var = None
                fnname = None
                if j + 1 < len(ts) and ts[j] == "::" and is_id(ts[j + 1]):
                    nm = ts[j + 1]
                    if nm[0].isupper():
                        var = nm
                    else:
                        fnname = nm
                    j += 2
                if j < len(ts) and isinstance(ts[j], G) and ts[j].d in ("(", "{"):
                    if fnname in ("deserialize", "deserialize_reader", "builder"):
                        i += 1
                        continue
                    return (var, ts[j].d, ts[j], fnname)
                if var is not None:
                    return (var, "unit", None, None)
                if tyname in self.structs and not self.structs[tyname][1]:
                    return (None, "unit", None, None)
            i += 1
        return None

    def fields_of_ctor(self, ctor, tyname, reads, derived, where):
        """assign each read variable (and each in-place read) to a constructor field.
        reads: ordered [(var, schema)]; returns ordered [(field, schema)] and the list of rebuilt fields."""
        var, kind, g, fnname = ctor
        inits = []          # (field name, init tokens)
        if kind == "unit":
            pass
        elif fnname is not None:
            # constructor function: positional arguments named by the function's parameters, then mapped to
            # the fields its body initialises from them
            f = None
            for rel, s in self.src.items():
                f = s.impl_fns.get((tyname, fnname)) or f
            if f is None:
                fail("constructor function %s::%s not found" % (tyname, fnname), where)
            params = [p for p, _ in f.params]
            args = split_top(g.c)
            if len(args) != len(params):
                fail("arity of %s::%s" % (tyname, fnname), where)
            inner = self.find_ctor(f.body, tyname, where)
            if inner is None or inner[3] is not None:
                fail("%s::%s does not build the struct directly" % (tyname, fnname), where)
            p2f = {}
            for fld, init in self.ctor_inits(inner, tyname, where):
                for p in params:
                    if p in idents(init) and idents(init)[0] == p:
                        p2f.setdefault(p, fld)
            self.ctor_fn_params[(tyname, fnname)] = (params, p2f)
            fn_rebuilt = [fld for fld, _ in self.ctor_inits(inner, tyname, where) if fld not in p2f.values()]
            for p, a in zip(params, args):
                if p in p2f:
                    inits.append((p2f[p], a))
                else:
                    fail("parameter %s of %s::%s is not stored in a field" % (p, tyname, fnname), where)
        else:
            inits = self.ctor_inits(ctor, tyname, where)
        readvars = [v for v, _ in reads]
        assigned, order_inline, rebuilt = {}, [], []
        if fnname is not None:
            rebuilt = [(f, []) for f in fn_rebuilt]
        for fld, init in inits:
            if contains(init, "reader"):
                order_inline.append((fld, self.read_expr(init, where, fld)))
                continue
            ids = idents(init)
            direct = [v for v in readvars if v in ids]
            if isinstance(init[0], G) and init[0].d == "[" and len(init) == 1:
                for k, el in enumerate(split_top(init[0].c)):
                    d = [v for v in readvars if v in idents(el)]
                    if len(d) != 1:
                        fail("array element of %s not understood" % fld, where)
                    assigned.setdefault(d[0], []).append("%s[%d]" % (fld, k))
                continue
            if len(direct) == 1:
                name = fld
                assigned.setdefault(direct[0], []).append(name)
                self.check_init(fld, init, direct[0], dict(reads)[direct[0]], where)
                continue
            if len(direct) > 1:
                fail("field %s is built from several wire values: %s" % (fld, txt(init)), where)
            # not a read variable: derived (rebuilt) or constant
            via = [v for v in ids if v in derived]
            if via:
                src_vars = set()
                for v in via:
                    src_vars |= derived[v]
                rebuilt.append((fld, sorted(src_vars)))
            else:
                rebuilt.append((fld, []))
        out = []
        for v, sch in reads:
            names = assigned.get(v)
            if not names:
                # reaches a field only through a derived value
                cands = [fld for fld, srcs in rebuilt if v in srcs]
                if len(cands) == 1:
                    names = [cands[0]]
                    rebuilt = [(f, s) for f, s in rebuilt if f != cands[0]]
                elif not cands:
                    fail("value read into `%s` is dropped" % v, where)
                else:
                    # used to rebuild several fields but stored in none
                    fail("value read into `%s` is not stored (only used for %s)" % (v, cands), where)
            if len(names) != 1:
                fail("value read into `%s` is stored in %s" % (v, names), where)
            out.append((names[0], sch))
        out += order_inline
        return out, [f for f, _ in rebuilt]

    def ctor_inits(self, ctor, tyname, where):
        var, kind, g, fnname = ctor
        inits = []
        if kind == "{":
            for q in split_top(g.c):
                if len(q) == 1 and is_id(q[0]):
                    inits.append((q[0], q))
                elif len(q) >= 3 and q[1] == ":":
                    inits.append((q[0], q[2:]))
                else:
                    fail("field initialiser not understood: " + txt(q), where)
            declared = [f for f, _ in (self.variant(tyname, var, where)[2] if var else self.structs[tyname][1])]
            if sorted(f for f, _ in inits) != sorted(declared):
                fail("constructor of %s%s does not initialise exactly its fields" % (tyname, "::" + var if var else ""), where)
        elif kind == "(":
            parts = split_top(g.c)
            declared = (self.variant(tyname, var, where)[2] if var else self.structs[tyname][1])
            if len(parts) != len(declared):
                fail("constructor arity of %s" % tyname, where)
            inits = [(str(i), q) for i, q in enumerate(parts)]
        return inits

    CONVERSIONS = [r"\.into_boxed_str\(\)", r"\.into_boxed_slice\(\)", r"\.into_iter\(\)\.map\(Vec::into_boxed_slice\)\.collect\(\)",
                   r"\.into_iter\(\)\.map\(String::into_boxed_str\)\.collect\(\)", r"\.clone\(\)", r"\.0"]

    def check_init(self, fld, init, var, sch, where):
        """the initialiser must be the variable up to a representation change"""
        s = txt(init)
        if s == var:
            return
        for wrap in ("Box::new", "Arc::new", "Some"):
            if s == "%s(%s)" % (wrap, var):
                return
        m = re.fullmatch(r"([A-Z]\w*)\(%s\)" % re.escape(var), s)
        if m and m.group(1) in self.structs and len(self.structs[m.group(1)][1]) == 1:
            return     # newtype wrap
        rest = s[len(var):] if s.startswith(var) else None
        if rest is not None:
            for c in self.CONVERSIONS:
                if re.fullmatch(c, rest):
                    return
            m = re.fullmatch(r"\.map\(\|\((\w+),(\w+)\)\|Duration::new\((\w+),(\w+)\)\)", rest)
            if m and sch[0] == "Opt" and sch[1][0] == "Struct":
                return
        fail("initialiser of %s changes the value: %s" % (fld, s), where)

    def rename_duration(self, fld, init, var, sch, where):
        s = txt(init)
        m = re.fullmatch(re.escape(var) + r"\.map\(\|\((\w+),(\w+)\)\|Duration::new\((\w+),(\w+)\)\)", s)
        if not m:
            return sch
        pos = [m.group(1), m.group(2)]
        args = [m.group(3), m.group(4)]
        names = {}
        for i, a in enumerate(args):
            if a not in pos:
                fail("Duration::new argument " + a, where)
            names[pos.index(a)] = DURATION_NEW[i]
        if sorted(names) != [0, 1]:
            fail("Duration::new uses a component twice", where)
        comp = sch[1][1]
        return ("Opt", ("Struct", [(names[i], comp[i][1]) for i in range(2)]))

    def read_block(self, stmts, tyname, where, reads=None, derived=None):
        """statements of a deserialisation body (or match arm) -> schema of tyname (or of the arm)"""
        reads = list(reads or [])
        derived = dict(derived or {})
        i = 0
        tail = None
        while i < len(stmts):
            st = stmts[i]
            s = txt(st)
            # length-prefixed loop
            m = re.match(r"let (\w+)=u32::deserialize_reader\(reader\)\?$", s)
            if m and i + 3 < len(stmts) and re.match(r"let %s=usize::try_from\(%s\)" % (m.group(1), m.group(1)), txt(stmts[i + 1])):
                lenv = m.group(1)
                m2 = re.fullmatch(r"let mut (\w+)=Vec::with_capacity\(%s\)" % lenv, txt(stmts[i + 2]))
                lp = stmts[i + 3]
                if not m2 or lp[0] != "for" or txt(lp[1:-1]) != "_ in 0..%s" % lenv:
                    fail("length-prefixed loop not understood: " + txt(lp)[:80], where)
                coll = m2.group(1)
                body = self.statements(lp[-1].c)
                el_reads = []
                for b in body:
                    bs = txt(b)
                    mm = re.fullmatch(r"%s\.push\((.*)\)" % coll, bs)
                    if mm and contains(b, "reader"):
                        el_reads.append(self.read_expr(b[-1].c, where, coll))
                    elif b[0] == "let" and contains(b, "reader"):
                        el_reads.append(self.read_expr(b[3:], where, coll))
                    elif contains(b, "reader"):
                        fail("loop body not understood: " + bs[:80], where)
                if len(el_reads) != 1:
                    fail("loop body reads %d items" % len(el_reads), where)
                reads.append((coll, ("Seq", el_reads[0])))
                i += 4
                continue
            # discriminant
            m = re.fullmatch(r"let (\w+)=u8::deserialize_reader\(reader\)\?", s)
            if m and i + 1 < len(stmts) and re.search(r"\bmatch %s\b" % m.group(1), txt(stmts[i + 1])[:60 + len(m.group(1))]):
                if reads:
                    fail("discriminant is not the first read", where)
                return self.read_enum(stmts[i + 1:], m.group(1), tyname, where)
            # bool + conditional read = Option
            m = re.fullmatch(r"let (\w+)=bool::deserialize_reader\(reader\)\?", s)
            if m and i + 1 < len(stmts):
                n = stmts[i + 1]
                if len(n) >= 7 and n[0] == "let" and n[2] == "=" and n[3] == "if" and n[4] == m.group(1) \
                        and isinstance(n[5], G) and n[6] == "else" and txt(n[7:]) == "{None}":
                    inner = n[5].c
                    if len(inner) == 2 and inner[0] == "Some" and isinstance(inner[1], G):
                        reads.append((n[1], ("Opt", self.read_expr(inner[1].c, where, n[1]))))
                        i += 2
                        continue
                    fail("conditional read not understood: " + txt(n)[:80], where)
            if st[0] == "let" and contains(st, "reader"):
                if len(st) < 4 or st[2] != "=" or not is_id(st[1]):
                    fail("let with a read not understood: " + s[:80], where)
                reads.append((st[1], self.read_expr(st[3:], where, st[1])))
                i += 1
                continue
            if st[0] == "let":
                # derived value
                j = st.index("=") if "=" in st else None
                if j is None:
                    fail("let without initialiser", where)
                lhs = [x for x in idents(st[1:j]) if x not in ("mut", "Some", "Ok")]
                rhs_ids = set(idents(st[j + 1:]))
                srcs = set()
                for v, _ in reads:
                    if v in rhs_ids:
                        srcs.add(v)
                for v, sv in derived.items():
                    if v in rhs_ids:
                        srcs |= sv
                for v in lhs:
                    if v in [r for r, _ in reads]:
                        # shadowing a read variable by a conversion of itself is the loop idiom only
                        fail("read variable %s is rebound: %s" % (v, s[:80]), where)
                    derived[v] = srcs
                i += 1
                continue
            tail = stmts[i:]
            break
        if tail is None:
            fail("no result expression", where)
        if contains(sum(tail[1:], []), "reader"):
            fail("reads after the result expression", where)
        if tyname is None:
            # helper returning a std container: exactly one wire value, returned up to a representation change
            if len(reads) != 1 or len(tail) != 1:
                fail("helper does not return exactly one wire value", where)
            v, sch = reads[0]
            m = re.fullmatch(r"Ok\((\w+)(.*)\)", txt(tail[0]))
            if not m or m.group(1) != v or not (m.group(2) == "" or any(re.fullmatch(c, m.group(2)) for c in self.CONVERSIONS)):
                fail("helper result not understood: " + txt(tail[0])[:80], where)
            return None, ("Struct", [(v, sch)])
        ctor = self.find_ctor(sum(tail, []), tyname, where)
        if ctor is None:
            fail("constructor of %s not found in: %s" % (tyname, txt(sum(tail, []))[:100]), where)
        fields, rebuilt = self.fields_of_ctor(ctor, tyname, reads, derived, where)
        # Duration renaming
        if ctor[1] == "{":
            inits = dict(self.ctor_inits(ctor, tyname, where))
            fields2 = []
            for (v, sch), (f, sch2) in zip(reads, fields):
                if f in inits:
                    sch2 = self.rename_duration(f, inits[f], v, sch2, where)
                fields2.append((f, sch2))
            fields = fields2 + fields[len(reads):]
        if rebuilt:
            self.rebuilt_fields.setdefault(tyname + ("::" + ctor[0] if ctor[0] else ""), rebuilt)
        return ctor[0], ("Struct", fields)

    def read_enum(self, stmts, dvar, tyname, where):
        st = stmts[0]
        rest = stmts[1:]
        # forms:  match d {…}   |  Ok(match d {…})  |  let x = match d {…}; Ok(T(x))
        wrap_let = None
        if st[0] == "match":
            g = st[-1]
        elif st[0] == "Ok" and isinstance(st[1], G) and st[1].c[0] == "match":
            g = st[1].c[-1]
        elif st[0] == "let" and st[3] == "match":
            g = st[-1]
            wrap_let = st[1]
            if len(rest) != 1 or not re.fullmatch(r"Ok\(%s\(%s\)\)" % (tyname, wrap_let), txt(rest[0])):
                fail("let-match result not understood", where)
            rest = []
        else:
            fail("discriminant match not understood: " + txt(st)[:80], where)
        if rest:
            fail("statements after the discriminant match", where)
        vs = []
        target = tyname
        if wrap_let:
            inner = parse_type(self.structs[tyname][1][0][1], where)
            target = inner[1]
        for pat, body, blk in self.arms(g, where):
            p = txt(pat)
            if not re.fullmatch(r"\d+", p):
                if is_id(p) or p == "_":
                    continue
                fail("discriminant pattern " + p, where)
            tag = int(p)
            if wrap_let:
                if len(body) != 3 or body[0] != target or body[1] != "::":
                    fail("let-match arm " + txt(body), where)
                self.variant(target, body[2], where)
                vs.append((body[2], tag, ("Struct", [])))
                continue
            stmts2 = self.statements(body) if blk else [body]
            vname, sch = self.read_block(stmts2, target, where + "#%d" % tag)
            if vname is None:
                fail("arm %d does not build a variant" % tag, where)
            vs.append((vname, tag, sch))
        return None, ("Enum", vs)

    def translate_read_fn(self, fn, tyname, where):
        v, sch = self.read_block(self.statements(fn.body), tyname, where)
        return sch

    # -------------------------------------------------------------------------------------- driver
    def run(self):
        self.load()
        self.wire_fns_by_file = {}
        per_file = {}
        for rel in self.blocks:
            s = Source()
            scan_items(self.src[rel].wire, s, rel, in_wire=True)
            per_file[rel] = s
            self.wire_fns_by_file[rel] = {k[1]: f for k, f in s.impl_fns.items() if k[0] is None}
            for n, d in s.structs.items():
                if n != "DeserializeParams":
                    self.structs.setdefault(n, (rel, d))
        self.rebuilt_fields = {}
        self.unwritten_fields = {}
        self.ctor_fn_params = {}
        self.calls = []
        self.calls_by_type = {}
        for rel in self.blocks:
            s = per_file[rel]
            self.cur_wire_fns = self.wire_fns_by_file[rel]
            # write side
            for (ty, name), fn in sorted(s.impl_fns.items(), key=lambda kv: str(kv[0])):
                if ty is None or name != "Serialize::serialize":
                    continue
                self.nimpl += 1
                if ty in self.write:
                    fail("two Serialize impls for " + ty, rel)
                self.write[ty] = self.translate_write(ty, fn, rel + ":Serialize for " + ty)
            # read side
            for (ty, name), fn in sorted(s.impl_fns.items(), key=lambda kv: str(kv[0])):
                if ty is not None and name == "Deserialize::deserialize_reader":
                    self.nimpl += 1
                    self.calls = []
                    self.read[ty] = self.translate_read_fn(fn, ty, rel + ":Deserialize for " + ty)
                    self.calls_by_type[ty] = self.calls
                elif ty is None and name.startswith("deserialize_"):
                    rt = self.ret_type(fn, rel)
                    self.nimpl += 1
                    if rt[0] == "Ref" and (rt[1] in self.structs or rt[1] in self.enums):
                        if rt[1] in self.read:
                            fail("two deserialisers for " + rt[1], rel)
                        self.calls = []
                        self.read[rt[1]] = self.translate_read_fn(fn, rt[1], rel + ":" + name)
                        self.calls_by_type[rt[1]] = self.calls
                elif ty is None and not name.startswith("serialize_") and name not in ("get_function_from_subfield_ops",):
                    fail("unexpected function in mod wire: " + name, rel)
        self.header()
        self.rebuild_sites()
        return self

    # -------------------------------------------------------------------------------------- header
    def header(self):
        p = os.path.join(self.repo, "boreal", "src", "wire.rs")
        text = open(p).read()
        m = re.search(r"const VERSION: u32 = (\d+);", text)
        mw = re.search(r'let magic: \[u8; (\d+)\] = \*b"([^"]*)";\s*magic\.serialize\(writer\)\?;\s*kind\.serialize\(writer\)\?;\s*VERSION\.serialize\(writer\)\?;', text)
        mr = re.search(r'let magic = <\[u8; (\d+)\]>::deserialize_reader\(reader\)\?;\s*if &magic != b"([^"]*)"', text)
        mk = re.search(r"let kind = <\[u8; (\d+)\]>::deserialize_reader\(reader\)\?;\s*if kind != expected_kind", text)
        mv = re.search(r"let version = u32::deserialize_reader\(reader\)\?;\s*if version != VERSION", text)
        if not (m and mw and mr and mk and mv):
            fail("wire.rs header functions not understood")
        if int(mw.group(1)) != len(mw.group(2)) or int(mr.group(1)) != len(mr.group(2)):
            fail("magic length")
        self.version = int(m.group(1))
        self.magic_w, self.magic_r = mw.group(2), mr.group(2)
        self.kind_len = int(mk.group(1))
        sc = open(os.path.join(self.repo, "boreal", "src", "scanner", "mod.rs")).read()
        kw = re.search(r'serialize_header\(\*b"(\w+)", writer\)\?;\s*self\.serialize\(writer\)\?;', sc)
        kr = re.search(r'deserialize_header\(\*b"(\w+)", &mut cursor\)\?;\s*let this = wire::deserialize_scanner\(params, &mut cursor\)\?;', sc)
        if not (kw and kr):
            fail("Scanner::to_bytes / from_bytes_unchecked not understood")
        self.kind_w, self.kind_r = kw.group(1), kr.group(1)
        if len(self.kind_w) != self.kind_len:
            fail("kind length")

    # -------------------------------------------------------------------------------------- rebuild parameters
    def fn_in(self, rel, ty, name):
        f = self.src[rel].impl_fns.get((ty, name))
        if f is None:
            fail("function %s::%s not found" % (ty, name), rel)
        return f

    def calls_in(self, ts, callee_re, var=None, out=None):
        """all calls `callee(args)` in ts with the innermost enclosing `let VAR =`"""
        if out is None:
            out = []
        i = 0
        while i < len(ts):
            t = ts[i]
            if t == "let" and i + 2 < len(ts) and is_id(ts[i + 1]) and ts[i + 2] == "=":
                j = i
                while j < len(ts) and ts[j] != ";":
                    j += 1
                self.calls_in(ts[i + 3:j], callee_re, ts[i + 1], out)
                i = j + 1
                continue
            if t == "let" and i + 3 < len(ts) and ts[i + 1] == "mut" and ts[i + 3] == "=":
                j = i
                while j < len(ts) and ts[j] != ";":
                    j += 1
                self.calls_in(ts[i + 4:j], callee_re, ts[i + 2], out)
                i = j + 1
                continue
            if isinstance(t, G):
                # a call?
                k = i - 1
                path = []
                while k >= 0 and (is_id(ts[k]) or ts[k] in ("::", ".")):
                    path.insert(0, ts[k])
                    k -= 1
                p = txt(path)
                if t.d == "(" and path and re.fullmatch(callee_re, p):
                    out.append((var, p, [txt(a) for a in split_top(t.c)]))
                self.calls_in(t.c, callee_re, var, out)
            i += 1
        return out

    def named_args(self, fn, args, drop=()):
        ps = [p for p, _ in fn.params if p != "self"]
        if len(ps) != len(args):
            fail("arity mismatch calling %s: %s vs %s" % (fn.name, ps, args))
        return [(p, norm_arg(a)) for p, a in zip(ps, args) if p not in drop]

    def rebuild_sites(self):
        B, R = self.sites_build, self.sites_rebuild
        vrel, drel, rrel, xrel, srel = ("matcher/validator.rs", "matcher/validator/dfa.rs", "matcher/raw.rs",
                                        "regex/mod.rs", "scanner/mod.rs")
        # ---- validators
        vnew = self.fn_in(vrel, "Validator", "new")
        dnew = self.fn_in(drel, "DfaValidator", "new")
        hnew = self.fn_in(vrel, "HalfValidator", "new")
        wv = self.wire_fns_by_file[vrel]
        wd = self.wire_fns_by_file[drel]
        dser = wd["deserialize_dfa_validator"]
        hser = wv["deserialize_half_validator"]
        vser = wv["deserialize_validator"]
        stored_as_exprs = ("hir", "analysis", "reader")
        bcalls = self.calls_in(vnew.body, r"(dfa::)?DfaValidator::new|HalfValidator::new")
        rcalls = self.calls_in(vser.body, r"(dfa::)?DfaValidator::deserialize|deserialize_half_validator")
        def key(c):
            return ("Dfa" if "DfaValidator" in c[1] else "Half") + "." + str(c[0])
        bk = sorted(key(c) for c in bcalls)
        rk = sorted(key(c) for c in rcalls)
        if len(set(bk)) != len(bk) or len(set(rk)) != len(rk):
            fail("validator construction sites are ambiguous: %s / %s" % (bk, rk))
        for c in bcalls:
            fn = dnew if "DfaValidator" in c[1] else hnew
            B.append(("Validator/" + key(c), self.named_args(fn, c[2], stored_as_exprs)))
        for c in rcalls:
            fn = dser if "DfaValidator" in c[1] else hser
            R.append(("Validator/" + key(c), self.named_args(fn, c[2], stored_as_exprs)))
        # HalfValidator::Dfa
        bc = self.calls_in(hnew.body, r"(dfa::)?DfaValidator::new")
        rc = self.calls_in(hser.body, r"(dfa::)?DfaValidator::deserialize")
        if len(bc) != 1 or len(rc) != 1:
            fail("HalfValidator::Dfa construction sites")
        B.append(("HalfValidator/Dfa", self.named_args(dnew, bc[0][2], stored_as_exprs)))
        R.append(("HalfValidator/Dfa", self.named_args(dser, rc[0][2], stored_as_exprs)))
        # DfaValidator.dfa = build_dfa(...)
        bdfa = self.src[drel].impl_fns.get((None, "build_dfa"))
        if bdfa is None:
            fail("build_dfa not found")
        bc = self.calls_in(dnew.body, r"build_dfa")
        rc = self.calls_in(dser.body, r"build_dfa")
        if len(bc) != 1 or len(rc) != 1:
            fail("build_dfa call sites")
        B.append(("DfaValidator/dfa", self.named_args(bdfa, bc[0][2])))
        R.append(("DfaValidator/dfa", self.named_args(bdfa, rc[0][2])))
        # which Modifiers fields build_dfa reads, which DfaValidator::new overwrites before the call
        self.dfa_mod_read = sorted(set(re.findall(r"modifiers\.(\w+)", txt(bdfa.body))))
        self.dfa_mod_written = sorted(set(re.findall(r"modifiers\.(\w+)=[^=]", txt(dnew.body))))
        self.dfa_mod_written_rebuild = sorted(set(re.findall(r"modifiers\.(\w+)=[^=]", txt(dser.body))))
        # the direction decides the match kind and the NFA direction inside build_dfa
        body = txt(bdfa.body)
        mk = re.search(r"match_kind\(if (\w+)\{MatchKind::(\w+)\}else\{MatchKind::(\w+)\}\)", body)
        rv = re.search(r"\.reverse\((\w+)\)", body)
        ci = re.search(r"\.case_insensitive\(([\w.]+)\)", body)
        da = re.search(r"\.dot_matches_new_line\(([\w.]+)\)", body)
        if not (mk and rv and ci and da):
            fail("build_dfa configuration not understood")
        self.build_dfa_cfg = [("match_kind.if", mk.group(1)), ("match_kind.then", mk.group(2)),
                              ("match_kind.else", mk.group(3)), ("thompson.reverse", rv.group(1)),
                              ("case_insensitive", ci.group(1)), ("dot_matches_new_line", da.group(1))]
        # ---- RawMatcher
        rnew = self.fn_in(rrel, "RawMatcher", "new")
        rser = self.wire_fns_by_file[rrel]["deserialize_raw_matcher"]
        rx_from = self.fn_in(xrel, "Regex", "from_string")
        rx_builder = self.fn_in(xrel, "Regex", "builder")
        for nm, fn, cre in (("RawMatcher/non_wide_regex", rx_from, r"Regex::from_string"),
                            ("RawMatcher/regex.builder", rx_builder, r"Regex::builder")):
            bc = self.calls_in(rnew.body, cre)
            rc = self.calls_in(rser.body, cre)
            if len(bc) != 1 or len(rc) != 1:
                fail(nm + " call sites")
            B.append((nm, self.named_args(fn, bc[0][2])))
            R.append((nm, self.named_args(fn, rc[0][2])))
        def patterns(fn):
            m = re.search(r"if (\w+)\.is_empty\(\)\{builder\.(build(?:_many)?)\((.*?)\)\}else\{builder\.(build(?:_many)?)\((.*?)\)\}",
                          txt(fn.body))
            if not m:
                fail("RawMatcher pattern selection not understood in " + fn.name)
            def pats(kind, arg):
                if kind == "build":
                    mm = re.fullmatch(r"&(\w+)", arg)
                    if not mm:
                        fail("build argument " + arg)
                    return mm.group(1)
                mm = re.fullmatch(r"&\[(.*)\]", arg)
                if not mm:
                    fail("build_many argument " + arg)
                return ",".join(x.lstrip("&") for x in mm.group(1).split(","))
            return [("single_if_empty", m.group(1)), ("then", pats(m.group(2), m.group(3))),
                    ("else", pats(m.group(4), m.group(5)))]
        B.append(("RawMatcher/regex.patterns", patterns(rnew)))
        R.append(("RawMatcher/regex.patterns", patterns(rser)))
        # ---- Regex (conditions): stored fields are the constructor's parameters
        params, p2f = self.ctor_fn_params.get(("Regex", "from_string"), (None, None))
        if params is None:
            fail("Regex::from_string was not met on the read side")
        body = txt(rx_from.body)
        m = re.search(r"Self::builder\((\w+),(\w+)\)\.build\(&(\w+)\)", body)
        if not m:
            fail("Regex::from_string body not understood")
        bparams = [p for p, _ in rx_builder.params]
        B.append(("Regex/meta", [(bparams[0], p2f.get(m.group(1), "?")), (bparams[1], p2f.get(m.group(2), "?")),
                                 ("pattern", p2f.get(m.group(3), "?"))]))
        rd = dict(self.read["Regex"][1]) if self.read["Regex"][0] == "Struct" else {}
        # on the read side each stored field is passed as the argument of the same name (checked by the schema
        # comparison); the site records which stored field feeds which builder parameter
        rc = self.calls_in(self.per_file_fn(xrel, "Regex", "Deserialize::deserialize_reader").body, r"Regex::from_string")
        if len(rc) != 1:
            fail("Regex rebuild site")
        a = dict(zip(params, rc[0][2]))
        R.append(("Regex/meta", [(bparams[0], a[m.group(1)]), (bparams[1], a[m.group(2)]), ("pattern", a[m.group(3)])]))
        # ---- AcScan
        bc = [c for c in self.calls_in(self.find_fn_with(srel, "AcScan::new", outside_wire=True).body, r"(ac_scan::)?AcScan::new")]
        rc = self.calls_in(self.wire_fns_by_file[srel]["deserialize_inner"].body, r"AcScan::new")
        if len(bc) != 1 or len(rc) != 1:
            fail("AcScan::new call sites")
        B.append(("Inner/ac_scan", [("variables", norm_arg(bc[0][2][0])), ("profile", norm_arg(bc[0][2][1]))]))
        R.append(("Inner/ac_scan", [("variables", norm_arg(rc[0][2][0])), ("profile", norm_arg(rc[0][2][1]))]))
        B.sort()
        R.sort()

    def per_file_fn(self, rel, ty, name):
        s = Source()
        scan_items(self.src[rel].wire, s, rel, in_wire=True)
        f = s.impl_fns.get((ty, name))
        if f is None:
            fail("%s %s not found in %s" % (ty, name, rel))
        return f

    def find_fn_with(self, rel, needle, outside_wire=True):
        for k, f in self.src[rel].impl_fns.items():
            if needle in txt(f.body) and "Inner{" in txt(f.body).replace(" ", ""):
                return f
        fail("no function building Inner with %s in %s" % (needle, rel))

def norm_arg(a):
    a = a.strip()
    a = re.sub(r"\.clone\(\)$", "", a)
    a = re.sub(r"^&(mut )?", "", a)
    return a

# ------------------------------------------------------------------------------------------------ Coq output
def cstr(s):
    return '"%s"' % s.replace('"', '""')

def coq_schema(s, ind=0):
    k = s[0]
    if k in ("U8", "U32", "U64", "NZ32", "I64", "F64", "Bool", "Str", "Bytes"):
        return "S" + k
    if k == "Fixed":
        return "(SFixed %d)" % s[1]
    if k == "Seq":
        return "(SSeq %s)" % coq_schema(s[1])
    if k == "Opt":
        return "(SOpt %s)" % coq_schema(s[1])
    if k == "Map":
        return "(SMap %s %s)" % (coq_schema(s[1]), coq_schema(s[2]))
    if k == "Ref":
        return "(SRef %s)" % cstr(s[1])
    if k == "Struct":
        return "(SStruct [%s])" % "; ".join("(%s, %s)" % (cstr(f), coq_schema(t)) for f, t in s[1])
    if k == "Enum":
        return "(SEnum [%s])" % ";\n      ".join("(%s, %d, %s)" % (cstr(c), tag, coq_schema(t)) for c, tag, t in s[1])
    raise Untranslatable("schema %s has no wire form" % (s,))

def emit(tr):
    names_w, names_r = sorted(tr.write), sorted(tr.read)
    L = []
    L.append("(* Model/WireSchemas.v — GENERATED by translators/wire_schema.py from %d `mod wire` blocks" % len(tr.blocks))
    L.append("   (%d serialize/deserialize impls and functions). Do not edit. *)" % tr.nimpl)
    L.append("From Boreal Require Import Base.Prelude Model.Wire.")
    L.append("From Coq Require Import String.")
    L.append("Local Open Scope string_scope.")
    L.append("")
    for side, table, names in (("write", tr.write, names_w), ("read", tr.read, names_r)):
        L.append("Definition %s_env : env := [" % side)
        L.append(";\n".join("  (%s,\n    %s)" % (cstr(n), coq_schema(table[n])) for n in names))
        L.append("].")
        L.append("")
    L.append("Definition all_wire_types : list string := [%s]." % "; ".join(cstr(n) for n in sorted(set(names_w) | set(names_r))))
    L.append("")
    for side, sites in (("build", tr.sites_build), ("rebuild", tr.sites_rebuild)):
        L.append("Definition %s_sites : list site := [" % side)
        L.append(";\n".join("  {| site_name := %s; site_params := [%s] |}" % (
            cstr(n), "; ".join("(%s, %s)" % (cstr(p), cstr(a)) for p, a in ps)) for n, ps in sites))
        L.append("].")
        L.append("")
    L.append("(* build_dfa: how the parameters are used (direction decides match kind and NFA direction) *)")
    L.append("Definition build_dfa_config : list (string * string) := [%s]." % "; ".join(
        "(%s, %s)" % (cstr(a), cstr(b)) for a, b in tr.build_dfa_cfg))
    L.append("Definition dfa_modifiers_read : list string := [%s]." % "; ".join(cstr(x) for x in tr.dfa_mod_read))
    L.append("Definition dfa_modifiers_overwritten_at_build : list string := [%s]." % "; ".join(cstr(x) for x in tr.dfa_mod_written))
    L.append("Definition dfa_modifiers_overwritten_at_rebuild : list string := [%s]." % "; ".join(cstr(x) for x in tr.dfa_mod_written_rebuild))
    L.append("")
    L.append("(* fields that are not on the wire but recomputed by the deserialiser *)")
    L.append("Definition rebuilt_fields : list (string * list string) := [%s]." % "; ".join(
        "(%s, [%s])" % (cstr(t), "; ".join(cstr(f) for f in fs)) for t, fs in sorted(tr.rebuilt_fields.items())))
    L.append("(* fields that `serialize` does not write *)")
    L.append("Definition unwritten_fields : list (string * list string) := [%s]." % "; ".join(
        "(%s, [%s])" % (cstr(t), "; ".join(cstr(f) for f in fs)) for t, fs in sorted(tr.unwritten_fields.items())))
    L.append("")
    L.append("Local Close Scope string_scope.")
    L.append("Definition wire_magic_write : bytes := [%s]." % "; ".join(str(ord(c)) for c in tr.magic_w))
    L.append("Definition wire_magic_read : bytes := [%s]." % "; ".join(str(ord(c)) for c in tr.magic_r))
    L.append("Definition wire_version : N := %d." % tr.version)
    L.append("Definition scanner_kind_write : bytes := [%s]." % "; ".join(str(ord(c)) for c in tr.kind_w))
    L.append("Definition scanner_kind_read : bytes := [%s]." % "; ".join(str(ord(c)) for c in tr.kind_r))
    L.append("")
    return "\n".join(L)

def translate(repo):
    tr = Translator(repo).run()
    return tr, emit(tr)

if __name__ == "__main__":
    repo = sys.argv[1] if len(sys.argv) > 1 else "/repo"
    try:
        tr, text = translate(repo)
    except Untranslatable as e:
        print("UNTRANSLATABLE:", e)
        sys.exit(2)
    if len(sys.argv) > 2:
        open(sys.argv[2], "w").write(text)
    else:
        sys.stdout.write(text)
    sys.stderr.write("%d blocks, %d impls/functions, %d write types, %d read types\n" % (
        len(tr.blocks), tr.nimpl, len(tr.write), len(tr.read)))
